"""C13: pairing ends the same way on both sides, with honest authentication.

(M) specs/Smp/Smp.tla model-checked by TLC: the association model transcribed from Core Vol 3 Part H
    Table 2.8 (independently of bumble's Session.PAIRING_METHODS), the protocol state machine of two
    sessions over FIFO channels with symbolic crypto, user answers, key-distribution masks; properties
    Agreement, Model, Honest, NoKeysOnFailure, RebondOk, Succeeds, deadlock freedom, NoHang (liveness).
(B) two real Devices per configuration (lib/c13_pairing.py) with scripted PairingDelegates; the recorded
    trace (SMP PDUs both ways, delegate calls, encryption start keys, pair() result, pairing events,
    PairingKeys, key stores, reconnection in the same and in swapped roles) is validated by
    specs/Smp/SmpTrace.tla against the spec's actions and properties.
(H) histories of pairings (Smp.tla NewLife / Forget, constant Lives): the same two devices pair AGAIN - same or
    swapped roles, legacy or SC, another method, on a new connection or on the link encrypted under the earlier
    bond - while one or both still hold the keys of the earlier bond, or after the user deleted it on one of
    them; at every encryption start of every life the key in the central's LE Enable Encryption command must
    be the key the peripheral's host (Device.get_long_term_key) replies with.
"""
from __future__ import annotations

import concurrent.futures
import json
import multiprocessing
import os

from lib import c13_pairing as cp
from lib import tlc

LEVEL = "model_checking"
IO = cp.IO_NAMES
FULL = ["ENC", "ID"]
PROPS = ("agreement", "model", "honest", "nokeys", "rebond", "succeeds", "nohang")
INVARIANTS = ["TypeOK", "StraysHarmless", "Agreement", "Model", "ModelRoles", "Honest", "NoKeysOnFailure", "RebondOk", "Succeeds"]
COOP = ["Start", "RxReq", "Accept", "TxRsp", "RxRsp", "TxCfm", "RxCfm", "TxRnd", "RxRnd",
        "EncReq", "LtkReply", "EncOn", "TxKey", "RxKey", "Complete", "Rebond"]
ACTIONS = ["Start", "RxReq", "Accept", "TxRsp", "RxRsp", "TxCfm", "RxCfm", "TxRnd", "RxRnd", "TxFail", "RxFail",
           "EncReq", "LtkReply", "EncOn", "TxKey", "RxKey", "Complete", "Rebond"]
HIST = ["Forgets", "Relive"]


# ----------------------------------------------------------------------------- (M) model checking
def _tla_set(xs):
    def one(x):
        if isinstance(x, bool):
            return "TRUE" if x else "FALSE"
        if isinstance(x, (list, tuple, set, frozenset)):
            return "{" + ", ".join(one(y) for y in sorted(x)) + "}"
        return json.dumps(x)

    return "{" + ", ".join(one(x) for x in xs) + "}"


def _mc_cfg(ctx, name, c, liveness=False, deadlock=True):
    text = "SPECIFICATION Spec\nCONSTANTS\n"
    text += f"  IoI = {_tla_set(c['IoI'])}\n  IoR = {_tla_set(c['IoR'])}\n"
    for k in ("ScS", "MitmS", "BondS", "OobS"):
        text += f"  {k} = {_tla_set(c[k])}\n"
    text += f"  KdS = {_tla_set(c['KdS'])}\n  Rounds = {c['Rounds']}\n"
    text += f"  RspAny = {'TRUE' if c['RspAny'] else 'FALSE'}\n  Faults = {'TRUE' if c['Faults'] else 'FALSE'}\n"
    text += f"  Strays = {'TRUE' if c.get('Strays') else 'FALSE'}\n"
    text += f"  Lives = {c.get('Lives', 1)}\n  Provider = \"{c.get('Provider', 'session')}\"\n"
    for inv in INVARIANTS:
        text += f"INVARIANT {inv}\n"
    if liveness:
        text += "PROPERTY NoHang\n"
    text += f"CHECK_DEADLOCK {'TRUE' if deadlock else 'FALSE'}\n"
    p = os.path.join(ctx.out, name + ".cfg")
    with open(p, "w") as f:
        f.write(text)
    return p


def _taken(out):
    """action -> number of times taken.  lib.tlc.parse_coverage does not match the label TLC prints for an action
    that Next calls with arguments (`<Accept line 1, col 1 to line 9, col 9 of module Smp (384 24 384 46)>: 3:5`)."""
    import re

    cov = {}
    for m in re.finditer(r"^<(\w+) line \d+, col \d+ to line \d+, col \d+ of module \w+(?: \([\d ]+\))?>: (\d+):(\d+)", out, re.M):
        cov[m.group(1)] = cov.get(m.group(1), 0) + int(m.group(3))
    return cov


def _mc(ctx, rep, name, c, need, liveness=False, workers=8):
    cfg = _mc_cfg(ctx, name, c, liveness=liveness)
    res = tlc.mc(ctx.spec("Smp", "Smp.tla"), cfg, workers=workers, timeout=3000)
    if res["violation"]:
        raise tlc.TlcError(f"Smp.tla ({name}) violates {res['violation']} in the model itself:\n{res['out'][-2500:]}")
    taken = _taken(res["out"])
    for k, v in taken.items():
        res["coverage"].setdefault(k, {"distinct": 0, "taken": 0})
        res["coverage"][k]["taken"] = max(res["coverage"][k]["taken"], v)
    tlc.require_actions(res, need, f"Smp/{name}")
    rep.add_mc(f"Smp/Smp.tla[{name}]", res, {k: (sorted(map(str, v)) if isinstance(v, (list, set, tuple)) else v) for k, v in c.items()})
    return res


def mc_runs(ctx):
    B = [True, False]
    base = {"IoI": IO, "IoR": IO, "ScS": B, "MitmS": B, "BondS": [True], "OobS": [False], "KdS": [FULL],
            "Rounds": 1, "RspAny": False, "Faults": False, "Strays": False}
    pk_ios = ["KeyboardOnly", "KeyboardDisplay"]
    ui = ["AskDisplay", "AskInput", "AskCompare", "TxPub", "RxPub", "TxDhk", "RxDhk"]
    runs = []
    # association table exhaustively: 5 x 5 IO x SC pair x MITM pair, cooperative users
    runs.append(("table", dict(base), ACTIONS + ui, False))
    # full protocol with every user answer and tampering, 2 passkey rounds
    runs.append(("protocol", dict(base, IoI=pk_ios, IoR=pk_ios, Rounds=2, Faults=True),
                 ACTIONS + ui + ["Consent", "RxStale"], False))
    # key-distribution masks and bonding flags, both directions, both sides
    two = [[], ["ENC"], ["ID"], ["ENC", "ID"]]
    runs.append(("masks", dict(base, IoI=["KeyboardDisplay"], IoR=["KeyboardDisplay"], MitmS=[True], BondS=[True] if ctx.quick else B,
                               KdS=two[1:] if ctx.quick else two), COOP, False))
    # OOB
    runs.append(("oob", dict(base, IoI=["NoInputNoOutput"], IoR=["KeyboardDisplay"], OobS=B, MitmS=[True], Faults=True),
                 ACTIONS + ["TxPub", "TxDhk"], False))
    # the responder may answer any subset of the requested masks
    runs.append(("rspany", dict(base, IoI=["KeyboardDisplay"], IoR=["KeyboardDisplay"], MitmS=[True], KdS=[["ENC", "ID"], ["ENC"]],
                                RspAny=True), COOP, False))
    # late PDUs of a failed side
    runs.append(("strays", dict(base, IoI=["KeyboardDisplay"], IoR=pk_ios, MitmS=[True], Faults=True, Strays=True),
                 ACTIONS + ["Stray", "RxStale"], False))
    # termination under fairness (small constants, no state constraint)
    runs.append(("liveness", dict(base, IoI=["KeyboardDisplay"], IoR=pk_ios, MitmS=[True], Rounds=2, Faults=True),
                 ACTIONS, True))
    # histories of pairings: 3 lives (pair, reconnect / forget, pair again in the same or swapped roles, legacy / SC,
    # bonded or not: unbonded pairings before / over / after a bond); 3 lives of passkey entry with every user answer
    # and tampering (failed attempts over an earlier bond, another attempt after a failure)
    hist = dict(base, IoI=["NoInputNoOutput"], IoR=["NoInputNoOutput"], MitmS=[False])
    runs.append(("histories", dict(hist, BondS=B, Lives=3), COOP + HIST, False))
    runs.append(("histories-faults", dict(base, IoI=["KeyboardOnly"], IoR=["DisplayOnly"], MitmS=[True], Faults=True, Lives=3),
                 ACTIONS + HIST + ["AskDisplay", "AskInput", "RxStale"], False))
    if not ctx.quick:
        runs.append(("histories-consent", dict(hist, Faults=True, Lives=3), ACTIONS + HIST + ["Consent"], False))
        runs.append(("histories-masks", dict(hist, KdS=[["ENC", "ID"], ["ID"]], Lives=3), COOP + HIST, False))
        runs.append(("all-faults", dict(base, Rounds=2, Faults=True), ACTIONS + ui + ["Consent", "RxStale"], False))
        # 4-bit masks sampled: each run takes 3 masks out of the 16 (81 mask quadruples per flag setting)
        bits = ["ENC", "ID", "SIGN", "LINK"]
        allmasks = [[b for j, b in enumerate(bits) if m >> j & 1] for m in range(16)]
        for k in range(4):
            runs.append((f"masks4-{k}", dict(base, IoI=["KeyboardDisplay"], IoR=pk_ios, MitmS=[True], KdS=ctx.rng.sample(allmasks, 3)),
                         COOP, False))
    return runs


def model_check(ctx, rep, only=None):
    runs = [r for r in mc_runs(ctx) if only is None or r[0] in only]
    # the quick runs are small (3 k - 60 k states: JVM start and parsing dominate, more than 2 TLC workers only burn
    # CPU): five at a time (two waves), 2 workers each, next to the 8 scenario processes
    with concurrent.futures.ThreadPoolExecutor(max_workers=5 if ctx.quick else 3) as ex:
        futs = [ex.submit(_mc, ctx, rep, name, c, need, live, 2 if ctx.quick else 4) for (name, c, need, live) in runs]
        for f in futs:
            f.result()


# ----------------------------------------------------------------------------- scenario selection
def _select_method(ioi, ior, sc, mitm):
    """ONLY used to decide which user-fault scripts are worth running for an IO pair (a fault script the
    selected model cannot consume would just repeat the cooperative run).  Never used for a verdict: the
    association model that decides is the TLA+ operator Table28 / Method in Smp.tla."""
    if not mitm or "NoInputNoOutput" in (ioi, ior):
        return "JW"
    disp = {"DisplayOnly", "DisplayYesNo"}
    if ioi in disp and ior in disp:
        return "NC" if sc and ioi == ior == "DisplayYesNo" else "JW"
    if sc and {ioi, ior} <= {"DisplayYesNo", "KeyboardDisplay"}:
        return "NC"
    return "PK"


def mk(ioi, ior, sci, scr, mi, mr, **kw):
    sc = {"ci": {"io": ioi, "sc": sci, "mitm": mi, "bond": True, "oob": False, "ikd": list(FULL), "rkd": list(FULL)},
          "cr": {"io": ior, "sc": scr, "mitm": mr, "bond": True, "oob": False, "ikd": list(FULL), "rkd": list(FULL)},
          "ai": {"accept": True, "pkin": 1, "cmp": True, "cfm": "yes"},
          "ar": {"accept": True, "pkin": 1, "cmp": True, "cfm": "yes"},
          "tamper": False, "badround": 1, "passkey": 123456, "delay": 0.0, "seed": 0}
    for k, v in kw.items():
        if "." in k:
            a, b = k.split(".")
            sc[a][b] = v
        else:
            sc[k] = v
    return sc


def scenarios(ctx):
    rng = ctx.rng
    out = []
    B = [True, False]

    def add(sc):
        sc["seed"] = ctx.seed * 100003 + len(out)
        if sc.get("keystore"):
            sc["keystore"] = os.path.join(ctx.out, "keystores", f"ks{sc['seed']}")
        if sc["delay"] is None:
            sc["delay"] = rng.choice([0.0, 0.0, 0.003, 0.05])
        out.append(sc)

    # A. every IO pair x {legacy, SC} pair x MITM pair, cooperative users
    for ioi in IO:
        for ior in IO:
            for sci in B:
                for scr in B:
                    for mi in B:
                        for mr in B:
                            add(mk(ioi, ior, sci, scr, mi, mr, delay=None))
    pairs = [(a, b) for a in IO for b in IO]
    # B. passkey classes: 000000, a value with the top bit of the 20 set
    for (a, b) in pairs:
        for sc in B:
            if _select_method(a, b, sc, True) == "PK":
                add(mk(a, b, sc, sc, True, True, passkey=0, delay=None))
                if not ctx.quick:
                    add(mk(a, b, sc, sc, True, False, passkey=0, delay=None))
                    add(mk(a, b, sc, sc, True, True, passkey=475710 + 2 ** 19, delay=None))
    # C. user faults
    for (a, b) in pairs:
        for sc in B:
            m = _select_method(a, b, sc, True)
            scps = [(sc, sc)] if ctx.quick else [(sc, sc)] + ([(True, False), (False, True)] if not sc else [])
            for (sci, scr) in scps:
                if m == "PK":
                    for side in ("ai", "ar"):
                        add(mk(a, b, sci, scr, True, True, **{side + ".pkin": 2}, badround=rng.randint(1, 20), delay=None))
                        add(mk(a, b, sci, scr, True, True, **{side + ".pkin": 0}, delay=None))
                    if a == b == "KeyboardOnly":
                        add(mk(a, b, sci, scr, True, True, **{"ai.pkin": 2, "ar.pkin": 2}, badround=rng.randint(1, 20), delay=None))
                    if not ctx.quick:
                        for br in (1, 20, rng.randint(2, 19)):
                            add(mk(a, b, sci, scr, True, True, **{"ar.pkin": 2, "ai.pkin": 2 if a == b == "KeyboardOnly" and br == 20 else 1}, badround=br, delay=None))
                        add(mk(a, b, sci, scr, True, True, **{"ai.pkin": 2}, passkey=0, badround=rng.randint(1, 20), delay=None))
                if m == "NC":
                    for (ci, cr) in ((False, True), (True, False), (False, False)):
                        add(mk(a, b, sci, scr, True, True, **{"ai.cmp": ci, "ar.cmp": cr}, delay=None))
                if m == "JW" and sc and (ctx.quick and (a, b) in (("NoInputNoOutput", "DisplayOnly"), ("DisplayYesNo", "NoInputNoOutput")) or not ctx.quick):
                    for (ci, cr) in (("no", "yes"), ("yes", "no")):
                        add(mk(a, b, sci, scr, True, True, **{"ai.cfm": ci, "ar.cfm": cr}, delay=None))
    rej = [("NoInputNoOutput", "NoInputNoOutput"), ("KeyboardDisplay", "KeyboardOnly"), ("DisplayYesNo", "DisplayYesNo")]
    for (a, b) in (rej if ctx.quick else pairs):
        for sc in B:
            add(mk(a, b, sc, sc, True, True, **{"ar.accept": False}, delay=None))
            add(mk(a, b, sc, sc, True, True, tamper=True, delay=None))
            add(mk(a, b, sc, sc, False, False, tamper=True, delay=None))
    # D. key-distribution masks and bonding flags
    two = [[], ["ENC"], ["ID"], ["ENC", "ID"]]
    four = [[b for j, b in enumerate(["ENC", "ID", "SIGN", "LINK"]) if m >> j & 1] for m in range(16)]
    for sc in B:
        for (bi, br) in ((True, False), (False, True), (False, False)):
            add(mk("NoInputNoOutput", "KeyboardDisplay", sc, sc, False, False, **{"ci.bond": bi, "cr.bond": br}, delay=None))
        n = 24 if ctx.quick else 256
        combos = [(i1, i2, r1, r2) for i1 in two for i2 in two for r1 in two for r2 in two]
        for (i1, i2, r1, r2) in (rng.sample(combos, n) if n < len(combos) else combos):
            a, b = rng.choice(pairs)
            add(mk(a, b, sc, sc, rng.random() < 0.5, rng.random() < 0.5, **{"ci.ikd": i1, "ci.rkd": i2, "cr.ikd": r1, "cr.rkd": r2}, delay=None))
    if not ctx.quick:
        # every single-bit difference from full / empty masks, and random 4-bit masks
        for sc in B:
            for basem in (15, 0):
                for field in ("ci.ikd", "ci.rkd", "cr.ikd", "cr.rkd"):
                    for bit in range(4):
                        kw = {f: four[basem] for f in ("ci.ikd", "ci.rkd", "cr.ikd", "cr.rkd")}
                        kw[field] = four[basem ^ (1 << bit)]
                        add(mk("KeyboardDisplay", "KeyboardDisplay", sc, sc, True, True, **kw, delay=None))
        for _ in range(6000):
            a, b = rng.choice(pairs)
            kw = {f: rng.choice(four) for f in ("ci.ikd", "ci.rkd", "cr.ikd", "cr.rkd")}
            kw["ci.bond"] = rng.random() < 0.8
            kw["cr.bond"] = rng.random() < 0.8
            add(mk(a, b, rng.random() < 0.5, rng.random() < 0.5, rng.random() < 0.6, rng.random() < 0.6, passkey=rng.choice([0, 1, 123456, 475710]), **kw, delay=None))
    # E. OOB
    for (sc, oi, orr) in ((True, True, True), (True, True, False), (True, False, True), (False, True, True)):
        add(mk("NoInputNoOutput", "KeyboardDisplay", sc, sc, True, True, **{"ci.oob": oi, "cr.oob": orr}, delay=None))
        add(mk("KeyboardDisplay", "DisplayYesNo", sc, sc, False, False, **{"ci.oob": oi, "cr.oob": orr}, delay=None))
    add(mk("NoInputNoOutput", "NoInputNoOutput", True, True, True, True, **{"ci.oob": True, "cr.oob": True}, tamper=True, delay=None))
    # F. histories of pairings
    for h in histories(ctx, rng):
        add(h)
    # G. slow users (added last, with their own generator: the inputs of A-F stay what they were)
    for sc in slow_users(ctx):
        add(sc)
    return out


def slow_users(ctx):
    """Each user takes his own time to answer (script["wait"], virtual seconds; PDUs take at most 0.05 s): an answer
    comes before or AFTER the peer's next PDU, on each side independently - in particular the responder's user
    answers the numeric comparison / the Just Works consent after the initiator's DHKey check has arrived, or
    refuses then.  MITM flags asymmetric (the model is numeric comparison as soon as ONE side asks for MITM
    protection), symmetric, and absent (Just Works with a consent prompt)."""
    import random

    rng = random.Random(ctx.seed * 7919 + 13)
    out = []
    dl = lambda: rng.choice([0.0, 0.0, 0.003, 0.05])
    waits = [(0, 2), (2, 0), (1, 2)] if ctx.quick else [(0, 2), (2, 0), (1, 2), (2, 1), (3, 3), (0, 1)]
    nc_pairs = [(a, b) for a in IO for b in IO if _select_method(a, b, True, True) == "NC"]
    mitms = [(True, False), (False, True), (True, True)]
    # G1. SC numeric comparison: every answer pair x who is slow x which side asked for MITM protection
    for k, (a, b) in enumerate(nc_pairs):
        for (mi, mr) in mitms:
            for (ci, cr) in ((True, True), (True, False), (False, True), (False, False)):
                for j, (wi, wr) in enumerate(waits):
                    if ctx.quick and (k + j + (mi, mr, ci, cr).count(True)) % 2 and not (mi and not mr and ci and (wi, wr) == (0, 2)):
                        continue
                    out.append(mk(a, b, True, True, mi, mr, **{"ai.cmp": ci, "ar.cmp": cr, "ai.wait": wi, "ar.wait": wr}, delay=dl()))
    # G2. SC Just Works with a consent prompt: nobody asks for MITM protection / one side does and the IO pair has no
    #     protected model (that side may refuse, see MayRefuse) / NoInputNoOutput
    jws = [("DisplayYesNo", "DisplayYesNo", False, False), ("KeyboardDisplay", "DisplayYesNo", False, False),
           ("NoInputNoOutput", "DisplayYesNo", True, False), ("DisplayOnly", "NoInputNoOutput", False, True)]
    for (a, b, mi, mr) in (jws if ctx.quick else [(a, b, mi, mr) for a in IO for b in IO for (mi, mr) in mitms + [(False, False)]
                                                  if _select_method(a, b, True, mi or mr) == "JW"]):
        for (ci, cr) in (("yes", "yes"), ("yes", "no"), ("no", "yes")):
            for (wi, wr) in waits[:2] if ctx.quick else waits:
                out.append(mk(a, b, True, True, mi, mr, **{"ai.cfm": ci, "ar.cfm": cr, "ai.wait": wi, "ar.wait": wr}, delay=dl()))
    # G3. passkey entry typed late (after the peer's confirm value has arrived), refused late; a late accept()
    for sc in (True, False):
        for (a, b, slow) in (("KeyboardOnly", "DisplayOnly", "ai"), ("DisplayOnly", "KeyboardOnly", "ar"), ("KeyboardOnly", "KeyboardOnly", "ar")):
            for (mi, mr) in (mitms[:2] if ctx.quick else mitms):
                for pkin in (1, 2, 0):
                    out.append(mk(a, b, sc, sc, mi, mr, **{slow + ".pkin": pkin, slow + ".wait": 2}, badround=rng.randint(1, 20), delay=dl()))
        for acc in (True, False):
            out.append(mk("DisplayYesNo", "KeyboardDisplay", sc, sc, True, False, **{"ar.accept": acc, "ar.wait": 2, "ai.wait": 1}, delay=dl()))
    return out


NI = "NoInputNoOutput"


def history(first, *more, keystore=None):
    """first life + further lives.  `keep` on a life = pair on the link the previous life's last reconnection
    left encrypted: the previous life's reconnections are ordered so that the last one has the right central."""
    lives = [first] + list(more)
    for prev, nxt in zip(lives, lives[1:]):
        if nxt.get("keep"):
            last = "i" if nxt.get("central", 0) == prev.get("central", 0) else "r"
            steps = [x for x in prev.get("after", ["i", "r"]) if x != last]
            prev["after"] = steps + [last]
    first["lives"] = list(more)
    first["delay"] = None
    if keystore:
        first["keystore"] = keystore
    return first


def histories(ctx, rng):
    B = [False, True]
    out = []

    def jw(sc, **kw):
        return mk(NI, NI, sc, sc, False, False, **kw)

    # F1. bond, reconnect both ways (or the bond deleted on one / both devices), pair again: legacy / SC x legacy / SC x
    #     same / swapped roles x what the devices still hold x new connection / the link encrypted under the old bond
    for a in B:
        for b in B:
            for central in (0, 1):
                for after in (["i", "r"], ["i", "r", "Fi"], ["r", "i", "Fr"], ["i", "Fi", "Fr"]):
                    out.append(history(jw(a, after=after), jw(b, central=central)))
                out.append(history(jw(a), jw(b, central=central, keep=True)))
                # the same with the bonds kept in JSON key-store files (another KeyStore behind the same API)
                out.append(history(jw(a), jw(b, central=central), keystore="json"))
    # F2. a failed attempt over an existing bond (refused / wrong passkey / tampered / compare "no"), then another one
    fails = [
        lambda sc, c: jw(sc, central=c, **{"ar.accept": False}),
        lambda sc, c: mk("KeyboardOnly", "DisplayOnly", sc, sc, True, True, central=c, **{"ai.pkin": 2}, badround=rng.randint(1, 20)),
        lambda sc, c: jw(sc, central=c, tamper=True),
        lambda sc, c: mk("DisplayYesNo", "KeyboardDisplay", True, True, True, True, central=c, **{"ar.cmp": False}),
        lambda sc, c: mk("KeyboardDisplay", "KeyboardOnly", sc, sc, True, True, central=c, **{"ar.pkin": 0}),
    ]
    k = 0
    for a in B:
        for f in fails:
            c2, c3 = [(0, 0), (1, 0), (1, 1), (0, 1)][k % 4]
            out.append(history(jw(a), f(bool(k % 2), c2), jw(not a, central=c3)))
            k += 1
    # F3. another association model the second time (an authenticated bond replaced by a Just Works one and back)
    pk = lambda sc, **kw: mk("KeyboardOnly", "DisplayOnly", sc, sc, True, True, **kw)
    nc = lambda **kw: mk("DisplayYesNo", "KeyboardDisplay", True, True, True, True, **kw)
    for ks in (None, "json"):
        out.append(history(pk(False), jw(True, central=1), nc(central=1), keystore=ks))
        out.append(history(pk(True), jw(False), pk(False, central=1, keep=True), keystore=ks))
        out.append(history(nc(), jw(False, central=1, keep=True), jw(True, central=0), keystore=ks))
        out.append(history(jw(True), pk(True, passkey=0, central=1), jw(False, central=1, after=["r", "i", "Fi"]), nc(), keystore=ks))
    # F4. key-distribution masks change between the bonds (legacy: one LTK only, then both; nothing but the identity)
    m = lambda sc, i1, i2, r1, r2, **kw: mk("KeyboardDisplay", "KeyboardDisplay", sc, sc, True, True,
                                            **{"ci.ikd": i1, "ci.rkd": i2, "cr.ikd": r1, "cr.rkd": r2}, **kw)
    E, ID, EI = ["ENC"], ["ID"], ["ENC", "ID"]
    for ks in (None, "json"):
        out.append(history(m(False, E, EI, EI, EI), m(False, EI, EI, EI, EI, central=1), keystore=ks))
        out.append(history(m(False, EI, EI, EI, EI), m(False, EI, ID, EI, ID, central=1), m(False, ID, EI, EI, EI), keystore=ks))
        out.append(history(m(False, EI, EI, EI, EI), m(True, ID, ID, ID, ID), m(False, EI, E, EI, E, central=1, keep=True), keystore=ks))
        out.append(history(m(True, EI, EI, EI, EI), m(False, ID, EI, ID, EI, central=1), m(True, [], [], [], []), keystore=ks))
    # F5. an unbonded pairing over a bond, then a bonded one
    for a in B:
        for (bi, br) in ((False, True), (False, False)):
            out.append(history(jw(a), jw(not a, central=int(bi == br), **{"ci.bond": bi, "cr.bond": br}), jw(a, central=1)))
    # F6. random histories of 3-4 lives
    pairs = [(x, y) for x in IO for y in IO]
    for _ in range(12 if ctx.quick else 400):
        lives = []
        for j in range(rng.choice([3, 3, 4])):
            x, y = rng.choice(pairs)
            lf = mk(x, y, rng.random() < 0.5, rng.random() < 0.5, rng.random() < 0.6, rng.random() < 0.6,
                    passkey=rng.choice([0, 123456, 475710]), central=0 if j == 0 else rng.choice([0, 1]),
                    after=rng.choice([["i", "r"], ["r", "i"], ["i", "r", "Fi"], ["i", "r", "Fr"], ["Fi", "Fr"], ["r"]]))
            if j and rng.random() < 0.3:
                lf["keep"] = True
            if rng.random() < 0.15:
                lf["ar"]["accept"] = False
            lives.append(lf)
        out.append(history(*lives, keystore=rng.choice([None, "json"])))
    return out


# ----------------------------------------------------------------------------- (B) execution + validation
def _work(sc):
    try:
        ev, info = cp.run_scenario(sc)
        return ("ok", ev, info)
    except BaseException as e:  # the harness itself failed: machinery, not a verdict
        import traceback

        return ("exc", repr(e), traceback.format_exc())


def run_all(scs, procs=8, pool=None):
    if pool is not None:
        return pool.map(_work, scs, chunksize=max(1, len(scs) // (procs * 8)))
    if procs <= 1 or len(scs) < 32:
        return [_work(sc) for sc in scs]
    with multiprocessing.get_context("fork").Pool(procs) as p:
        return p.map(_work, scs, chunksize=max(1, len(scs) // (procs * 8)))


def _trace_cfg(ctx):
    p = os.path.join(ctx.out, "smptrace.cfg")
    with open(p, "w") as f:
        f.write("SPECIFICATION TraceSpec\nCONSTANTS\n  IoI = {}\n  IoR = {}\n  ScS = {}\n  MitmS = {}\n  BondS = {}\n  OobS = {}\n"
                "  KdS = {}\n  Rounds = 20\n  RspAny = TRUE\n  Faults = TRUE\n  Strays = TRUE\n  Lives = 1\n  Provider = \"session\"\n"
                "CHECK_DEADLOCK FALSE\n")
    return p


def _mode(sc):
    return "sc" if sc["ci"]["sc"] and sc["cr"]["sc"] else "legacy"


def abstract_key(sc):
    if sc.get("lives"):
        return ("json-key-store" if sc.get("keystore") else "memory-key-store",) + tuple((lf.get("central", 0), bool(lf.get("keep")), tuple(lf.get("after", ["i", "r"])), abstract_key(dict(lf, lives=[])))
                     for lf in cp.life_list(sc))
    return (sc["ci"]["io"], sc["cr"]["io"], sc["ci"]["sc"], sc["cr"]["sc"], sc["ci"]["mitm"], sc["cr"]["mitm"],
            sc["ci"]["bond"], sc["cr"]["bond"], sc["ci"]["oob"], sc["cr"]["oob"],
            tuple(sc["ci"]["ikd"]), tuple(sc["ci"]["rkd"]), tuple(sc["cr"]["ikd"]), tuple(sc["cr"]["rkd"]),
            tuple(sorted(sc["ai"].items())), tuple(sorted(sc["ar"].items())), sc["tamper"], sc["passkey"] == 0, sc["badround"])


def classify(sc, events, verdict):
    """Stable signature naming what fails + a readable summary."""
    line = verdict[1]
    ev = events[line - 1] if 0 < line <= len(events) else None
    info = verdict[3] if len(verdict) > 3 and isinstance(verdict[3], dict) else {}
    exp = info.get("expect", {}) if isinstance(info.get("expect"), dict) else {}
    m = exp.get("m", "?")
    # the life (pairing attempt of the history) the event belongs to, and its configuration
    hlives = cp.life_list(sc)
    life = info.get("life", 1) if isinstance(info.get("life"), int) else 1
    life = min(max(life, 1), len(hlives))
    whole = sc
    sc = hlives[life - 1]
    again = ":re-pairing" if life > 1 else ""
    mode = _mode(sc)
    zero = ":passkey-000000" if (m == "PK" and sc["passkey"] == 0) else ""
    what = {k: v for k, v in (ev or {}).items() if v not in (0, "", False, [])}
    failing = [p for p in PROPS if info.get(p) is False]
    if ev is not None and ev["e"] == "quiesce" and "nohang" in failing:
        failing = ["nohang"]
    if ev is None:
        return "smp:trace:no-verdict", f"no verdict for the trace: {verdict}"
    if info.get("act") is False:
        s = ev["s"]
        if ev["e"] == "tx" and ev["t"] == "dhk" and m == "NC" and info.get("cmp", {}).get(s) == "none" and not info.get("mustfail", {}).get(s):
            sig = f"smp:nokeys:{m}-{mode}:{s}-dhkey-check-released-before-user-answered-compare"
            why = (f"side {s} sent its DHKey check while its user had not yet answered the numeric comparison (TxDhk needs cmp = yes): "
                   f"the peer can complete and store keys whatever the user answers")
        elif ev["e"] == "ui" and ev["t"] in ("compare", "confirm") and (info.get("res", {}).get(s) == "ok" or info.get("ph", {}).get(s) in ("w_enc", "keys")):
            sig = f"smp:nokeys:{m}-{mode}:{s}-went-on-before-user-answered-{ev['t']}"
            why = (f"the user of side {s} answered the {ev['t']} prompt ({'yes' if ev['b'] else 'NO'}) only after that side had made its last "
                   f"phase 2 move: the pairing went on without the answer")
        elif ev["e"] == "ui":
            sig = f"smp:model:{mode}:{sc['ci']['io']}/{sc['cr']['io']}:{s}-{ev['t']}"
            why = f"delegate call {ev['t']} on side {s} does not belong to the prescribed model {exp}"
        elif ev["e"] == "tx" and info.get("mustfail", {}).get(s):
            sig = f"smp:nokeys:{m}-{mode}:{s}-sends-{ev['t']}-after-failed-check"
            why = f"side {s} sent {ev['t']} although a check / the user had already failed the pairing"
        elif ev["e"] == "tx" and ev["t"] == "fail":
            sig = f"smp:succeeds:{m}-{mode}:{s}-fails-without-cause"
            why = f"side {s} sent Pairing Failed although every check passes and the users cooperate"
        elif ev["e"] == "tx" and ev["t"] == "cfm" and m == "PK" and info.get("pk", {}).get(s) == 0:
            sig = f"smp:model:{mode}:{sc['ci']['io']}/{sc['cr']['io']}:{s}-confirm-without-passkey"
            why = f"side {s} sent its confirm value without having displayed / asked for the passkey the model {exp} prescribes"
        elif ev["e"] in ("enc",) or (ev["e"] == "report" and ev["t"] in ("ok", "keys")):
            sig = f"smp:agreement:{m}-{mode}:{s}-{ev['e']}-{ev['t'] or 'on'}-not-justified{zero}"
            why = f"side {s} reported {ev['e']} {ev['t']} in a state where the protocol has not got there"
        else:
            sig = f"smp:sequence:{m}-{mode}:{s}-{ev['e']}-{ev['t']}{zero}"
            why = f"event is not a step of the specified protocol in phase {info.get('ph')}"
    elif failing:
        p = failing[0]
        if ev["e"] == "ltkreply" and p == "agreement":
            # encryption start: the peripheral's long-term-key provider does not return the key of the central's request
            starts = [j for j, e in enumerate(events[:line - 1]) if e["e"] == "life"]
            earlier = events[: starts[-1]] if starts else []
            old = {e.get(f) for e in earlier for f in ("k", "k2") if e["e"] in ("encreq", "ltkreply", "tx", "report", "rebond")} - {0}
            kind = "no-key" if not ev["k"] else "key-of-earlier-bond" if ev["k"] in old else "another-key"
            sig = f"smp:agreement:{m}-{mode}:{'re-pairing' if life > 1 else 'first-pairing'}:peripheral-ltk-provider-returns-{kind}"
            why = (f"encryption start of pairing #{life} of this pair of devices: the central's LE Enable Encryption carries key #{info.get('lk', {}).get('req')}, "
                   f"the peripheral's long-term-key provider answers with key #{ev['k']} ({kind})")
            again = ""
        elif ev["e"] == "rebond":
            roles = "same-roles" if ev["s"] == "i" else "swapped-roles"
            part = "" if (set(sc["ci"]["ikd"]) & set(sc["cr"]["ikd"]) >= {"ENC"} and set(sc["ci"]["rkd"]) & set(sc["cr"]["rkd"]) >= {"ENC"}) or mode == "sc" else ":one-way-enc-key"
            if ev["k"] and ev["k"] != ev["k2"]:
                kind = "central-and-peripheral-use-different-keys"
            elif not ev["k"]:
                kind = "central-finds-no-key"
            else:
                kind = "central-key-not-from-this-pairing"
            sig = f"smp:rebond:{mode}:{roles}:{kind}{part}"
            why = f"reconnection ({roles}): central sends key #{ev['k']}, peripheral's long-term-key provider returns key #{ev['k2']}"
        elif ev["e"] == "quiesce" and p == "nohang":
            sig = f"smp:nohang:{m}-{mode}{zero}"
            why = "pairing never ends: " + ("pair() still pending" if ev["hang"] else f"results {info.get('res')} reports {info.get('rep')}") + " at quiescence"
        else:
            sig = f"smp:{p}:{m}-{mode}:{ev['e']}-{ev['t'] or ev['s']}{zero}"
            why = f"property {p} does not hold after this event"
    else:
        sig = f"smp:unknown:{ev['e']}-{ev['t']}"
        why = "rejected without a failing clause"
    # (the kind of key store is part of the input class only for the clauses that read the stores)
    sig += again + (":json-key-store" if whole.get("keystore") and sig.split(":")[1] in ("rebond", "honest", "nokeys") else "")
    cfgtxt = f"I={sc['ci']} R={sc['cr']} answers I={sc['ai']} R={sc['ar']} tamper={sc['tamper']} passkey={sc['passkey']:06d}"
    if len(hlives) > 1:
        cfgtxt = (f"life {life} of {len(hlives)} (central = device {sc.get('central', 0)}{', on the link encrypted under the earlier bond' if sc.get('keep') else ''}; "
                  f"earlier lives: {[(_mode(h), h.get('central', 0), h.get('after', ['i', 'r'])) for h in hlives[:life - 1]]}) " + cfgtxt)
    summary = (f"{why}; event #{line} {what}; {cfgtxt}; spec state: ph={info.get('ph')} res={info.get('res')} reported={info.get('rep')} "
               f"mustfail={info.get('mustfail')} link={info.get('lk')}; failing clauses: {[k for k in ('act',) + PROPS if info.get(k) is False]}")
    return sig, summary


def validate(ctx, rep, scs, results, batches=1):
    bad = [(sc, r) for sc, r in zip(scs, results) if r[0] != "ok"]
    if bad:
        sc, r = bad[0]
        raise RuntimeError(f"{len(bad)} scenario(s) crashed inside the harness, first: {json.dumps(sc)}\n{r[2]}")
    traces = [r[1] for r in results]
    cfg = _trace_cfg(ctx)
    n = len(traces)
    size = (n + batches - 1) // batches
    chunks = [(i, traces[i : i + size]) for i in range(0, n, size)]

    def one(chunk):
        i, trs = chunk
        return i, tlc.trace_batch(ctx.spec("Smp", "SmpTrace.tla"), cfg, trs, timeout=2400, tag=f"c13-{i}")

    verdicts = {}
    with concurrent.futures.ThreadPoolExecutor(max_workers=max(1, batches)) as ex:
        for i, res in ex.map(one, chunks):
            rep.extra["trace_states"] = rep.extra.get("trace_states", 0) + res["states"]
            for tid, v in res["verdicts"].items():
                verdicts[i + tid - 1] = v
    stats = {"accepted": 0, "rejected": 0, "paired": 0, "failed": 0, "histories": 0, "history_lives": 0, "re_pairings_ok": 0}
    for k, (sc, r) in enumerate(zip(scs, results)):
        v = verdicts[k]
        events, info = r[1], r[2]
        rep.traces += 1
        stats["paired" if info["pair_ok"] else "failed"] += 1
        rep.case(abstract_key(sc), nontrivial=len(events) > 8,
                 sample={"I": sc["ci"], "R": sc["cr"], "answers": [sc["ai"], sc["ar"]], "events": len(events), "pair_ok": info["pair_ok"],
                         "lives": len(info["lives"])} if k % 97 == 0 else None)
        if len(info["lives"]) > 1:
            stats["histories"] += 1
            stats["history_lives"] += len(info["lives"])
            stats["re_pairings_ok"] += sum(1 for x in info["lives"][1:] if x["pair_ok"])
        if v[0] == "ACCEPT":
            stats["accepted"] += 1
            continue
        stats["rejected"] += 1
        sig, summary = classify(sc, events, v)
        rep.violation(sig, summary, {"scenario": sc, "line": v[1], "notes": info.get("notes"), "rebond": info.get("rebond")})
    for k, v in stats.items():
        rep.extra[k] = rep.extra.get(k, 0) + v
    return verdicts


# ----------------------------------------------------------------------------- entry points
def run(ctx, rep):
    rep.rule = ("one real pairing (two Devices on a LocalLink, scripted delegates; family G: users that answer late, each side on its own clock) per configuration, then reconnection in the same and in "
                "swapped roles; histories: 2-4 such lives of the same two devices (re-pairing over / after deleting the earlier bond); each "
                "recorded trace validated by SmpTrace.tla; distinct = distinct (IO pair, SC/MITM/bonding/OOB flags, masks, "
                "user answers, tamper, passkey class, bad round) tuples, per life + roles / reconnections / deletions for histories")
    rep.assumptions = [
        "crypto is symbolic in the model: a confirm / DHKey check succeeds iff both sides used the same inputs (numeric correctness is C14)",
        "the tap plays the link layer during encryption start (LE Long Term Key Request to the peripheral's host), because the virtual controller reports success without asking for a key",
        "identity address = the static random address used for the connection, so the key-store entry is found again on reconnection",
        "20 passkey rounds are 1-2 rounds in the model-checking runs and 20 in trace validation",
        "the responder 'reports failure' also by never emitting 'pairing' (DESIGN Appendix D)",
    ]
    scs = scenarios(ctx)
    # the worker processes are forked before the model-checking thread starts (no fork from a threaded process);
    # TLC on the spec and the scenarios against the implementation then run side by side
    with multiprocessing.get_context("fork").Pool(8) as pool, concurrent.futures.ThreadPoolExecutor(max_workers=1) as ex:
        mc_done = ex.submit(model_check, ctx, rep)
        results = run_all(scs, procs=8, pool=pool)
        validate(ctx, rep, scs, results, batches=1 if ctx.quick else 4)
        mc_done.result()
    rep.exhaustive = False
    rep.extra["configurations"] = len(scs)


def replay(ctx, rep):
    r = ctx.replay["replay"]
    sc = r["scenario"]
    events, info = cp.run_scenario(sc)
    for i, e in enumerate(events[1:], 2):
        print(i, {k: v for k, v in e.items() if v not in (0, "", False, [])})
    print("info:", {k: v for k, v in info.items() if k != "stores"})
    res = tlc.trace_batch(ctx.spec("Smp", "SmpTrace.tla"), _trace_cfg(ctx), [events])
    v = res["verdicts"][1]
    print("verdict:", v[0], v[1:3] if len(v) > 2 else "")
    if v[0] == "REJECT":
        sig, summary = classify(sc, events, v)
        print(sig, "\n", summary)
        rep.violation(sig, summary, r)


def selftest(ctx, rep):
    """The binding is not vacuous: documented misbehaviours of the real Session (subclassed through the public
    Device.smp_session_proxy) and corrupted traces must all be flagged; a cooperative run must be accepted."""
    from bumble import smp

    class AcceptAnything(smp.Session):  # confirm / DHKey mismatches ignored
        def check_expected_value(self, expected, received, error):
            return True

    class AlwaysAuthenticated(smp.Session):  # every pairing labelled authenticated
        async def on_pairing(self):
            self.pairing_method = smp.PairingMethod.NUMERIC_COMPARISON if self.pairing_method == smp.PairingMethod.JUST_WORKS else self.pairing_method
            await super().on_pairing()

    class BothDisplay(smp.Session):  # initiator displays where it should type
        def decide_pairing_method(self, auth_req, i, r):
            super().decide_pairing_method(auth_req, i, r)
            if self.pairing_method == smp.PairingMethod.PASSKEY and self.is_initiator:
                self.passkey_display = True

    class SilentFailure(smp.Session):  # a failure never resolves pair()
        def on_pairing_failure(self, reason):
            self.completed = True

    class EagerDhkeyCheck(smp.Session):  # the responder does not hold its DHKey check back until its user has answered
        def on_smp_pairing_random_command_secure_connections(self, command):
            super().on_smp_pairing_random_command_secure_connections(command)
            if not self.is_initiator:
                self.wait_before_continuing = None

    def proxy(cls):
        def patch(net):
            for d in net.devices:
                d.smp_session_proxy = cls
        return patch

    cases = {
        "accept-anything/wrong-passkey-sc": (mk("KeyboardDisplay", "KeyboardOnly", True, True, True, True, **{"ar.pkin": 2}, badround=3), proxy(AcceptAnything)),
        "accept-anything/wrong-passkey-legacy": (mk("KeyboardOnly", "DisplayOnly", False, False, True, True, **{"ai.pkin": 2}), proxy(AcceptAnything)),
        "always-authenticated/just-works": (mk("NoInputNoOutput", "DisplayYesNo", True, True, True, True), proxy(AlwaysAuthenticated)),
        "both-display": (mk("KeyboardOnly", "DisplayOnly", True, True, True, True), proxy(BothDisplay)),
        "eager-dhkey-check/slow-responder-says-no-to-the-comparison": (mk("DisplayYesNo", "KeyboardDisplay", True, True, True, False, **{"ar.cmp": False, "ar.wait": 2}), proxy(EagerDhkeyCheck)),
        "eager-dhkey-check/slow-responder-refuses-just-works-consent": (mk("DisplayYesNo", "DisplayYesNo", True, True, False, False, **{"ar.cfm": "no", "ar.wait": 2}), proxy(EagerDhkeyCheck)),
        "silent-failure/reject": (mk("NoInputNoOutput", "NoInputNoOutput", True, True, False, False, **{"ar.accept": False}), proxy(SilentFailure)),
    }
    scs, traces, names = [], [], []
    for name, (sc, patch) in cases.items():
        sc["seed"] = 7
        ev, info = cp.run_scenario(sc, device_patch=patch)
        scs.append(sc); traces.append(ev); names.append(name)
    # corrupted recordings of a good SC run
    good_sc = mk("DisplayYesNo", "KeyboardDisplay", True, True, True, True)
    good, _ = cp.run_scenario(good_sc)
    scs.append(good_sc); traces.append(good); names.append("CONTROL/good-trace-accepted")

    slow_sc = mk("DisplayYesNo", "KeyboardDisplay", True, True, True, False, **{"ar.wait": 2})
    slow, _ = cp.run_scenario(slow_sc)
    scs.append(slow_sc); traces.append(slow); names.append("CONTROL/slow-responder-says-yes-accepted")

    def corrupt(name, fn):
        t = json.loads(json.dumps(good))
        fn(t)
        scs.append(good_sc); traces.append(t); names.append(name)

    def idx(trace, **kw):
        return next(i for i, e in enumerate(trace) if all(e.get(k) == v for k, v in kw.items()))

    corrupt("trace/drop-rx", lambda t: t.pop(idx(t, e="rx", t="dhk", s="r")))
    corrupt("trace/other-ltk-reply", lambda t: t[idx(t, e="ltkreply")].update(k=9))
    corrupt("trace/rebond-key-differs", lambda t: t[idx(t, e="rebond", s="r")].update(k2=7))
    corrupt("trace/responder-never-reports", lambda t: t.pop(idx(t, e="report", s="r", t="keys")))
    corrupt("trace/pair-never-returns", lambda t: (t.pop(idx(t, e="report", s="i", t="ok")), t[idx(t, e="quiesce")].update(hang=True)))

    def keys_after_failure(t):
        # the initiator's user says no, both fail, yet both stores keep an entry
        i0, i1 = idx(t, e="ui", t="compare", s="i"), idx(t, e="quiesce")
        t[i0]["b"] = False
        t[i0 + 1 : i1] = [dict(cp.EV_DEFAULTS, e="tx", s="i", t="fail", ik=[], rk=[]), dict(cp.EV_DEFAULTS, e="report", s="i", t="fail", ik=[], rk=[]),
                          dict(cp.EV_DEFAULTS, e="rx", s="r", t="fail", ik=[], rk=[]), dict(cp.EV_DEFAULTS, e="report", s="r", t="fail", ik=[], rk=[])]
        q = t[idx(t, e="quiesce")]
        q.update(enc_i=False, enc_r=False)
        del t[idx(t, e="quiesce") + 1 :]
        t[0]["ai"] = dict(t[0]["ai"], cmp=False)

    corrupt("trace/keys-left-after-failure", keys_after_failure)
    jw_sc = mk("NoInputNoOutput", "NoInputNoOutput", True, True, False, False)
    jw, _ = cp.run_scenario(jw_sc)
    jw[idx(jw, e="report", t="keys", s="i")]["b"] = True
    scs.append(jw_sc); traces.append(jw); names.append("trace/authenticated-flag-with-just-works")

    # ---- histories of pairings
    def store_first(net):
        # documented misbehaviour: the peripheral's long-term-key provider looks in the key store before the pairing
        # in progress (wrapped around the real provider; nothing in /repo is touched)
        for d in net.devices:
            real = d.host.long_term_key_provider

            async def provider(handle, rand, ediv, d=d, real=real):
                conn = d.lookup_connection(handle)
                keys = await d.keystore.get(str(conn.peer_address)) if conn is not None else None
                if keys is not None:
                    k = keys.ltk or keys.ltk_peripheral
                    if k:
                        return k.value
                return await real(handle, rand, ediv)

            d.host.long_term_key_provider = provider

    def stale_session(net):
        # documented misbehaviour: on a reconnection the provider answers with a key that is not in the store
        for d in net.devices:
            real = d.host.long_term_key_provider

            async def provider(handle, rand, ediv, d=d, real=real):
                k = await real(handle, rand, ediv)
                conn = d.lookup_connection(handle)
                if k is not None and conn is not None and d.smp_manager.sessions.get(handle) is None:
                    return bytes(x ^ 0x5A for x in k)
                return k

            d.host.long_term_key_provider = provider

    jw = lambda sc, **kw: mk(NI, NI, sc, sc, False, False, **kw)
    hcases = {
        "history/provider-store-first/sc-over-legacy-bond": (history(jw(False), jw(True)), store_first),
        "history/provider-store-first/legacy-over-sc-bond-swapped-roles": (history(jw(True), jw(False, central=1)), store_first),
        "history/provider-store-first/on-the-encrypted-link": (history(jw(True), jw(True, keep=True)), store_first),
        "history/provider-other-key-on-reconnection": (history(jw(True), jw(False, central=1)), stale_session),
    }
    for name, (sc, patch) in hcases.items():
        sc["seed"] = 11
        sc["delay"] = 0.0
        ev, info = cp.run_scenario(sc, device_patch=patch)
        scs.append(sc); traces.append(ev); names.append(name)
    good_h = history(jw(False), jw(True, central=1, **{"ar.accept": False}), jw(True, central=1, after=["i", "r", "Fr"]), jw(False))
    good_h["seed"] = 11
    good_h["delay"] = 0.0
    goodh, _ = cp.run_scenario(good_h)
    scs.append(good_h); traces.append(goodh); names.append("CONTROL/good-history-accepted")

    def corrupt_h(name, fn):
        t = json.loads(json.dumps(goodh))
        fn(t)
        scs.append(good_h); traces.append(t); names.append(name)

    def nth(trace, n, **kw):
        return [i for i, e in enumerate(trace) if all(e.get(k) == v for k, v in kw.items())][n]

    # life 3's provider answers with the key life 1 ran on; the refused life 2 changes a key store; life 3's central
    # reconnects with a key of life 1; life 4 (after the bond was deleted on one device) loses its ltk reply
    corrupt_h("history-trace/old-key-in-ltk-reply", lambda t: t[nth(t, 1, e="ltkreply")].update(k=t[nth(t, 0, e="ltkreply")]["k"]))
    corrupt_h("history-trace/store-changed-by-refused-attempt", lambda t: t[nth(t, 1, e="quiesce")].update(sid_r=99))
    corrupt_h("history-trace/reconnection-with-key-of-earlier-bond",
              lambda t: t[nth(t, 2, e="rebond")].update(k=t[nth(t, 0, e="rebond")]["k"], k2=t[nth(t, 0, e="rebond")]["k"]))
    corrupt_h("history-trace/drop-ltk-reply-of-last-life", lambda t: t.pop(nth(t, 2, e="ltkreply")))

    res = tlc.trace_batch(ctx.spec("Smp", "SmpTrace.tla"), _trace_cfg(ctx), traces)
    out = {}
    for k, name in enumerate(names):
        v = res["verdicts"][k + 1]
        rep.traces += 1
        rep.case(("selftest", name))
        if name.startswith("CONTROL"):
            out[name] = v[0]
            if v[0] != "ACCEPT":
                rep.violation("selftest:control-rejected", f"cooperative SC run rejected: {classify(scs[k], traces[k], v)}")
            continue
        out[name] = classify(scs[k], traces[k], v)[0] if v[0] == "REJECT" else "MISSED"
        if v[0] != "REJECT":
            rep.violation(f"selftest:{name}", f"binding self-test: {name} was not detected")
    for k, v in out.items():
        print(f"selftest {k}: {v}")
    # the model itself: a long-term-key provider that looks in the store first must be refuted by TLC on histories of
    # two lives (and only there: with a single life it is indistinguishable from the right one)
    B = [True, False]
    base = {"IoI": [NI], "IoR": [NI], "ScS": B, "MitmS": [False], "BondS": [True], "OobS": [False], "KdS": [FULL],
            "Rounds": 1, "RspAny": False, "Faults": False, "Strays": False, "Provider": "store"}
    for lives, expect in ((1, None), (2, "Agreement")):
        r = tlc.mc(ctx.spec("Smp", "Smp.tla"), _mc_cfg(ctx, f"selftest-store-first-{lives}", dict(base, Lives=lives)), workers=4, timeout=3000)
        got = r["violation"]
        rep.case(("selftest", "model/store-first-provider", lives))
        print(f"selftest model/store-first-provider/lives={lives}: states={r['states']} violation={got}")
        if (expect is None) != (not got) or (expect and expect not in str(got)):
            rep.violation(f"selftest:model/store-first-provider/lives={lives}",
                          f"Smp.tla with Provider = store-first, Lives = {lives}: expected {expect or 'no violation'}, TLC reports {got}")
