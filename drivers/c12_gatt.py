"""C12: a GATT client sees exactly the server's database, values and notifications.

(M)   specs/Gatt/Discovery.tla (six discovery loops against an adversarial responder: progress,
      bound, termination) and specs/Gatt/Subs.tla (cccd[bearer][char], notify / indicate / confirm)
      model-checked by TLC.
(A)   every edge of the Strict state graph of Discovery.tla = one adversarial response sequence,
      replayed by a scripted raw ATT server (lib/c12_puppet.py) against the real bumble
      gatt_client.Client; the recorded requests are validated by DiscoveryTrace.tla.
(B)   generated databases x client / server MTU preferences: real client, real server;
      db / discovered / read / write events validated by DbTrace.tla, which recomputes the expected
      tree and values (Db.tla).  One server and two clients with EATT bearers and all CCCD
      values: cccd / api / pdu / callback / confirmation events validated by SubsTrace.tla.
"""
from __future__ import annotations

import concurrent.futures
import json
import os
import random

from lib import c12_db as D
from lib import c12_puppet as P
from lib import c12_subs as S
from lib import tlc, tour, vt

LEVEL = "model_checking"
TOP = 0xFFFF


def _scratch(ctx):
    """per-process scratch directory (several checks of C12 may run at once, e.g. against mutants)"""
    d = os.path.join(ctx.out, f"w{os.getpid()}")
    os.makedirs(d, exist_ok=True)
    return d


def _write(ctx, name, text):
    p = os.path.join(_scratch(ctx), name)
    with open(p, "w") as f:
        f.write(text)
    return p


def _cleanup(ctx):
    import shutil

    shutil.rmtree(_scratch(ctx), ignore_errors=True)


# ============================================================================= (i) termination
def discovery_config(ctx):
    """(NG, NN, ranges, MaxList)"""
    if ctx.quick:
        return 4, 5, [(1, 5), (2, 4)], 2
    return 5, 6, [(1, 6), (2, 5), (2, 6), (1, 1), (6, 6), (3, 4)], 2


def _mc_discovery(ctx, ng, nn, ranges, maxlist, strict, dump=None):
    cfg = _write(ctx, f"disc_{int(strict)}.cfg", P.cfg_text(P.PROCS, ng, nn, ranges, maxlist, strict))
    res = tlc.mc(ctx.spec("Gatt", "Discovery.tla"), cfg, workers=4, dump=dump)
    if res["violation"]:
        raise tlc.TlcError(f"Discovery.tla (NG={ng}, NN={nn}, Strict={strict}) violates {res['violation']} in the model itself")
    tlc.require_actions(res, ["Request", "Finish", "RespondNotFound", "RespondError", "RespondEmpty", "RespondNothing", "RespondList"], f"Discovery strict={strict}")
    return res


def discovery_trace_cfg(ctx):
    return _write(ctx, "disctrace.cfg",
                  "SPECIFICATION TraceSpec\nCONSTANTS\n  NG = 65535\n  NN = 65535\n  Procs = {\"attrs\"}\n  Ranges = {}\n  MaxList = 1\n  Strict = FALSE\nCHECK_DEADLOCK FALSE\n")


def _last_rsp(trace, l):
    for e in reversed(trace[: max(l - 1, 0)]):
        if e["e"] == "rsp":
            return e["k"]
    return "nothing"


def validate_discovery(ctx, rep, jobs, traces, count=True):
    """jobs[i] = (proc, n, lo, hi, base, rsps, starts); traces[i] = events"""
    res = tlc.trace_batch(ctx.spec("Gatt", "DiscoveryTrace.tla"), discovery_trace_cfg(ctx), traces, tag="c12d")
    rep.extra["trace_states"] = rep.extra.get("trace_states", 0) + res["states"]
    for tid, v in sorted(res["verdicts"].items()):
        job, tr = jobs[tid - 1], traces[tid - 1]
        proc = job[0]
        if count:
            rep.traces += 1
            rep.case(("disc", proc, job[1], job[2], job[3], job[4], tuple(job[5])), nontrivial=len(job[5]) > 0,
                     sample={"procedure": proc, "handle_space": job[1], "range": [job[2], job[3]], "responses": [list(map(str, r)) for r in job[5]][:4]} if tid == 1 else None)
        if v[0] != "REJECT":
            continue
        l = v[1]
        info = v[3] if len(v) > 3 and isinstance(v[3], dict) else {}
        clause = next((k for k in ("progress", "range", "gatt", "ended", "bound") if info.get(k) is False), "order")
        evt = tr[l - 1] if 0 < l <= len(tr) else {}
        if clause == "progress":
            what = (f"request {info.get('nreq', 0) + 1} starts at 0x{evt.get('s', 0):04X}, not after the previous request (0x{info.get('lastStart', 0):04X}): "
                    f"the procedure makes no progress after a response of kind '{_last_rsp(tr, l)}'")
        elif clause == "gatt":
            what = f"request starts at 0x{evt.get('s', 0):04X}, Part G 4.4-4.7 requires 0x{evt.get('want', 0):04X} (one after the last handle of the previous response)"
        elif clause == "ended":
            what = "the call never ended"
        elif clause == "bound":
            what = f"{info.get('nreq')} requests although the peer named handles of a space of {job[1]}"
        else:
            what = f"event {evt} refused"
        nreq = sum(1 for e in tr if e["e"] == "req")
        rep.violation(
            f"discovery:{proc}:{clause}:after-{_last_rsp(tr, l)}",
            f"Client.{_api_name(proc)} against adversarial responses {list(job[5])} (handles +0x{job[4]:04X}): {what}; {nreq} requests sent before the peer went silent",
            {"part": "discovery", "proc": proc, "n": job[1], "lo": job[2], "hi": job[3], "base": job[4],
             "rsps": [list(r) if r[0] != "list" else ["list", [list(x) for x in r[1]]] for r in job[5]], "starts": list(job[6]), "line": l},
        )


def _api_name(proc):
    return {"services": "discover_services", "service": "discover_service", "included": "discover_included_services",
            "chars": "discover_characteristics", "descs": "discover_descriptors", "attrs": "discover_attributes"}[proc]


def _edge_paths_all_roots(g):
    """one path per edge, from the initial state the edge is reachable from"""
    for root in g.init:
        prev, path = tour.shortest_paths(g, root)
        for ei, (src, dst, a, args) in enumerate(g.edges):
            if src in prev:
                yield root, path(src) + [ei]


def part_discovery(ctx, rep, client_factory=None, limit=None, count=True, only=None):
    ng, nn, ranges, maxlist = discovery_config(ctx)
    dot = os.path.join(_scratch(ctx), "discovery_graph.dot")
    with concurrent.futures.ThreadPoolExecutor(max_workers=2) as ex:
        f1 = ex.submit(_mc_discovery, ctx, ng, nn, ranges, maxlist, True, dot)
        f2 = ex.submit(_mc_discovery, ctx, ng, nn, ranges, maxlist, False)
        r_strict, r_free = f1.result(), f2.result()
    g = tlc.load_graph(dot)
    os.remove(dot)
    if count:
        consts = {"NG": ng, "NN": nn, "Ranges": [list(r) for r in ranges], "MaxList": maxlist, "Procs": list(P.PROCS)}
        rep.add_mc("Gatt/Discovery.tla", r_strict, dict(consts, Strict=True))
        rep.add_mc("Gatt/Discovery.tla", r_free, dict(consts, Strict=False))
    jobs = []
    for k, (root, p) in enumerate(_edge_paths_all_roots(g)):
        if g.edges[p[-1]][2] == "Request":
            continue
        st = g.nodes[root]
        proc, lo, hi = st["Proc"], st["Lo"], st["Hi"]
        if only and proc not in only:
            continue
        n = ng if proc in P.GROUP else nn
        rsps, starts = P.script_of_path(g, p)
        bases = [TOP - n] if proc not in P.RANGED else [0, TOP - n]
        jobs.append((proc, n, lo, hi, bases[k % len(bases)], tuple(rsps), tuple(starts)))
    if limit and len(jobs) > limit:
        jobs = random.Random(ctx.seed).sample(jobs, limit)
    traces = P.run_scripts(jobs, seed=ctx.seed, client_factory=client_factory)
    validate_discovery(ctx, rep, jobs, traces, count=count)
    rep.extra["discovery_graph_edges"] = len(g.edges)
    return jobs, traces


# ============================================================================= (ii) structure / values
def db_cases(ctx, n_per_pair):
    cases = []
    for cm in D.MTUS:
        for sm in D.MTUS:
            for k in range(n_per_pair):
                cases.append({"cm": cm, "sm": sm, "seed": ctx.rng.getrandbits(31), "defaults": k % 3 == 0,
                              "delay": 0.003 if k % 2 else 0.0, "nsvc": k % 5 if k < 5 else None})
    return cases


def run_db_case(case, client_wrap=None, server_wrap=None):
    rng = random.Random(case["seed"])
    plan = D.gen_plan(rng, min(case["cm"], case["sm"]), nsvc=case.get("nsvc"))
    trace, info = vt.run(D.run_case(rng, plan, case["cm"], case["sm"], defaults=case["defaults"], max_delay=case["delay"],
                                    seed=case["seed"], client_wrap=client_wrap, server_wrap=server_wrap,
                                    n_reads=case.get("n_reads"), skip_mtu_request=case["seed"] % 2 == 0))
    return plan, trace, info


_DB_CLIENT_GUARDS = ("mtu", "ordered", "svc", "inc", "chr", "dsc", "one", "fil", "all", "val")
_DB_LAYOUT_GUARDS = ("ordered", "laysvc", "layinc", "laychr", "laydsc")


def _plan_has_nested(plan):
    """some included service is registered only through (or after) the service that includes it"""
    svcs = plan["services"]
    order = plan["order"]
    pos = {i: k for k, i in enumerate(order)}
    for i, s in enumerate(svcs):
        for j in s["includes"]:
            if j not in pos or (i in pos and pos[j] > pos[i]) or i not in pos:
                return True
    return False


def _include_widths(plan):
    return sorted({plan["services"][j]["uuid"][0] for s in plan["services"] for j in s["includes"]})


def validate_db(ctx, rep, cases, runs, count=True):
    """runs[i] = (plan, trace, info)"""
    traces, owner = [], []
    for i, (plan, trace, info) in enumerate(runs):
        traces.append(trace)
        owner.append((i, "client"))
        if info.get("layout"):
            traces.append(info["layout"])
            owner.append((i, "layout"))
    cfg = _write(ctx, "dbtrace.cfg", D.trace_cfg())
    # batches of 400 traces (a db event carries the whole attribute table), four TLC runs at a time
    chunks = [(k, traces[k : k + 400]) for k in range(0, len(traces), 400)]
    verdicts = {}
    with concurrent.futures.ThreadPoolExecutor(max_workers=4) as ex:
        for (k, _), res in zip(chunks, ex.map(lambda c: tlc.trace_batch(ctx.spec("Gatt", "DbTrace.tla"), cfg, c[1], tag="c12b"), chunks)):
            rep.extra["trace_states"] = rep.extra.get("trace_states", 0) + res["states"]
            for tid, v in res["verdicts"].items():
                verdicts[k + tid] = v
    for tid, v in sorted(verdicts.items()):
        i, kind = owner[tid - 1]
        plan, trace, info = runs[i]
        case = cases[i]
        m = min(case["cm"], case["sm"])
        if count and kind == "client":
            rep.traces += 1
            rep.case(("db", case["cm"], case["sm"], D.plan_class(plan), case["defaults"]), nontrivial=len(plan["services"]) > 0,
                     sample={"mtu_prefs": [case["cm"], case["sm"]], "db_class(services,chars,descs,includes,uuid_widths)": list(map(str, D.plan_class(plan))), "events": len(trace)} if i < 2 else None)
        if v[0] != "REJECT":
            continue
        l = v[1]
        tr = traces[tid - 1]
        evt = tr[l - 1] if 0 < l <= len(tr) else {"e": "?"}
        g = v[3] if len(v) > 3 and isinstance(v[3], dict) else {}
        replay = {"part": "db", "case": case, "line": l, "event": evt["e"]}
        if kind == "layout":
            clause = next((k for k in _DB_LAYOUT_GUARDS if g.get(k) is False), "other")
            cls = "plain"
            if plan["services"] and any(s["includes"] for s in plan["services"]):
                cls = "nested-include" if (_plan_has_nested(plan) and clause != "layinc") else "include-uuid" + "+".join(map(str, _include_widths(plan)))
            rep.violation(
                f"server:layout:{clause}:{cls}",
                f"the attribute table gatt_server.Server exposes is not a well-formed layout of the registered services (clause {clause}; database class {D.plan_class(plan)}, {cls}): "
                f"{_layout_hint(clause, cls)}",
                replay,
            )
            continue
        if evt["e"] == "exc":
            rep.violation(f"client:{evt['api']}:raise:{evt['u']}",
                          f"Client.{evt['api']} {'never returned' if evt['u'] == 'hang' else 'raised ' + str(info.get('exc'))} (MTU prefs {case['cm']}/{case['sm']}, database class {D.plan_class(plan)})", replay)
            continue
        clause = next((k for k in _DB_CLIENT_GUARDS if g.get(k) is False), "other")
        if evt["e"] in ("read", "srv"):
            row = next((r for r in trace[1]["rows"] if r["h"] == evt["h"]), None) if len(trace) > 1 and trace[1]["e"] == "db" else None
            want_n = None
            for e in tr[: l - 1]:
                if e["e"] == "write" and e["h"] == evt["h"]:
                    want_n = e["n"]
            if want_n is None and row:
                want_n = row["n"]
            cls = D.len_class(want_n or 0, m)
            who = "client:read" if evt["e"] == "read" else "server:write"
            rep.violation(f"{who}:{cls}",
                          f"{'read_value' if evt['e'] == 'read' else 'server-side value after write_value'} of handle {evt['h']} at ATT_MTU {m}: {evt['n']} bytes "
                          f"({'equal to no known version' if evt['ver'] == 99 else 'version ' + str(evt['ver'])}), expected the current value of {want_n} bytes", replay)
        elif evt["e"] == "disc":
            cls = ""
            if _plan_has_nested(plan):
                cls = ":nested-include"
            elif clause == "inc":
                cls = ":include-uuid" + "+".join(map(str, _include_widths(plan)))
            rep.violation(f"client:discovery:{clause}{cls}",
                          f"the proxies returned by discovery differ from the tree of the exposed table in clause '{clause}' (MTU prefs {case['cm']}/{case['sm']}, database class {D.plan_class(plan)}): "
                          f"{_disc_diff(trace, clause)}", replay)
        else:
            rep.violation(f"client:{evt['e']}:{clause}",
                          f"event {evt['e']} refused (clause {clause}; MTU prefs {case['cm']}/{case['sm']}, database class {D.plan_class(plan)}): "
                          f"{ {k: evt[k] for k in ('cm', 'sm', 'gc', 'gs', 'u', 'h', 'n', 'ver') } } {str(evt.get('items'))[:300]}", replay)


def _layout_hint(clause, cls):
    if cls == "nested-include":
        return "a service registered through the service that includes it lands inside the includer's handle range (group ends / owners differ)"
    if clause == "layinc":
        return "an include declaration does not name the included service (handle range / UUID)"
    return ""


def _disc_diff(trace, clause):
    """human-readable difference for the summary (the verdict is TLC's)"""
    try:
        db = next(e for e in trace if e["e"] == "db")
        d = next(e for e in trace if e["e"] == "disc")
        key = {"svc": "dsvc", "inc": "dinc", "chr": "dchr", "dsc": "ddsc"}[clause]
        return f"discovered {key} = {json.dumps(d[key])[:400]} ; table has {len(db['rows'])} rows"
    except Exception:
        return ""


def part_db(ctx, rep, n_per_pair, client_wrap=None, server_wrap=None, count=True, cases=None):
    cases = cases or db_cases(ctx, n_per_pair)
    runs = [run_db_case(c, client_wrap, server_wrap) for c in cases]
    validate_db(ctx, rep, cases, runs, count=count)
    return cases, runs


# ============================================================================= (iii) subscriptions
def _mc_subs(ctx, name, text, need):
    cfg = _write(ctx, name, text)
    res = tlc.mc(ctx.spec("Gatt", "Subs.tla"), cfg, workers=4)
    if res["violation"]:
        raise tlc.TlcError(f"Subs.tla ({name}) violates {res['violation']} in the model itself")
    tlc.require_actions(res, need, "Subs " + name)
    return res


def subs_cfg(bearers, chars, maxcalls, lens, maxwrites, initvals, lossy, liveness, initlocal='{{}, {"ntf", "ind"}}'):
    return ("SPECIFICATION Spec\nCONSTANTS\n"
            f"  Bearers = {{{', '.join(map(str, bearers))}}}\n  Chars = {{{', '.join(map(str, chars))}}}\n  MaxCalls = {maxcalls}\n"
            f"  Lens = {{{', '.join(map(str, lens))}}}\n  Mtu0 = 5\n  MaxWrites = {maxwrites}\n  InitVals = {{{', '.join(map(str, initvals))}}}\n  Lossy = {'TRUE' if lossy else 'FALSE'}\n  InitLocal = {initlocal}\n"
            "INVARIANT TypeOK\nINVARIANT OneOutstanding\nINVARIANT OnlyOwed\nINVARIANT AllReached\n"
            + ("PROPERTY Returns\nPROPERTY AllDelivered\n" if liveness else "") + "CHECK_DEADLOCK FALSE\n")


def subs_scenarios(ctx, rounds):
    out = []
    for r in range(rounds):
        for k, fam in enumerate(S.FAMILIES):
            seed = ctx.rng.getrandbits(31)
            # systematic CCCD values on client 1's two bearers for characteristic 1, the rest random
            v = (r * len(S.FAMILIES) + k) % 16
            fixed = {"1.1": v % 4, "2.1": v // 4}
            out.append({"family": fam, "seed": seed, "eatt": [True, (r + k) % 3 != 0], "mtus": [[64, 23], [23, 185], [517, 24]][(r + k) % 3], "cccd": fixed})
    return out


def run_subs(sc, server_wrap=None, client_wrap=None):
    rng = random.Random(sc["seed"])
    fixed = {tuple(map(int, k.split("."))): v for k, v in sc["cccd"].items()}
    return vt.run(S.run_scenario(rng, sc["family"], seed=sc["seed"], eatt=tuple(sc["eatt"]), mtus=tuple(sc["mtus"]), cccd_fixed=fixed,
                                 server_wrap=server_wrap, client_wrap=client_wrap))


def _api_variant(ev):
    if ev["api"].endswith("subscribers"):
        return "all"
    t = ev["targets"]
    if ev["force"]:
        return "force-eatt" if t and t[0] % 2 == 0 else "force"
    if len(t) == 1 and t[0] % 2 == 0:
        return "eatt"
    return "connection"


def validate_subs(ctx, rep, scs, runs, count=True):
    traces = [r[0] for r in runs]
    cfg = _write(ctx, "substrace.cfg", S.trace_cfg())
    res = tlc.trace_batch(ctx.spec("Gatt", "SubsTrace.tla"), cfg, traces, tag="c12s")
    rep.extra["trace_states"] = rep.extra.get("trace_states", 0) + res["states"]
    for tid, v in sorted(res["verdicts"].items()):
        sc, (tr, info) = scs[tid - 1], runs[tid - 1]
        if count:
            rep.traces += 1
            rep.case(("subs", sc["family"], tuple(sc["eatt"]), tuple(sc["mtus"]), tuple(sorted(info.get("cccd", {}).items()))), nontrivial=True,
                     sample={"family": sc["family"], "cccd(bearer.char)": info.get("cccd"), "events": len(tr)} if tid <= 2 else None)
        if v[0] != "REJECT":
            continue
        l = v[1]
        evt = tr[l - 1] if 0 < l <= len(tr) else {"e": "?"}
        g = v[3] if len(v) > 3 and isinstance(v[3], dict) else {}
        clause = next((k for k in ("owed", "kind", "len", "slot", "cb", "nocb", "cfm", "ret", "quiet") if g.get(k) is False), "order")
        # the API call this event belongs to: the call named by ret, else the latest call addressing the bearer
        apis = [e for e in tr[:l] if e["e"] == "api"]
        call = None
        if evt["e"] == "ret":
            call = next((e for e in apis if e["id"] == evt["id"]), None)
        elif evt["e"] in ("pdu", "cb", "nocb", "cfm"):
            call = next((e for e in reversed(apis) if evt["b"] in e["targets"] and (evt["e"] == "cfm" or e["c"] == evt["c"])), None)
        call = call or (apis[-1] if apis else {"api": "none", "targets": [], "force": 0})
        after = [(e["e"], e["b"], e["kind"], e["len"]) for e in tr[l : l + 4] if e["e"] in ("pdu", "cb", "cfm")]
        text = {
            "owed": f"a {evt.get('kind')} PDU for characteristic {evt.get('c')} arrived on bearer {evt.get('b')}, which no API call owed (CCCD values {info.get('cccd')})",
            "kind": f"a PDU of kind '{evt.get('kind')}' arrived on bearer {evt.get('b')} where the API call owed the other kind",
            "len": f"the {evt.get('kind')} PDU on bearer {evt.get('b')} carries {evt.get('len')} value bytes, expected min(value length, ATT_MTU-3)",
            "slot": f"an indication arrived on bearer {evt.get('b')} while the previous one was not confirmed",
            "cb": f"subscriber callback {evt.get('kind')}/{evt.get('c')}/{evt.get('len')} on bearer {evt.get('b')} does not match the PDU that arrived",
            "nocb": f"the {evt.get('kind')} PDU for characteristic {evt.get('c')} on bearer {evt.get('b')} was not handed to the subscriber registered for it",
            "cfm": f"confirmation on bearer {evt.get('b')} without an outstanding indication",
            "ret": f"{call['api']} {'raised / timed out' if evt.get('ok') == 0 else 'returned before the indications it owed were sent and confirmed'}; what followed: {after}",
            "quiet": f"at quiescence PDUs are still owed or undelivered: {g.get('open')}",
        }.get(clause, f"event {evt} refused")
        rep.violation(f"subs:{call['api']}:{_api_variant(call) if call['api'] != 'none' else 'none'}:{clause}",
                      f"{text} (family {sc['family']}, call {call.get('api')} targets={call.get('targets')} force={call.get('force')})",
                      {"part": "subs", "scenario": sc, "line": l})


def part_subs(ctx, rep, rounds, server_wrap=None, client_wrap=None, count=True, scs=None):
    scs = scs or subs_scenarios(ctx, rounds)
    runs = [run_subs(sc, server_wrap, client_wrap) for sc in scs]
    validate_subs(ctx, rep, scs, runs, count=count)
    return scs, runs


def mc_subs(ctx, rep):
    acts = ["WriteCccd", "LocalSub", "LocalUnsub", "LocalGone", "Api", "SendNtf", "SendInd", "Callback", "Discard", "Confirm", "Expire", "Return"]
    ALL = [0, 1, 2, 3]
    runs = []
    if ctx.quick:
        # every combination of CCCD values over 2 bearers x 2 characteristics, one call of every shape
        runs.append(("subs_all.cfg", subs_cfg([1, 2], [1, 2], 1, [4], 0, ALL, True, False), {"Bearers": 2, "Chars": 2, "MaxCalls": 1, "InitVals": ALL}))
        # CCCD writes racing a call
        runs.append(("subs_writes.cfg", subs_cfg([1, 2], [1], 1, [1, 4], 2, [0], True, False), {"Bearers": 2, "Chars": 1, "MaxCalls": 1, "MaxWrites": 2}))
        # two concurrent calls, everybody subscribed: slot discipline and liveness
        runs.append(("subs_live.cfg", subs_cfg([1, 2], [1], 2, [4], 0, [3], True, True), {"Bearers": 2, "Chars": 1, "MaxCalls": 2, "InitVals": [3], "liveness": True}))
    else:
        runs.append(("subs_all.cfg", subs_cfg([1, 2], [1, 2], 1, [1, 4], 1, ALL, True, False), {"Bearers": 2, "Chars": 2, "MaxCalls": 1, "MaxWrites": 1, "InitVals": ALL}))
        runs.append(("subs_two.cfg", subs_cfg([1, 2], [1], 2, [4], 1, ALL, True, False), {"Bearers": 2, "Chars": 1, "MaxCalls": 2, "MaxWrites": 1, "InitVals": ALL}))
        runs.append(("subs_three.cfg", subs_cfg([1, 2, 3], [1], 1, [4], 1, ALL, True, False), {"Bearers": 3, "Chars": 1, "MaxCalls": 1, "MaxWrites": 1, "InitVals": ALL}))
        runs.append(("subs_live.cfg", subs_cfg([1, 2], [1], 2, [4], 0, ALL, False, True), {"Bearers": 2, "Chars": 1, "MaxCalls": 2, "InitVals": ALL, "liveness": True}))

    def one(r):
        name, text, consts = r
        need = [a for a in acts if not (a in ("WriteCccd", "LocalSub", "LocalUnsub", "LocalGone") and "MaxWrites = 0" in text) and not (a == "Expire" and "Lossy = FALSE" in text)]
        return _mc_subs(ctx, name, text, need), consts

    with concurrent.futures.ThreadPoolExecutor(max_workers=4) as ex:
        for res, consts in ex.map(one, runs):
            rep.add_mc("Gatt/Subs.tla", res, consts)


# ============================================================================= entry points
def run(ctx, rep):
    rep.rule = ("(A) one replay per edge of the Strict state graph of Discovery.tla (shortest path from Init + the edge = one adversarial response "
                "sequence) by a raw ATT puppet against the real gatt_client.Client, validated by DiscoveryTrace.tla; (B) seeded databases x 25 "
                "client/server MTU preference pairs validated by DbTrace.tla, seeded subscription scenarios (API families x CCCD values, one of them with nothing registered in the clients' own subscriber tables - CCCD written raw, forced, Client.unsubscribe racing an indication) "
                "validated by SubsTrace.tla; distinct = distinct (procedure, range, response sequence) / (MTU pair, database class) / "
                "(family, bearers, MTUs, CCCD assignment)")
    rep.assumptions = [
        "handle assignment by the server is free; the exposed table must be a well-formed layout of the registered services (Part G 3.1-3.3)",
        "discovery termination: every request starts strictly after the previous one or the procedure ends (DESIGN Appendix D); "
        "ending by exception or by the 30 s request time-out counts as ending",
        "request starting handles are compared with Part G 4.4-4.7 (one after the last handle of the previous response) while the client follows the reference behaviour",
        "subscription state is the CCCD value at the time of the API call (the only CCCD write racing an API call is the write of 0 of Client.unsubscribe in family unsolicited, logged where it takes effect)",
        "force=True on the plural APIs (notify_subscribers / indicate_subscribers) is not exercised: its set of addressed bearers is not determined by the property",
        "writes are exercised up to ATT_MTU-3 bytes (the client has no long-write procedure)",
    ]
    # development knob (mutant runs): C12_PARTS=discovery,db,subs skips the model-checking runs of Subs.tla,
    # which do not depend on the tree under test
    parts = set((os.environ.get("C12_PARTS") or "mc,discovery,db,subs").split(","))
    try:
        if "mc" in parts:
            mc_subs(ctx, rep)
        if "discovery" in parts:
            part_discovery(ctx, rep)
        if "db" in parts:
            part_db(ctx, rep, 6 if ctx.quick else 60)
        if "subs" in parts:
            part_subs(ctx, rep, 3 if ctx.quick else 40)
    finally:
        _cleanup(ctx)
    rep.exhaustive = False


def replay(ctx, rep):
    r = ctx.replay["replay"]
    if r["part"] == "discovery":
        rsps = tuple(tuple(x) if x[0] != "list" else ("list", tuple(tuple(y) for y in x[1])) for x in r["rsps"])
        job = (r["proc"], r["n"], r["lo"], r["hi"], r["base"], rsps, tuple(r["starts"]))
        traces = P.run_scripts([job], seed=ctx.seed)
        for e in traces[0]:
            print({k: v for k, v in e.items() if v not in (0, "")})
        validate_discovery(ctx, rep, [job], traces)
    elif r["part"] == "db":
        case = r["case"]
        run1 = run_db_case(case)
        plan, trace, info = run1
        print("plan class", D.plan_class(plan), "order", plan["order"], "exc", info.get("exc"))
        for e in trace:
            print({k: (v if not isinstance(v, list) or len(v) < 30 else f"[{len(v)} items]") for k, v in e.items() if v not in (0, "", [])})
        validate_db(ctx, rep, [case], [run1])
    elif r["part"] == "subs":
        sc = r["scenario"]
        run1 = run_subs(sc)
        for e in run1[0]:
            print({k: v for k, v in e.items() if v not in (0, "", [])})
        validate_subs(ctx, rep, [sc], [run1])
    else:
        print(r)
        rep.violation(ctx.replay["sig"], ctx.replay["summary"], r)
    _cleanup(ctx)


# ----------------------------------------------------------------------------- self-test
def selftest(ctx, rep):
    """Binding self-test: shims around the real objects and corrupted traces must be flagged."""
    from bumble import att, gatt_client, gatt_server

    R = type(rep)
    results = {}
    ctx_tier = ctx.tier
    ctx.tier = "quick"

    # (i) a client whose descriptor discovery does not advance on an empty list
    class StuckClient(gatt_client.Client):
        async def discover_descriptors(self, characteristic=None, start_handle=None, end_handle=None):
            start = start_handle
            found = []
            while start <= end_handle:
                rsp = await self.send_request(att.ATT_Find_Information_Request(starting_handle=start, ending_handle=end_handle))
                if rsp.op_code == att.Opcode.ATT_ERROR_RESPONSE:
                    break
                for h, _ in rsp.information:
                    found.append(h)
                if found:
                    start = found[-1] + 1
            return found

    r1 = R(rep.prop, rep.level)
    jobs, traces = part_discovery(ctx, r1, client_factory=StuckClient, limit=400, count=False)
    results["stuck_descriptor_discovery"] = sum(1 for v in r1.violations if v.sig.startswith("discovery:descs:"))
    # corrupted traces: repeat a request, drop the return
    good = [(j, t) for j, t in zip(jobs, traces) if sum(1 for e in t if e["e"] == "req") >= 2 and j[0] in ("services", "included", "chars")][:20]
    if not good:
        raise RuntimeError("selftest: no multi-request trace to corrupt")
    for name, mut in (("repeat_request", _mut_repeat_req), ("drop_return", _mut_drop_ret)):
        r2 = R(rep.prop, rep.level)
        validate_discovery(ctx, r2, [j for j, _ in good], [mut(t) for _, t in good], count=False)
        results[name] = sum(v.replay.get("more", 0) + 1 for v in r2.violations)

    # (ii) a client that never continues with Read Blob; a corrupted discovery result
    def no_long_read(client, conn):
        orig = client.read_value

        async def read_value(attribute, no_long_read=False):
            return await orig(attribute, True)

        client.read_value = read_value
        return client

    cases = db_cases(ctx, 2)
    r3 = R(rep.prop, rep.level)
    part_db(ctx, r3, 0, client_wrap=no_long_read, count=False, cases=cases)
    results["no_long_read"] = sum(1 for v in r3.violations if v.sig.startswith("client:read:"))

    def off_by_one_end(srv):
        for s in srv.gatt_server.services[-1:]:
            s.end_group_handle += 1

    def plain(c):  # databases with services and without includes (the shim must be the only thing wrong)
        plan = D.gen_plan(random.Random(c["seed"]), min(c["cm"], c["sm"]), nsvc=c.get("nsvc"))
        return plan["services"] and not any(s["includes"] for s in plan["services"])

    r4 = R(rep.prop, rep.level)
    part_db(ctx, r4, 0, server_wrap=off_by_one_end, count=False, cases=[c for c in cases if plain(c)][:12])
    results["service_end_off_by_one"] = sum(1 for v in r4.violations if v.sig in ("server:layout:laysvc:plain", "client:discovery:svc"))

    # (iii) a server that sends indications as notifications / truncates to MTU-4
    def ind_as_ntf(gs):
        gs._indicate_single_bearer = gs._notify_single_subscriber

    scs = [sc for sc in subs_scenarios(ctx, 2) if sc["family"] in ("plural", "indicate_one", "concurrent")][:6]
    r5 = R(rep.prop, rep.level)
    part_subs(ctx, r5, 0, server_wrap=ind_as_ntf, count=False, scs=scs)
    results["indication_sent_as_notification"] = sum(1 for v in r5.violations if v.sig.split(":")[1] in ("indicate_subscribers", "indicate_subscriber"))
    # corrupted subscription traces: drop a confirmation, change a PDU kind
    scs2 = [sc for sc in subs_scenarios(ctx, 1) if sc["family"] in ("plural", "notify_one", "indicate_one")]
    runs2 = [run_subs(sc) for sc in scs2]
    for name, mut in (("drop_confirmation", _mut_drop("cfm")), ("drop_pdu", _mut_drop("pdu")), ("wrong_callback_len", _mut_cb_len)):
        r6 = R(rep.prop, rep.level)
        validate_subs(ctx, r6, scs2, [(mut(t), i) for t, i in runs2], count=False)
        results[name] = len(r6.violations)
    ctx.tier = ctx_tier
    _cleanup(ctx)
    print("selftest:", results)
    for k, v in results.items():
        if v == 0:
            rep.violation(f"selftest:{k}", f"binding self-test: {k} was not detected")


def _mut_repeat_req(t):
    t = [dict(e) for e in t]
    idx = [i for i, e in enumerate(t) if e["e"] == "req"]
    i = idx[1]
    t[i]["s"] = t[idx[0]]["s"]
    t[i]["want"] = 0
    return t


def _mut_drop_ret(t):
    return [dict(e) if e["e"] != "end" else dict(e, p=1) for e in t if e["e"] != "ret"]


def _mut_drop(kind):
    def f(t):
        out, done = [], False
        for e in t:
            if e["e"] == kind and not done:
                done = True
                continue
            out.append(e)
        return out

    return f


def _mut_cb_len(t):
    out, done = [], False
    for e in t:
        if e["e"] == "cb" and not done:
            done = True
            e = dict(e, len=e["len"] + 1)
        out.append(e)
    return out
