"""C06: the virtual link connects the right peers and delivers only between them.

(M) specs/Link/Link.tla model-checked by TLC: devices with a public and a random address and an
    advertising-set address of its own, own-address choice per role, legacy / extended advertising,
    LE and BR/EDR (one awaited connect per device and transport, also towards the same peer),
    (e)SCO links as further entries of the link tables, pending create-connection,
    connection tables of controllers and hosts, per-connection FIFOs, disconnect by either side,
    passive / active scanning.  Several small configurations per tier (routing with every address
    combination, a device central and peripheral at once with an incoming connection completing while
    the outgoing one is pending, two initiators racing for one advertiser, full HCI-delay
    non-determinism on one pair, LE next to BR/EDR, an (e)SCO link with further links made while it is up,
    both transports between one pair with public addresses, advertising-set addresses, scanning); invariants RightPeer, CallerGets,
    Handles, OnlyPeer, LiveOnly, AdvData and, at quiescence, BothTold, Delivered, CallsDone, ScanGiven.
(A+B) a fixed catalogue of directed scenarios and TLC-simulated behaviours of Link.tla are executed on
    N real Devices (lib.c06_rig.World: LocalLink, seeded order-preserving HCI and link delays,
    controllers with and without the extended advertising commands, LE and BR/EDR).  API calls, HCI
    packets at the controller->host tap (connection / disconnection complete, ACL data, advertising
    reports), Device events (connection, disconnection, advertisement), PDUs on a test fixed channel
    and the value returned by Device.connect are logged as one trace per scenario and validated by
    specs/Link/LinkTrace.tla; the verdict is TLC's.
"""
from __future__ import annotations

import asyncio
import copy
import json
import os
import random
import time

from lib import tlc

LEVEL = "model_checking"

INVS = ["TypeOK", "RightPeer", "CallerGets", "Handles", "OnlyPeer", "LiveOnly", "AdvData", "BothTold", "Delivered", "CallsDone", "ScanGiven"]
ALL_ACTIONS = ["StartAdv", "StopAdvCall", "StopAdv", "SetScan", "HearAdv", "HearRsp", "Advert", "Call", "LinkConnect", "ConnectInd", "ConnFail",
               "ClassicAccept", "ClassicAccepted", "ScoCall", "ScoAccept", "ScoAccepted", "HostEvt", "RetConnect", "Send", "LinkDrop", "LinkData", "LinkTerm", "Disconnect",
               "CtrlDisc", "CtrlDiscRefused", "Quiesce"]
LE_CORE = ["StartAdv", "Call", "LinkConnect", "ConnectInd", "HostEvt", "RetConnect", "Quiesce"]
DATA = ["Send", "LinkData"]
DISC = ["Disconnect", "CtrlDisc", "LinkTerm"]
CLASSIC = ["ClassicAccept", "ClassicAccepted"]
SCO = ["ScoCall", "ScoAccept", "ScoAccepted"]

BASE = dict(Devs=[1, 2, 3], Advs=[1, 3], Inits=[1, 2], Ext=[], Transports=["le"], Scanning=False,
            OwnKinds=["pub", "rnd"], AdvKinds=["pub", "rnd"], EagerHost=True, StaleAdv=False,
            MaxConns=2, MaxPdus=1, MaxSends=2, MaxAdv=2, MaxStop=0, MaxCalls=2, MaxDisc=1, MaxScan=0, MaxSco=0, MaxH=2, AnyHandle=False, Bugs=[])

# name -> (constants, actions that must be taken)
MC_QUICK = {
    # one pair, any HCI delay (hosts lag behind their controllers): FIFO, exactly once, disconnect by either side
    "pair-any-hci-delay": (dict(Devs=[1, 2], Advs=[2], Inits=[1], EagerHost=False, MaxConns=1, MaxPdus=2, MaxSends=3, MaxDisc=2, MaxAdv=1, MaxCalls=1),
                           LE_CORE + DATA + DISC + ["CtrlDiscRefused", "LinkDrop"]),
    # 1 central to 2 and 3 at once, every own-address / advertiser-address combination, data on both
    "star-all-addresses": (dict(Advs=[2, 3], Inits=[1], MaxSends=2, MaxDisc=0), LE_CORE + DATA),
    # 1 is central and peripheral: 2 connects to advertising 1 while 1's connect to 3 is pending
    "central-and-peripheral": (dict(Advs=[1, 3], Inits=[1, 2], MaxSends=1, MaxDisc=0, AdvKinds=["rnd"]), LE_CORE + DATA),
    # two initiators, one advertiser that advertises once (and may stop): ConnFail
    "race-for-one-advertiser": (dict(Advs=[3], Inits=[1, 2], MaxAdv=1, MaxStop=1, MaxSends=1, MaxDisc=0, AdvKinds=["pub"], OwnKinds=["rnd"]),
                                LE_CORE + ["ConnFail", "StopAdvCall", "StopAdv"] + DATA),
    # LE next to BR/EDR on the same controllers (handles), 1 and 3 initiate
    "le-and-classic": (dict(Advs=[2], Inits=[1, 3], Transports=["le", "br"], MaxAdv=1, MaxSends=1, MaxDisc=0, AdvKinds=["rnd"], OwnKinds=["rnd"]),
                       LE_CORE + ["ClassicAccept", "ClassicAccepted"] + DATA),
    # scanners (passive / active), legacy and extended advertisers, a device that scans and advertises
    "scanning": (dict(Advs=[1, 2], Inits=[], Ext=[2], Scanning=True, MaxConns=0, MaxCalls=0, MaxAdv=2, MaxStop=0, MaxScan=2, MaxSends=0, MaxDisc=0, AdvKinds=["rnd"]),
                 ["StartAdv", "SetScan", "HearAdv", "HearRsp", "Advert", "Quiesce"]),
    # an (e)SCO link on a BR/EDR connection, then further links (a page by 3, an LE connection to 3) on the controllers that hold it:
    # every link table counts when a handle is allocated; the (e)SCO link is disconnected by either side
    "sco-and-further-links": (dict(Advs=[3], Inits=[1], Transports=["le", "br"], MaxConns=3, MaxAdv=1, MaxCalls=2, MaxSco=1, MaxSends=0, MaxDisc=1, MaxH=3,
                                   AdvKinds=["rnd"], OwnKinds=["rnd"]), LE_CORE + CLASSIC + SCO + DISC),
    # one pair, both transports, public addresses only (the same address on LE and BR/EDR), either device initiates on either
    # transport, any HCI delay: the LE connection completes while the page is pending and the other way round
    "both-transports-same-peer": (dict(Devs=[1, 2], Advs=[1, 2], Inits=[1, 2], Transports=["le", "br"], EagerHost=False, MaxConns=2, MaxAdv=1, MaxCalls=2, MaxSends=1,
                                       MaxDisc=0, AdvKinds=["pub"], OwnKinds=["pub"]), LE_CORE + CLASSIC + DATA),
    # extended advertising sets with a random address of their own (next to one that uses the controller's), data both ways,
    # disconnect by either side
    "advertising-set-address": (dict(Advs=[2, 3], Inits=[1], Ext=[2, 3], MaxConns=1, MaxCalls=1, MaxSends=2, MaxDisc=1, AdvKinds=["set", "rnd"]), LE_CORE + DATA + DISC),
}
MC_THOROUGH = dict(MC_QUICK)
MC_THOROUGH.update({
    # four devices: 1 is central (to 3 or 4) and peripheral (of 2) at once, incoming completes while outgoing is pending
    "four-devices": (dict(Devs=[1, 2, 3, 4], Advs=[1, 3, 4], Inits=[1, 2], MaxConns=3, MaxAdv=3, MaxCalls=3, MaxSends=1, MaxDisc=0, MaxH=3,
                          AdvKinds=["rnd"], OwnKinds=["rnd"]), LE_CORE + DATA),
    "four-devices-public": (dict(Devs=[1, 2, 3, 4], Advs=[1, 3, 4], Inits=[1, 2], MaxConns=3, MaxAdv=3, MaxCalls=3, MaxSends=1, MaxDisc=0, MaxH=3,
                                 AdvKinds=["pub"], OwnKinds=["pub"]), LE_CORE + DATA),
    "four-devices-race": (dict(Devs=[1, 2, 3, 4], Advs=[3, 4], Inits=[1, 2], MaxConns=3, MaxAdv=2, MaxCalls=3, MaxStop=1, MaxSends=1, MaxDisc=0, MaxH=3,
                               AdvKinds=["pub"], OwnKinds=["rnd"]), LE_CORE + ["ConnFail"] + DATA),
    "pair-any-hci-delay-2": (dict(Devs=[1, 2], Advs=[2], Inits=[1], EagerHost=False, MaxConns=2, MaxPdus=2, MaxSends=3, MaxDisc=2, MaxAdv=2, MaxCalls=2, AdvKinds=["pub"]),
                             LE_CORE + DATA + DISC + ["CtrlDiscRefused", "LinkDrop"]),
    "central-and-peripheral-disconnect": (dict(Advs=[1, 3], Inits=[1, 2], MaxSends=1, MaxDisc=1, AdvKinds=["rnd"]), LE_CORE + DATA + DISC),
    "central-and-peripheral-any-hci-delay": (dict(Advs=[1, 3], Inits=[1, 2], EagerHost=False, MaxSends=0, MaxDisc=0, AdvKinds=["rnd"], OwnKinds=["rnd"]), LE_CORE),
    "stale-advertising-pdu": (dict(Advs=[3], Inits=[1, 2], StaleAdv=True, MaxAdv=1, MaxStop=1, MaxSends=0, MaxDisc=0, AdvKinds=["rnd"], OwnKinds=["rnd"]), LE_CORE + ["ConnFail"]),
    "le-and-classic-disconnect": (dict(Advs=[2], Inits=[1, 3], Transports=["le", "br"], MaxAdv=1, MaxSends=1, MaxDisc=1, AdvKinds=["rnd"], OwnKinds=["rnd"]),
                                  LE_CORE + ["ClassicAccept", "ClassicAccepted"] + DATA + DISC),
    "classic-any-hci-delay": (dict(Devs=[1, 2, 3], Advs=[], Inits=[1, 2], Transports=["br"], EagerHost=False, MaxAdv=0, MaxSends=2, MaxDisc=1),
                              ["Call", "ClassicAccept", "ClassicAccepted", "HostEvt", "RetConnect", "Quiesce"] + DATA + DISC),
    "scanning-2": (dict(Advs=[1, 2], Inits=[], Ext=[2], Scanning=True, MaxConns=0, MaxCalls=0, MaxAdv=2, MaxStop=1, MaxScan=2, MaxSends=0, MaxDisc=0),
                   ["StartAdv", "StopAdvCall", "StopAdv", "SetScan", "HearAdv", "HearRsp", "Advert", "Quiesce"]),
    # as quick, with 3 initiating too (the further link arrives at either end of the (e)SCO link, from either side)
    "sco-and-further-links-2": (dict(Advs=[3], Inits=[1, 3], Transports=["le", "br"], MaxConns=3, MaxAdv=1, MaxCalls=2, MaxSco=1, MaxSends=0, MaxDisc=1, MaxH=3,
                                     AdvKinds=["rnd"], OwnKinds=["rnd"]), LE_CORE + CLASSIC + SCO + DISC),
    "both-transports-same-peer-disconnect": (dict(Devs=[1, 2], Advs=[1, 2], Inits=[1, 2], Transports=["le", "br"], EagerHost=False, MaxConns=2, MaxAdv=1, MaxCalls=2,
                                                  MaxSends=1, MaxDisc=1, AdvKinds=["pub"], OwnKinds=["pub", "rnd"]), LE_CORE + CLASSIC + DATA + DISC),
    # 1 central to two advertising sets / a set and a controller-address advertiser at once
    "advertising-set-address-2": (dict(Advs=[2, 3], Inits=[1], Ext=[2, 3], MaxSends=2, MaxDisc=1, AdvKinds=["set", "rnd"]), LE_CORE + DATA + DISC),
})

# named deviation of the model -> (constants to reach it, invariant it must break)
BUGS = {
    "stamp_random": (dict(Devs=[1, 2], Advs=[2], Inits=[1], MaxConns=1, MaxAdv=1, MaxCalls=1, MaxSends=1, MaxDisc=0), "Delivered"),
    "match_peer_addr": (dict(Devs=[1, 2], Advs=[2], Inits=[1], MaxConns=1, MaxAdv=1, MaxCalls=1, MaxSends=1, MaxDisc=0), "Delivered"),
    "any_conn_resolves": (dict(Advs=[1, 3], Inits=[1, 2], MaxSends=0, MaxDisc=0, AdvKinds=["rnd"], OwnKinds=["rnd"]), "CallerGets"),
    "accept_any_adv": (dict(Advs=[2, 3], Inits=[1], MaxConns=1, MaxCalls=1, MaxSends=0, MaxDisc=0, AdvKinds=["rnd"], OwnKinds=["rnd"]), "RightPeer"),
    "adv_to_self": (dict(Advs=[1], Inits=[], Scanning=True, MaxConns=0, MaxCalls=0, MaxAdv=1, MaxScan=1, MaxSends=0, MaxDisc=0), "AdvData"),
    "rsp_is_adv": (dict(Advs=[1], Inits=[], Scanning=True, MaxConns=0, MaxCalls=0, MaxAdv=1, MaxScan=1, MaxSends=0, MaxDisc=0), "AdvData"),
    "no_rsp": (dict(Advs=[1], Inits=[], Scanning=True, MaxConns=0, MaxCalls=0, MaxAdv=1, MaxScan=1, MaxSends=0, MaxDisc=0), "ScanGiven"),
    "no_disc_event": (dict(Devs=[1, 2], Advs=[2], Inits=[1], MaxConns=1, MaxAdv=1, MaxCalls=1, MaxSends=0, MaxDisc=1), "BothTold"),
    "phantom": (dict(Advs=[3], Inits=[1, 2], MaxAdv=1, MaxSends=0, MaxDisc=0, AdvKinds=["rnd"], OwnKinds=["rnd"]), "BothTold"),
    "handle_ignores_classic": (dict(Devs=[1, 2], Advs=[2], Inits=[1], Transports=["le", "br"], MaxAdv=1, MaxSends=0, MaxDisc=0, AdvKinds=["rnd"], OwnKinds=["rnd"]), "Handles"),
    "handle_ignores_sco": (dict(Advs=[], Inits=[1, 3], Transports=["br"], MaxConns=3, MaxAdv=0, MaxSco=1, MaxSends=0, MaxDisc=0, MaxH=3), "Handles"),
    "connect_ignores_transport": (dict(Devs=[1, 2], Advs=[2], Inits=[1], Transports=["le", "br"], EagerHost=False, MaxAdv=1, MaxSends=0, MaxDisc=0,
                                       AdvKinds=["pub"], OwnKinds=["pub"]), "CallerGets"),
    "route_by_controller_addr": (dict(Devs=[1, 2], Advs=[2], Inits=[1], Ext=[2], MaxConns=1, MaxAdv=1, MaxCalls=1, MaxSends=1, MaxDisc=0, AdvKinds=["set"]), "Delivered"),
}

SIM = dict(Devs=[1, 2, 3, 4], Advs=[1, 2, 3, 4], Inits=[1, 2, 3], Ext=[2, 4], Transports=["le", "br"], Scanning=True, EagerHost=False,
           AdvKinds=["pub", "rnd", "set"], MaxConns=5, MaxPdus=3, MaxSends=8, MaxAdv=5, MaxStop=1, MaxCalls=5, MaxDisc=2, MaxScan=2, MaxSco=1, MaxH=5)

TRACE = dict(Devs=[1, 2, 3, 4], Advs=[1, 2, 3, 4], Inits=[1, 2, 3, 4], Ext=[1, 2, 3, 4], Transports=["le", "br"], Scanning=True, EagerHost=False,
             AdvKinds=["pub", "rnd", "set"], StaleAdv=True, MaxConns=16, MaxPdus=200, MaxSends=5000, MaxAdv=500, MaxStop=500, MaxCalls=500, MaxDisc=500,
             MaxScan=500, MaxSco=500, MaxH=8, AnyHandle=True)


def _tick(rep, key, dt):
    t = rep.extra.setdefault("timing", {})
    t[key] = round(t.get(key, 0) + dt, 1)


def _val(v):
    if isinstance(v, bool):
        return "TRUE" if v else "FALSE"
    if isinstance(v, (list, tuple, set)):
        return "{" + ", ".join(json.dumps(x) if isinstance(x, str) else str(x) for x in v) + "}"
    return str(v)


def cfg_text(consts, spec="Spec", invs=INVS):
    c = dict(BASE)
    c.update(consts)
    return (f"SPECIFICATION {spec}\nCONSTANTS\n" + "".join(f"  {a} = {_val(b)}\n" for a, b in c.items())
            + "".join(f"INVARIANT {i}\n" for i in invs) + "CHECK_DEADLOCK FALSE\n")


def _write(ctx, name, text):
    p = os.path.join(ctx.out, name)
    with open(p, "w") as f:
        f.write(text)
    return p


# ----------------------------------------------------------------------------- (M)
def model_check(ctx, rep):
    from concurrent.futures import ThreadPoolExecutor

    spec = ctx.spec("Link", "Link.tla")
    runs = MC_QUICK if ctx.quick else MC_THOROUGH
    t0 = time.time()

    def one(item):
        name, (consts, _) = item
        cfg = _write(ctx, f"link_{name}.cfg", cfg_text(consts))
        return tlc.mc(spec, cfg, workers=2 if ctx.quick else 6, timeout=1500 if ctx.quick else 3000)

    with ThreadPoolExecutor(max_workers=9 if ctx.quick else 3) as ex:
        results = list(ex.map(one, runs.items()))
    taken = {}
    for (name, (consts, must)), res in zip(runs.items(), results):
        if res["violation"]:
            raise tlc.TlcError(f"Link.tla violates {res['violation']} in the model itself ({name})\n{res['out'][-2500:]}")
        tlc.require_actions(res, must, f"Link {name}")
        rep.add_mc(f"Link/Link.tla[{name}]", res, consts)
        for a, v in res["coverage"].items():
            taken[a] = taken.get(a, 0) + v["taken"]
    missing = [a for a in ALL_ACTIONS if not taken.get(a)]
    if missing:
        raise tlc.TlcError(f"vacuous model checking: actions never taken in any configuration: {missing}")
    _tick(rep, "model_checking_s", time.time() - t0)


# ----------------------------------------------------------------------------- (A) behaviours -> scenarios
def simulated(ctx, num):
    """TLC -simulate behaviours of Link.tla turned into scenarios on 4 devices (2 and 4 with the extended commands)"""
    from lib import c06_scen as S

    cfg = _write(ctx, "link_sim.cfg", cfg_text(SIM, invs=[]))
    behs, out = tlc.simulate(ctx.spec("Link", "Link.tla"), cfg, num=num, depth=70, seed=ctx.seed + 11, timeout=900)
    if len(behs) < max(1, num // 2):
        raise tlc.TlcError(f"TLC simulation produced {len(behs)} behaviours of {num}\n{out[-1500:]}")
    rng = random.Random(ctx.seed * 7919 + 17)
    scs = []
    for i, beh in enumerate(behs):
        ops = S.behaviour_to_ops(beh, rng)
        if not any(o[0] in ("connect", "scan") for o in ops):
            continue
        hd, ld = rng.choice([(0.0, 0.0), (0.004, 0.0), (0.02, 0.0), (0.003, 0.005), (0.0, 0.01)])
        scs.append(dict(name=f"sim:{i}", cfg=dict(n=4, ext=[2, 4], classic=True, seed=ctx.seed * 100000 + i, hci_delay=hd, link_delay=ld, same_bytes=False), ops=ops))
    return scs


# ----------------------------------------------------------------------------- (B) execute + validate
def execute(scs, patch=None):
    from lib import c06_scen as S

    out = []
    for sc in scs:
        r = S.run_scenario(sc, patch=patch)
        r["sc"] = sc
        out.append(r)
    return out


def validate(ctx, rep, traces, tag="c06"):
    """-> list of verdict tuples, one per trace (one TLC run per chunk)"""
    cfg = _write(ctx, "link_trace.cfg", cfg_text(TRACE, spec="TraceSpec", invs=[]))
    spec = ctx.spec("Link", "LinkTrace.tla")
    chunk = 150
    parts = [traces[i:i + chunk] for i in range(0, len(traces), chunk)]

    def one(part):
        return tlc.trace_batch(spec, cfg, part, tag=tag, timeout=2400)

    if len(parts) <= 1:
        ress = [one(p) for p in parts]
    else:
        from concurrent.futures import ThreadPoolExecutor

        with ThreadPoolExecutor(max_workers=4) as ex:
            ress = list(ex.map(one, parts))
    out = []
    for part, res in zip(parts, ress):
        if rep is not None:
            rep.extra["trace_states"] = rep.extra.get("trace_states", 0) + res["states"]
            _tick(rep, "trace_validation_s", res["wall_s"])
        for tid in range(1, len(part) + 1):
            v = res["verdicts"][tid]
            if v[0] == "REJECT" and v[1] == 0:
                raise tlc.TlcError(f"no verdict for trace {tid}: {res['out'][-2000:]}")
            out.append(v)
    return out


def _rec(x):
    """lib.tlaval gives a record inside a set as a tuple of (field, value) pairs"""
    return x if isinstance(x, dict) else dict(x)


def _peer_class(c):
    """the destination is the own random address of an advertising set: part of the input class"""
    return ":peer-address=set" if c.get("peer") == "set" else ""


def sig_of(v, events):
    """stable name of the clause a rejected trace fails: (sig, what)"""
    line, ev = v[1], v[2]
    diag = v[3] if len(v) > 3 and isinstance(v[3], dict) else {}
    diag = {k: ([_rec(r) for r in sorted(w, key=repr)] if k in ("setup", "undelivered", "owed", "want") else w) for k, w in diag.items()}
    e = ev.get("e") if isinstance(ev, dict) else str(ev)
    if e == "t2_report":
        if ev["a"] == ev["d"]:
            return "link:advertising-pdu:reported-to-its-sender", "a scanning controller reports its own advertisement"
        if ev["rt"] == "rsp" and ev["what"] == "adv":
            return "controller:scan-response-report:repeats-advertising-data", "the scan-response report carries the advertising data instead of the advertiser's scan-response data"
        return f"controller:advertising-report:{ev['rt']}:payload={ev['what']}", f"an advertising report ({ev['rt']}) carries {ev['what']} / a payload or address that is not the advertiser's"
    if e == "advert":
        return f"device:advertisement:payload={ev['what']}", "an 'advertisement' event carries neither the advertiser's advertising data nor that followed by its scan-response data"
    if e in ("ret_connect", "ret_err"):
        tr = ev.get("ctr") or next((x["tr"] for x in reversed(events[:line]) if x["e"] == "connect" and x["d"] == ev["d"]), "le")
        fn = "connect_le" if tr == "le" else "connect_classic"
        if e == "ret_err":
            return f"device:{fn}:raises", "Device.connect raised although its target could be reached"
        return f"device:{fn}:returns-another-connection:role={ev['role']}", (
            f"Device.connect returned a connection that is not the one it asked for (role {ev['role']}, peer device {ev['a']}/{ev['ak']})")
    if e == "t2_conn":
        ends = diag.get("ends") or ()
        mine = ends[ev["d"] - 1] if 0 < ev["d"] <= len(ends) else ()
        if any(x[0] == ev["h"] and x[3] for x in mine):
            return "controller:connection-handle:in-use", "a new connection is given the handle of a connection the controller still holds"
        if ev["tr"] == "le" and ev["role"] == "peripheral":
            return "controller:connect-ind:accepted-by-another-device", "a controller that does not advertise the requested address accepts the CONNECT_IND"
        return f"controller:connection-complete:{ev['tr']}:{ev['role'] or 'any'}:unexpected", "a Connection Complete event that no connect call / advertiser explains (peer address, handle in use, or nobody asked)"
    if e == "conn_evt":
        return f"device:connection-event:{ev['tr']}:{ev['role']}:mismatch", "a 'connection' event whose handle / role / peer address differs from the controller's Connection Complete"
    if e == "t2_acl":
        return "link:acl:delivered-out-of-turn", "an ACL PDU reaches a controller / connection it was not sent to, twice, or out of order"
    if e == "recv":
        if not ev["ok"]:
            return "host:pdu:payload-differs", "a PDU arrives with bytes other than those sent"
        return "host:pdu:delivered-out-of-turn", "a PDU is handed to a host on a connection it was not sent on, twice, or out of order"
    if e == "t2_disc":
        lost = [c for c in diag.get("undelivered", ()) if not c.get("term")]
        if lost:
            # the terminate of a disconnection arrives while PDUs sent before it have not: they are lost (same FIFO)
            c = lost[0]
            return f"link:acl:{c['tr']}:lost:sender-address={c['own']}" + _peer_class(c), (
                f"a PDU sent on a live {c['tr']} connection (sender's own address {c['own']}, peer address {c['peer']}) has not reached the peer when the later disconnection does")
        return "controller:disconnection-complete:unexpected", "a Disconnection Complete that nobody asked for"
    if e == "disc_evt":
        return "device:disconnection-event:unexpected", "a 'disconnection' event without a Disconnection Complete"
    if e in ("send", "disconnect", "connect", "adv", "advstop", "scan", "sco"):
        return f"scenario:{e}:not-applicable", f"the scenario's own {e} call does not fit the model (harness or spec bug?)"
    if e == "settle":
        if diag.get("setup"):
            c = diag["setup"][0]
            return f"link:connect-ind:{c['tr']}:nobody-accepts:initiator-keeps-connection", (
                "the initiator reports a connection that the advertiser never accepted (it had stopped advertising) and is never told otherwise")
        if diag.get("undelivered"):
            c = diag["undelivered"][0]
            if c.get("term"):
                return f"link:terminate:{c['tr']}:peer-not-told" + _peer_class(c), "a disconnection is never reported to the peer's host"
            return f"link:acl:{c['tr']}:lost:sender-address={c['own']}" + _peer_class(c), (
                f"a PDU sent on a live {c['tr']} connection by the {'central' if c['side'] == 'c' else 'peripheral'} (own address {c['own']}, peer address {c['peer']}) never reaches the peer")
        if diag.get("unpopped"):
            t = sorted(diag["unpopped"])[0]
            return f"host:hci-event-not-reported:{t}", f"the controller emitted a {t} packet that the Device never reported"
        if diag.get("want"):
            return "controller:disconnect:not-executed", "a requested disconnection never happens"
        if diag.get("canconnect"):
            return "controller:le-create-connection:never-completes", "an initiator never connects to a target that keeps advertising"
        if diag.get("callable"):
            return "device:connect:never-returns", "Device.connect does not return although its connection is up"
        if diag.get("owed"):
            c = diag["owed"][0]
            return f"scan:{c['mode']}:{c['flav']}:advertiser-data-not-given", "a scanner is not given an advertiser's advertising data (or, scanning actively, its scan-response data)"
        return "settle:unexplained", "the trace cannot quiesce"
    return f"trace:{e}:unexpected", "event not explained by the specification"


def judge(ctx, rep, runs, verdicts):
    n = 0
    for r, v in zip(runs, verdicts):
        sc = r["sc"]
        rep.traces += 1
        ev = r["events"]
        nontrivial = any(x["e"] in ("recv", "advert", "ret_connect") for x in ev)
        cfg = sc["cfg"]
        rep.case((sc["name"], json.dumps(cfg, sort_keys=True), json.dumps(sc["ops"])), nontrivial=nontrivial,
                 sample={"scenario": sc["name"], "events": len(ev), "verdict": v[0]} if sc["name"].startswith(("star", "incoming", "sim:1")) else None)
        st = rep.extra.setdefault("events_validated", {})
        for x in ev:
            st[x["e"]] = st.get(x["e"], 0) + 1
        if v[0] == "ACCEPT":
            continue
        n += 1
        sig, what = sig_of(v, ev)
        rep.violation(sig, f"scenario {sc['name']} (seed {cfg.get('seed')}, delays {cfg.get('hci_delay')}/{cfg.get('link_delay')}): {what}; first event no interleaving explains: #{v[1]} {_brief(v[2])}",
                      {"scenario": sc, "rejected_at": v[1], "event": v[2], "diag": _plain(v[3]) if len(v) > 3 else None,
                       "unhandled": r["unhandled"][:5], "errors": [list(map(str, x)) for x in r["errors"][:5]], "trace": ev})
    return n


def _brief(ev):
    return {k: w for k, w in ev.items() if w not in ("", 0)} if isinstance(ev, dict) else ev


def _plain(x):
    if isinstance(x, dict):
        return {str(k): _plain(v) for k, v in x.items()}
    if isinstance(x, (set, frozenset, tuple, list)):
        return [_plain(v) for v in sorted(x, key=repr)] if isinstance(x, (set, frozenset)) else [_plain(v) for v in x]
    return x


def run(ctx, rep):
    from lib import c06_scen as S

    rep.rule = ("(M) Link.tla exhaustively within the constants of each configuration; (A+B) every scenario of the fixed catalogue (address kinds x "
                "legacy / extended advertising / advertising sets with their own random address x controllers with / without the extended commands x LE / BR/EDR x "
                "both transports between one pair x (e)SCO links with further links made while they are up x who disconnects x scanners "
                "x delay configurations) plus TLC-simulated behaviours of Link.tla (quick 40, thorough 400) executed on 2..4 real Devices; one trace per "
                "scenario validated by LinkTrace.tla; distinct = distinct (configuration, operation sequence)")
    rep.assumptions = [
        "delays are order-preserving per HCI direction and per receiving controller; the virtual-time loop keeps asyncio's callback order",
        "two devices never initiate connections towards each other at the same time on one transport, and a pair is reconnected only after both controllers dropped the old link (Link.tla: Crossing, Linked)",
        "a connection created by an initiator whose CONNECT_IND nobody accepts must be reported as disconnected to that initiator (Link.tla: ConnFail)",
        "a scan-response report given to a passive scanner is tolerated (DESIGN Appendix D)",
        "the virtual controller refuses a page while its LE create-connection is pending (Controller Busy): no scenario pages then; an LE connect next to a pending page is exercised",
        "a BR/EDR connection is not disconnected while an (e)SCO link on it is being set up, up or being torn down; the application accepts every (e)SCO request",
        "test PDUs fit one ACL fragment (fragmentation is C05's subject); bumble's HCI parser is used to read the tap (C01's subject)",
    ]
    from concurrent.futures import ThreadPoolExecutor

    with ThreadPoolExecutor(max_workers=1) as bg:
        mc = bg.submit(model_check, ctx, rep)  # TLC runs as sub-processes while the scenarios are executed here
        t0 = time.time()
        scs = S.catalogue(ctx.quick, ctx.seed)
        scs += simulated(ctx, 40 if ctx.quick else 400)
        runs = execute(scs)
        _tick(rep, "scenarios_s", time.time() - t0)
        verdicts = validate(ctx, rep, [r["events"] for r in runs])
        mc.result()
    judge(ctx, rep, runs, verdicts)
    rep.extra["scenarios"] = len(scs)
    rep.exhaustive = False
    if not ctx.quick:
        selftest(ctx, rep)


def replay(ctx, rep):
    r = ctx.replay["replay"]
    runs = execute([r["scenario"]])
    for i, e in enumerate(runs[0]["events"], 1):
        print(i, _brief(e))
    print("API errors:", runs[0]["errors"], "unhandled loop exceptions:", runs[0]["unhandled"][:5], "skipped operations:", runs[0]["skipped"])
    verdicts = validate(ctx, rep, [runs[0]["events"]])
    print("verdict:", verdicts[0][:3], _plain(verdicts[0][3]) if len(verdicts[0]) > 3 else "")
    judge(ctx, rep, runs, verdicts)


# ----------------------------------------------------------------------------- self-test
def selftest(ctx, rep):
    """Binding self-test (nothing under /repo is touched):
    1. every named deviation of Link.tla must break the invariant it is documented to break;
    2. a recorded trace of the real stack, corrupted in one place, must be rejected;
    3. real objects wrapped so that they misbehave in one documented way must be flagged."""
    from concurrent.futures import ThreadPoolExecutor

    from lib import c06_scen as S

    results = {}
    spec = ctx.spec("Link", "Link.tla")

    def bug_run(item):
        bug, (consts, inv) = item
        cfg = _write(ctx, f"link_bug_{bug}.cfg", cfg_text(dict(consts, Bugs=[bug])))
        res = tlc.mc(spec, cfg, workers=2, coverage=False, timeout=1500)
        return bug, res["violation"] == f"invariant {inv}", res["violation"]

    with ThreadPoolExecutor(max_workers=4) as ex:
        for bug, ok, got in ex.map(bug_run, BUGS.items()):
            results[f"model:{bug}"] = ok
            if not ok:
                print(f"selftest model:{bug}: expected {BUGS[bug][1]}, TLC says {got}")

    # 2. corrupted traces: random addresses only, so that the trace is good on any tree
    good_sc = S.pair("rnd", "rnd", "legacy", set(), 1, ctx.seed + 1)
    good = execute([good_sc])[0]
    ev = good["events"]

    def idx(kind, nth=0, **match):
        hits = [i for i, e in enumerate(ev) if e["e"] == kind and all(e[k] == w for k, w in match.items())]
        return hits[nth]

    def mutate(fn):
        t = copy.deepcopy(ev)
        fn(t)
        return t

    def swap(t, i, j):
        t[i], t[j] = t[j], t[i]

    r1, r2 = idx("recv", 0, d=2), idx("recv", 1, d=2)
    cases = {
        "trace:recv-dropped": lambda t: t.pop(r1),
        "trace:recv-duplicated": lambda t: t.insert(r1 + 1, dict(t[r1])),
        "trace:recv-reordered": lambda t: (t[r1].__setitem__("n", 2), t[r2].__setitem__("n", 1)),
        "trace:recv-at-bystander": lambda t: t[r1].__setitem__("d", 3),
        "trace:recv-corrupt-payload": lambda t: t[r1].__setitem__("ok", 0),
        "trace:conn-evt-wrong-peer": lambda t: t[idx("conn_evt", 0, d=2)].__setitem__("ak", "pub"),
        "trace:conn-evt-at-bystander": lambda t: t[idx("t2_conn", 0, d=2)].__setitem__("d", 3),
        "trace:ret-connect-other-handle": lambda t: t[idx("ret_connect")].__setitem__("h", 2),
        "trace:ret-connect-peripheral": lambda t: t[idx("ret_connect")].__setitem__("role", "peripheral"),
        "trace:disc-evt-dropped": lambda t: t.pop(idx("disc_evt", 0, d=2)),
        "trace:t2-disc-dropped": lambda t: t.pop(idx("t2_disc", 1)),
        "trace:spurious-disc": lambda t: t.insert(idx("send", 0), dict(t[idx("t2_disc", 0)])),
        "trace:handle-in-use": lambda t: t.insert(idx("send", 0), dict(t[idx("t2_conn", 0, d=2)])),
        "trace:ret-connect-of-the-other-transport": lambda t: t[idx("ret_connect")].__setitem__("ctr", "br"),
    }
    names = list(cases)
    verdicts = validate(ctx, None, [ev] + [mutate(cases[n]) for n in names], tag="c06self")
    results["trace:unmodified-accepted"] = verdicts[0][0] == "ACCEPT"
    for n, v in zip(names, verdicts[1:]):
        results[n] = v[0] == "REJECT"

    # ... and a trace with an (e)SCO link, further links made while it is up, and both transports
    sco_sc = S.sco_links(1, 2, ctx.seed + 5)
    ev = execute([sco_sc])[0]["events"]
    acl_h = ev[idx("t2_conn", 0, d=2, tr="br")]["h"]
    cases = {
        "trace:sco-given-the-handle-of-the-acl": lambda t: t[idx("t2_conn", 0, d=2, tr="sco")].__setitem__("h", acl_h),
        "trace:sco-connection-at-bystander": lambda t: t[idx("t2_conn", 0, d=2, tr="sco")].__setitem__("d", 3),
        "trace:sco-disconnection-not-reported-to-peer": lambda t: t.pop(idx("disc_evt", 0, d=1)),
        "trace:sco-requested-twice": lambda t: t.insert(idx("sco") + 1, dict(t[idx("sco")])),
    }
    names = list(cases)
    verdicts = validate(ctx, None, [ev] + [mutate(cases[n]) for n in names], tag="c06self")
    results["trace:sco:unmodified-accepted"] = verdicts[0][0] == "ACCEPT"
    for n, v in zip(names, verdicts[1:]):
        results[n] = v[0] == "REJECT"

    # 3. shims on the real objects
    def shim_duplicate_acl(w):
        orig = w.link.send_acl_data

        def twice(sender, dest, transport, data):
            orig(sender, dest, transport, data)
            orig(sender, dest, transport, data)

        w.link.send_acl_data = twice

    def shim_reorder_acl(w):
        orig = w.link.send_acl_data
        held = []

        def swap2(sender, dest, transport, data):
            held.append((sender, dest, transport, data))
            if len(held) == 2:
                for a in (held[1], held[0]):
                    orig(*a)
                held.clear()

        w.link.send_acl_data = swap2

    def shim_accept_any(w):
        from bumble import ll

        c = w.stacks[3].controller
        orig = c.on_le_connect_ind
        c.on_le_connect_ind = lambda p: orig(ll.ConnectInd(p.initiator_address, c.le_legacy_advertiser.address, p.interval, p.latency, p.timeout))

    def shim_adv_to_self(w):
        orig = w.link.send_advertising_pdu

        def also_self(sender, packet):
            orig(sender, packet)
            sender.on_ll_advertising_pdu(packet)

        w.link.send_advertising_pdu = also_self

    def shim_peer_not_told(w):
        from bumble import hci

        c = w.stacks[2].controller
        orig = c.send_hci_packet
        c.send_hci_packet = lambda p: None if isinstance(p, hci.HCI_Disconnection_Complete_Event) else orig(p)

    def shim_connect_returns_first(w):
        d = w.dev(1)
        orig = d.connect

        async def first(*a, **k):
            c = await orig(*a, **k)
            return next(iter(d.connections.values()))

        d.connect = first

    def shim_same_handle(w):
        c = w.stacks[2].controller
        c.allocate_connection_handle = lambda: 1

    def shim_handle_ignores_sco(w):
        c = w.stacks[2].controller
        c.allocate_connection_handle = lambda: next(
            h for h in range(1, 0xEFF) if all(x.handle != h for t in (c.le_connections, c.classic_connections) for x in t.values()))

    def shim_page_resolved_by_any_transport(w):
        from bumble.core import PhysicalTransport

        d = w.dev(1)
        orig = d.connect

        async def connect(address, transport=PhysicalTransport.LE, **k):
            if transport != PhysicalTransport.BR_EDR:
                return await orig(address, transport=transport, **k)
            first = asyncio.get_running_loop().create_future()
            d.on("connection", lambda c: c.peer_address == address and not first.done() and first.set_result(c))
            w.tasks.append(asyncio.get_running_loop().create_task(orig(address, transport=transport, **k)))
            return await first

        d.connect = connect

    def shim_route_by_controller_address(w):
        w.link.find_le_controller = lambda a: next((c for c in w.link.controllers if a in (c.random_address, c.public_address)), None)

    star = S.star("rnd", "rnd", "rnd", "rnd", ctx.seed + 2)
    star_noscan = dict(star, ops=[o for o in star["ops"] if o[0] != "scan"])
    two_adv = dict(name="two-advertisers", cfg=dict(star["cfg"], ext=[]), ops=[("adv", 2, "rnd", "legacy"), ("adv", 3, "rnd", "legacy"), ("connect", 1, "le", 2, "rnd", "rnd"), ("settle",)])
    scan3 = dict(name="scan-and-advertise", cfg=dict(star["cfg"], ext=[]), ops=[("scan", 3, "passive"), ("adv", 3, "rnd", "legacy"), ("adv", 2, "rnd", "legacy"), ("settle",)])
    inc = S.incoming_while_pending("rnd", "rnd", "rnd", ctx.seed + 3)
    mixed = S.mixed(ctx.seed + 4)
    shims = {
        "shim:link-duplicates-acl": (shim_duplicate_acl, good_sc, ("link:acl:delivered-out-of-turn",)),
        "shim:link-reorders-acl": (shim_reorder_acl, good_sc, ("link:acl:delivered-out-of-turn",)),
        "shim:connect-ind-accepted-by-any-advertiser": (shim_accept_any, two_adv, ("controller:connect-ind:accepted-by-another-device",)),
        "shim:advertisement-to-its-sender": (shim_adv_to_self, scan3, ("link:advertising-pdu:reported-to-its-sender",)),
        "shim:peer-host-not-told": (shim_peer_not_told, good_sc, ("link:terminate:le:peer-not-told", "host:hci-event-not-reported:disc")),
        "shim:connect-returns-first-connection": (shim_connect_returns_first, inc, ("device:connect_le:returns-another-connection:role=peripheral",)),
        "shim:handle-reused": (shim_same_handle, mixed, ("controller:connection-handle:in-use",)),
        "shim:handle-allocation-overlooks-sco-links": (shim_handle_ignores_sco, sco_sc, ("controller:connection-handle:in-use",)),
        "shim:page-resolved-by-a-connection-of-any-transport": (shim_page_resolved_by_any_transport, S.both_transports("le-first", "pub", ctx.seed + 6),
                                                                ("device:connect_classic:returns-another-connection",)),
        "shim:link-routes-by-the-controllers-own-addresses": (shim_route_by_controller_address, S.pair("rnd", "set", "ext", {2}, 1, ctx.seed + 7),
                                                              ("link:acl:le:lost:sender-address=rnd:peer-address=set",)),
    }
    shim_runs = [execute([sc], patch=patch)[0] for (patch, sc, _) in shims.values()]
    verdicts = validate(ctx, None, [r["events"] for r in shim_runs], tag="c06self")
    base = validate(ctx, None, [r["events"] for r in execute([sc for (_, sc, _) in shims.values()])], tag="c06self")
    for (name, (_, sc, want)), r, v, b in zip(shims.items(), shim_runs, verdicts, base):
        got = sig_of(v, r["events"])[0] if v[0] == "REJECT" else "ACCEPT"
        ok = any(got.startswith(w) for w in want)
        if not ok and b[0] == "REJECT":
            # the tree under test already fails this scenario for another reason: the shim must at least be rejected no later
            ok = v[0] == "REJECT" and v[1] <= b[1]
        results[name] = ok
        if not ok:
            print(f"selftest {name}: got {got}")
    print("selftest:", results)
    rep.extra["selftest"] = results
    for k, ok in results.items():
        if not ok:
            rep.violation(f"selftest:{k}", f"binding self-test: {k} was not detected")
