"""C20: RFCOMM carries the exact byte stream; HFP on top negotiates consistently.

(M) TLC model checking of
      specs/Rfcomm/Dlc.tla   one direction of a data link: credit ledger, maximum frame size incl. the credit octet, no data
                             frame without a credit (credit-only frames are free), stream counters; liveness under weak
                             fairness with a free credit return policy (negative control: no fairness on the return);
      specs/Rfcomm/Mux.tla   multiplexer session + data link state machines of BOTH ends over SABM / UA / DM / DISC / PN / MSC
                             for every order of the API initiatives of both sides, 2 and 3 data links; at rest both ends
                             match; one ledger per data link under interleaved traffic;
      specs/Hfp/Slc.tla      the service level connection as a function of both feature sets (all subsets), one final
                             result code per command, both ends told the same negotiated values; liveness.
(B) two real devices on a classic link: bumble's real rfcomm.Client / Server / Multiplexer / DLC on both ends; frames are
    captured at the HCI boundary of both hosts (own ACL reassembly, own RFCOMM parser: lib.c20_wire) and, with writes, sink
    deliveries, API outcomes and the states of both ends at rest, validated by TLC against DlcTrace.tla (one trace per data
    link and direction) and MuxTrace.tla (one per scenario).  HFP: real HfProtocol against real AgProtocol and against the
    harness' reference AG for feature subsets (pairwise covering array, all single-bit flips, all 8 x 8 combinations of the
    bits that branch the procedure) x indicator / codec / call hold lists; AT lines of both directions validated by
    SlcTrace.tla together with what each real end holds afterwards.
(A) every command line TLC enumerates from Slc.tla (SpecAt: every HFP command in execute / read / test / set form with 0..4
    parameters) and the forms an HF really sends, written as raw bytes by a puppet HF to a real AgProtocol: exactly one final
    result code, then a probe must be answered.
A refused event is a violated clause of the specification.
"""
from __future__ import annotations

import itertools
import json
import multiprocessing
import os
import random
import re

from lib import tlc

LEVEL = "model_checking"

SIZES = [23, 24, 127, 128, 667, 32767]
CREDITS = [1, 2, 3, 4, 5, 6, 7]
L2MTUS = [48, 127, 672, 1024, 2048, 32772, 65535]
DLCIS = "{" + ", ".join(str(d) for d in range(2, 62, 2)) + "}"


# ============================================================================= (M) model checking
def _w(ctx, name, text):
    p = os.path.join(ctx.out, name)
    with open(p, "w") as f:
        f.write(text)
    return p


def _dlc_cfg(sizes, l2s, inits, maxc, maxwritten, maxwrite, live=False, spec="Spec"):
    fmt = lambda s: "{" + ", ".join(map(str, s)) + "}"
    t = (f"SPECIFICATION {spec}\nCONSTANTS\n  Sizes = {fmt(sizes)}\n  L2s = {fmt(l2s)}\n  Inits = {fmt(inits)}\n  Hdr = 1\n"
         f"  MaxCredits = {maxc}\n  MaxWritten = {maxwritten}\n  MaxWrite = {maxwrite}\n")
    t += "PROPERTY Live\n" if live else "INVARIANT TypeOK\nINVARIANT Inv_Ledger\nINVARIANT Inv_NoOverrun\nINVARIANT Inv_Size\nINVARIANT Inv_Stream\n"
    return t + "CHECK_DEADLOCK FALSE\n"


def _mux_cfg(dlcis, listen, started, ops, data, live=False):
    fmt = lambda s: "{" + ", ".join(map(str, s)) + "}"
    return (f"SPECIFICATION Spec\nCONSTANTS\n  Dlcis = {fmt(dlcis)}\n  Listen = {fmt(listen)}\n  K = 1\n  MaxCr = 2\n  Started = {'TRUE' if started else 'FALSE'}\n"
            f"  MaxOps = {ops}\n  MaxData = {data}\nINVARIANT TypeOK\nINVARIANT Inv_Match\nINVARIANT Inv_Ledgers\nINVARIANT Inv_NoOverrun\n"
            + ("PROPERTY Settles\n" if live else "") + "CHECK_DEADLOCK FALSE\n")


def _slc_cfg(hfbits, agbits, rich, live):
    fmt = lambda s: "{" + ", ".join(map(str, s)) + "}"
    return (f"SPECIFICATION Spec\nCONSTANTS\n  HfBits = {fmt(hfbits)}\n  AgBits = {fmt(agbits)}\n  Rich = {'TRUE' if rich else 'FALSE'}\n"
            "INVARIANT Inv_OneFinal\nINVARIANT Inv_Same\nINVARIANT Inv_Plan\n" + ("PROPERTY Live\n" if live else "") + "CHECK_DEADLOCK FALSE\n")


DLC_ACTIONS = ["Write", "SendUih", "SendEmpty", "RecvAny", "Grant", "CreditsAny", "SinkAll"]
MUX_ACTIONS = ["InitiativeStep", "ReactionAny", "RxStep"]
SLC_ACTIONS = ["HfStep", "AgInfoStep", "AgFinalStep"]


def mc_jobs(ctx):
    """(name, spec path, cfg text, workers, required actions, constants, control)"""
    D, M, S = ctx.spec("Rfcomm", "Dlc.tla"), ctx.spec("Rfcomm", "Mux.tla"), ctx.spec("Hfp", "Slc.tla")
    q = ctx.quick
    jobs = [
        ("Dlc safety", D, _dlc_cfg([2, 3], [3, 9], [1, 2, 3], 4, 6, 4) if q else _dlc_cfg([1, 2, 3], [3, 9], [1, 2, 3, 4, 5, 6, 7], 8, 7, 5), 3 if q else 6,
         DLC_ACTIONS, dict(Sizes=[2, 3] if q else [1, 2, 3], Inits="1..3" if q else "1..7", MaxWritten=6 if q else 7), False),
        ("Dlc liveness", D, _dlc_cfg([1, 2], [9], [1, 2], 3, 3, 2, live=True) if q else _dlc_cfg([1, 2, 3], [9], [1, 2, 3], 4, 4, 3, live=True), 1,
         DLC_ACTIONS, dict(prop="Live", fairness="WF on send, receive, grant, credit arrival, sink"), False),
        ("Dlc liveness control", D, _dlc_cfg([2], [9], [1], 2, 2, 2, live=True, spec="SpecNoGrantFairness"), 1, [], {}, True),
        ("Mux 2 links + data", M, _mux_cfg([2, 4], [2, 4], True, 4, 1) if q else _mux_cfg([2, 4], [2, 4], True, 4, 2), 3 if q else 6,
         MUX_ACTIONS + ["DataStep"], dict(Dlcis=[2, 4], MaxOps=4, MaxData=1 if q else 2, Started=True), False),
        ("Mux session + refusal + settles", M, _mux_cfg([2, 4], [2], False, 5, 0, live=True), 1, MUX_ACTIONS, dict(Dlcis=[2, 4], Listen=[2], MaxOps=5, prop="Settles"), False),
        ("Mux 3 links", M, _mux_cfg([2, 4, 6], [2, 4, 6], True, 5, 0) if q else _mux_cfg([2, 4, 6], [2, 4, 6], True, 6, 0), 3 if q else 6,
         MUX_ACTIONS, dict(Dlcis=[2, 4, 6], MaxOps=5 if q else 6), False),
        ("Slc all subsets", S, _slc_cfg([0, 1, 7, 8], [0, 5, 9, 10], False, True) if q else _slc_cfg([0, 1, 2, 5, 7, 8], [0, 1, 5, 6, 9, 10], False, False), 3 if q else 6,
         SLC_ACTIONS, dict(HfBits=4 if q else 6, AgBits=4 if q else 6, prop="Live" if q else ""), False),
    ]
    if not q:
        jobs.append(("Mux 2 links, 5 initiatives", M, _mux_cfg([2, 4], [2, 4], True, 5, 1), 6, MUX_ACTIONS + ["DataStep"], dict(Dlcis=[2, 4], MaxOps=5, MaxData=1), False))
        jobs.append(("Slc rich lists + liveness", S, _slc_cfg([0, 1, 7, 8], [0, 5, 9, 10], True, True), 4, SLC_ACTIONS, dict(HfBits=4, AgBits=4, Rich=True, prop="Live"), False))
    out = []
    for i, (name, spec, text, workers, acts, consts, control) in enumerate(jobs):
        out.append((name, spec, _w(ctx, f"mc_{i}.cfg", text), workers, acts, consts, control))
    return out


def _mc_job(args):
    spec, cfg, workers, coverage = args
    try:
        r = tlc.mc(spec, cfg, workers=workers, coverage=coverage, timeout=3000)
    except tlc.TlcError as e:
        if re.search(r"Error: Temporal propert(y \w+ was|ies were) violated", str(e)):
            return {"ok": False, "violation": "temporal property", "out": str(e)[-3000:], "coverage": {}, "states": 0, "transitions": 0, "wall_s": 0}
        raise
    r["out"] = r["out"][-3000:]
    return r


def start_mc(ctx, pool):
    return [(j, pool.apply_async(_mc_job, ((j[1], j[2], j[3], not j[6]),))) for j in mc_jobs(ctx)]


def collect_mc(rep, pending):
    for (name, spec, cfg, workers, acts, consts, control), ar in pending:
        res = ar.get()
        if control:
            if res["violation"] != "temporal property":
                raise tlc.TlcError(f"negative control '{name}': Live is NOT violated without fairness on the credit return; the liveness check is vacuous")
            continue
        if res["violation"]:
            raise tlc.TlcError(f"{os.path.basename(spec)} [{name}] violates {res['violation']} in the model itself:\n{res['out']}")
        tlc.require_actions(res, acts, f"{os.path.basename(spec)} [{name}]")
        rep.add_mc(f"{os.path.basename(os.path.dirname(spec))}/{os.path.basename(spec)} [{name}]", res, consts)


# ============================================================================= (B) RFCOMM scenarios
def _sizes(rng, cap, credits, budget):
    """write sizes around the frame payload `cap` the sender may use, beyond the initial credits and beyond the 32-credit window"""
    cand = [0, 1, 2, cap - 2, cap - 1, cap, cap + 1, 2 * cap - 1, 2 * cap, 3 * cap + 7, (credits + 2) * cap, 9 * cap + 3, 40 * cap, 70 * cap + 1]
    cand = [c for c in cand if c >= 0]
    out = []
    for _ in range(rng.randint(1, 5)):
        c = min(rng.choice(cand), budget)
        budget -= c
        out.append(c)
        if budget <= 0:
            break
    return out


def _plan(rng, sizes):
    return [[rng.choice([0, 0, 0, 0.001, 0.05, 0.7, 3.0]), s] for s in sizes]


def _cap(mfs_peer, l2_peer):
    return max(1, min(mfs_peer, l2_peer - 5))


def _xfer(rng, chans, idxs, l2mtu, budget):
    x = {}
    for i in idxs:
        ch = chans[i]
        cap0 = _cap(ch["smfs"], l2mtu[1])  # side 0 sends towards the server's announced size
        cap1 = _cap(ch["cmfs"], l2mtu[0])
        x[str(i)] = [_plan(rng, _sizes(rng, cap0, ch["sk"], budget)), _plan(rng, _sizes(rng, cap1, ch["ck"], budget))]
        if rng.random() < 0.1:
            x[str(i)][rng.randint(0, 1)] = []
    return x


def _geometry(rng, big):
    if big:
        return dict(acl_len=1021, acl_bufs=rng.choice([8, 64]), hci_delay=rng.choice([0.0, 0.002]))
    return dict(acl_len=rng.choice([27, 27, 64, 251, 1021]), acl_bufs=rng.choice([64, 64, 3, 1]), hci_delay=rng.choice([0.0, 0.0, 0.004, 0.05, 0.6]))


def gen_matrix(rng, quick):
    """every (maximum frame size, initial credits) pair on each side at least once (twice in the thorough tier)"""
    pairs = [(s, k) for s in SIZES for k in CREDITS]
    out = []
    for rnd in range(1 if quick else 6):
        srv = pairs[:]
        rng.shuffle(srv)
        for (cm, ck), (sm, sk) in zip(pairs, srv):
            big = max(cm, sm) > 1000
            l2 = [rng.choice(L2MTUS), rng.choice(L2MTUS)]
            if big and rng.random() < 0.6:
                l2 = [rng.choice([32772, 65535]), rng.choice([32772, 65535])]
            chans = [dict(ch=rng.randint(1, 30), cmfs=cm, ck=ck, smfs=sm, sk=sk)]
            budget = 70000 if big else 30000
            sc = dict(family="matrix", seed=rng.randrange(1 << 30), client_dev=rng.randint(0, 1), central=rng.randint(0, 1), l2mtu=l2, chans=chans,
                      script=[["open", 0], ["xfer", _xfer(rng, chans, [0], l2, budget)], ["close", [[0, rng.randint(0, 1)]]]], **_geometry(rng, big))
            out.append(sc)
    return out


def _chan(rng, ch):
    return dict(ch=ch, cmfs=rng.choice(SIZES[:5]), ck=rng.choice(CREDITS), smfs=rng.choice(SIZES[:5]), sk=rng.choice(CREDITS))


def gen_orders(rng, quick):
    """every order of opening and closing 2 (and 3) data links, closed by either side; refusal, re-open, simultaneous close,
    session closed by either side, shutdown with links open"""
    out = []

    def mk(n, script, fam="orders"):
        chs = rng.sample(range(1, 31), n)
        chans = [_chan(rng, c) for c in chs]
        l2 = [rng.choice(L2MTUS[:5]), rng.choice(L2MTUS[:5])]
        sc = dict(family=fam, seed=rng.randrange(1 << 30), client_dev=rng.randint(0, 1), central=rng.randint(0, 1), l2mtu=l2, chans=chans, script=[], **_geometry(rng, False))
        for op in script:
            if op[0] == "xfer":
                op = ["xfer", _xfer(rng, chans, op[1], l2, 3000)]
            elif op[0] == "early":
                # writes by the side whose peer has no sink yet: two small ones, or (op[3]) that many frames - more than
                # the replenishment threshold, fewer than the receive queue holds
                x = {str(i): [[], []] for i in op[1]}
                for i in op[1]:
                    if len(op) > 3:
                        cap = _cap(chans[i]["smfs"] if op[2] == 0 else chans[i]["cmfs"], l2[1 - op[2]])
                        x[str(i)][op[2]] = [[0, cap * op[3]]]
                    else:
                        x[str(i)][op[2]] = [[0, rng.randint(3, 12)], [0.05, rng.randint(1, 5)]]
                op = ["xfer", x]
            elif op[0] == "bulk":
                x = {str(i): [[], []] for i in op[1]}
                for i in op[1]:
                    cap = _cap(chans[i]["smfs"] if op[2] == 0 else chans[i]["cmfs"], l2[1 - op[2]])
                    x[str(i)][op[2]] = [[0, cap * op[3] + 7]]
                op = ["xfer", x]
            elif op[0] == "refused":
                free = [c for c in range(1, 31) if c not in chs]
                op = ["refused", rng.choice(free)]
            sc["script"].append(op)
        out.append(sc)

    for n in (2, 3):
        combos = [(o, c, s) for o in itertools.permutations(range(n)) for c in itertools.permutations(range(n)) for s in itertools.product((0, 1), repeat=n)]
        if n == 3 and quick:
            combos = rng.sample(combos, 14)
        for o, c, s in combos:
            script = [["open", i] for i in o] + [["xfer", list(range(n))]] + [["close", [[i, s[i]]]] for i in c]
            mk(n, script)
    # interleaved: close one while the others carry traffic, open after a close, refusal in between
    mk(3, [["open", 0], ["open", 1], ["xfer", [0, 1]], ["close", [[0, 1]]], ["open", 2], ["xfer", [1, 2]], ["refused"], ["close", [[2, 0]]], ["close", [[1, 1]]]])
    mk(2, [["refused"], ["open", 0], ["refused"], ["open", 1], ["xfer", [0, 1]], ["close", [[1, 0]]], ["close", [[0, 0]]]])
    # re-open the same channel after a close by either side
    for side in (0, 1):
        mk(1, [["open", 0], ["xfer", [0]], ["close", [[0, side]]], ["open", 0], ["xfer", [0]], ["close", [[0, 1 - side]]]], "reopen")
    # both ends close the same link at the same time; two links closed at once
    mk(1, [["open", 0], ["xfer", [0]], ["close", [[0, 0], [0, 1]]]], "simultaneous-close")
    mk(2, [["open", 0], ["open", 1], ["xfer", [0, 1]], ["close", [[0, 0], [1, 1]]]], "simultaneous-close")
    # applications that install their sinks late: early data of each link waits for that link's own sink, whatever the
    # order in which the sinks are attached
    for late in (0, 1):
        for n, order in ((2, (1, 0)), (2, (0, 1)), (3, (2, 0, 1))):
            script = [["open", i] for i in range(n)] + [["early", list(range(n)), 1 - late]] + [["attach", [[i, late]]] for i in order] \
                     + [["xfer", list(range(n))]] + [["close", [[i, late]]] for i in range(n)]
            mk(n, script, "late-sink")
            out[-1]["late_sink"] = late
    # ... also when more frames than the replenishment threshold (16) arrive before the sink exists, and the transfer goes
    # on for many credit rounds afterwards (the receiver's ledger must count what it queued)
    for late in (0, 1):
        for nearly in (17, 24, 31):
            mk(1, [["open", 0], ["early", [0], 1 - late, nearly], ["attach", [[0, late]]], ["bulk", [0], 1 - late, 60], ["close", [[0, late]]]], "late-sink")
            out[-1]["late_sink"] = late
    # the session itself
    for side in (0, 1):
        mk(2, [["open", 0], ["open", 1], ["xfer", [0, 1]], ["close", [[0, side]]], ["close", [[1, 1 - side]]], ["mux_close", side]], "session")
        mk(1, [["open", 0], ["xfer", [0]], ["mux_close", side]], "session")
    mk(2, [["open", 0], ["open", 1], ["xfer", [0, 1]], ["shutdown"]], "session")
    mk(1, [["open", 0], ["close", [[0, 0]]], ["shutdown"]], "session")
    return out


def gen_interfere(rng, quick):
    """3 data links with different parameters, heavy traffic in both directions on all of them at once"""
    out = []
    for _ in range(6 if quick else 80):
        chs = rng.sample(range(1, 31), 3)
        chans = [dict(ch=c, cmfs=rng.choice(SIZES[:5]), ck=rng.choice(CREDITS), smfs=rng.choice(SIZES[:5]), sk=rng.choice(CREDITS)) for c in chs]
        l2 = [rng.choice(L2MTUS[:5]), rng.choice(L2MTUS[:5])]
        x = {}
        for i, ch in enumerate(chans):
            c0, c1 = _cap(ch["smfs"], l2[1]), _cap(ch["cmfs"], l2[0])
            x[str(i)] = [_plan(rng, [rng.choice([50, 45, 40]) * c0 + rng.randint(0, 9), c0, 1]), _plan(rng, [rng.choice([50, 45, 40]) * c1 + rng.randint(0, 9), 2 * c1])]
        out.append(dict(family="interfere", seed=rng.randrange(1 << 30), client_dev=rng.randint(0, 1), central=rng.randint(0, 1), l2mtu=l2, chans=chans,
                        script=[["open", 0], ["open", 1], ["open", 2], ["xfer", x], ["close", [[0, 0]]], ["xfer", {k: v for k, v in x.items() if k != "0"}],
                                ["close", [[1, 1]]], ["close", [[2, 0]]]], **_geometry(rng, False)))
    return out


def _run_rf(sc):
    from lib import c20_scen, c20_wire

    r = c20_scen.run_scenario(sc)
    head = c20_wire.public(c20_wire._ev("cfg", listed=[[], sorted(c["ch"] * 2 for c in sc["chans"])]))
    return {"dlc": r.rec.dlc_traces(), "mux": [head] + r.rec.mux_trace(), "info": r.info, "anomalies": r.rec.anomalies[:6], "loop_errors": r.loop_errors[:4]}


def _dlc_trace_cfg(ctx):
    return _w(ctx, "dlc_trace.cfg", "SPECIFICATION TraceSpec\nCONSTANTS\n  Sizes = {0}\n  L2s = {0}\n  Inits = {0}\n  Hdr = 0\n  MaxCredits = 100000000\n"
              "  MaxWritten = 1000000000\n  MaxWrite = 0\nINVARIANT Inv_NoOverrun\nINVARIANT Inv_Ledger\nCHECK_DEADLOCK FALSE\n")


def _mux_trace_cfg(ctx):
    return _w(ctx, "mux_trace.cfg", f"SPECIFICATION TraceSpec\nCONSTANTS\n  Dlcis = {DLCIS}\n  Listen = {{}}\n  K = 0\n  MaxCr = 0\n  Started = FALSE\n"
              "  MaxOps = 0\n  MaxData = 0\nCHECK_DEADLOCK FALSE\n")


def _slc_trace_cfg(ctx):
    return _w(ctx, "slc_trace.cfg", "SPECIFICATION TraceSpec\nCONSTANTS\n  HfBits = {}\n  AgBits = {}\n  Rich = FALSE\nCHECK_DEADLOCK FALSE\n")


def _batch_job(args):
    spec, cfg, traces, tag = args
    r = tlc.trace_batch(spec, cfg, traces, tag=tag)
    return {"verdicts": r["verdicts"], "states": r["states"]}


def _validate(pool, spec, cfg, traces, tag, chunk_events=60000):
    """-> {index: verdict}, states"""
    batches, cur, n = [], [], 0
    for i, t in enumerate(traces):
        cur.append(i)
        n += len(t)
        if n >= chunk_events:
            batches.append(cur)
            cur, n = [], 0
    if cur:
        batches.append(cur)
    outs = pool.map(_batch_job, [(spec, cfg, [traces[i] for i in b], f"{tag}-{k}") for k, b in enumerate(batches)], chunksize=1)
    verdicts, states = {}, 0
    for b, o in zip(batches, outs):
        states += o["states"]
        for tid, v in o["verdicts"].items():
            verdicts[b[tid - 1]] = v
    return verdicts, states


DLC_CLAUSES = ["known", "credit", "size", "l2mtu", "written", "fifo", "bytes", "have", "alldelivered"]
DLC_NAMES = {"credit": "data-without-credit", "size": "above-negotiated-frame-size", "l2mtu": "above-l2cap-mtu", "written": "bytes-never-written",
             "fifo": "lost-or-reordered", "bytes": "bytes-differ", "have": "bytes-not-received", "known": "unexpected-event"}


def classify_dlc(ev, info, d):
    """-> (side at fault, clause)"""
    why, st = (info or {}).get("why", {}), (info or {}).get("st", {})
    e = ev.get("e")
    if e in ("stray", "raise", "malformed"):
        return ev.get("side", d), e
    clause = next((c for c in DLC_CLAUSES if why.get(c) is False), None)
    if clause is None:
        return d, "refused"
    if clause == "alldelivered":
        if st.get("written", 0) > st.get("sent", 0):
            return (d, "stalled-holding-credits") if st.get("txc", 0) > 0 else (1 - d, "no-credits-returned")
        if st.get("inflight", 0) > 0:
            return 1 - d, "frames-never-arrived"
        return 1 - d, "received-not-delivered"
    actor = d if clause in ("credit", "size", "l2mtu", "written") else 1 - d
    return actor, DLC_NAMES.get(clause, clause)


MUX_CLAUSES = ["known", "tx", "fifo", "api", "owed", "returned", "busy", "muxstate", "dlcstate", "match", "tables"]
MUX_NAMES = {"tx": "frame-not-allowed-here", "fifo": "lost-or-reordered", "api": "call-outcome", "owed": "answer-never-sent", "returned": "call-never-returned",
             "busy": "link-stuck-in-transient-state", "muxstate": "session-state-differs", "dlcstate": "link-state-differs", "match": "ends-differ",
             "tables": "link-tables-differ", "known": "unexpected-event"}


def classify_mux(tr, l, ev, info):
    why = (info or {}).get("why", {})
    e = ev.get("e")
    if e in ("stray", "raise", "malformed"):
        return f"{e}"
    clause = next((c for c in MUX_CLAUSES if why.get(c) is False), "refused")
    name = MUX_NAMES.get(clause, clause)
    ctx = ""
    if e in ("state", "quiesce"):
        last = next((x for x in reversed(tr[: l - 1]) if x["e"] == "api"), None)
        if last:
            ctx = f":after-{last['kind']}-by-{'initiator' if last['side'] == 0 else 'responder'}"
    elif e == "api":
        ctx = f":{ev['kind']}-{ev['what']}"
    elif e == "ctl":
        ctx = f":{ev['kind']}-{ev['at']}"
    return f"{e}:{name}{ctx}"


def run_rfcomm(ctx, rep, pool, scenarios, count=True, runner=None):
    results = [runner(sc) for sc in scenarios] if runner else pool.map(_run_rf, scenarios, chunksize=1)
    found = []
    # data links
    dl = [(si, lk, d, tr) for si, r in enumerate(results) for lk, d, tr in r["dlc"]]
    verdicts, st1 = _validate(pool, ctx.spec("Rfcomm", "DlcTrace.tla"), _dlc_trace_cfg(ctx), [x[3] for x in dl], "c20dlc")
    for i, (si, lk, d, tr) in enumerate(dl):
        sc, v = scenarios[si], verdicts[i]
        if count:
            rep.traces += 1
            h = tr[0]
            key = ("dlc", sc["family"], h["size"], h["credits"], h["flen"], d, tuple((e["e"], e["side"], e["at"], e["n"], e["pf"]) for e in tr[1:30]))
            rep.case(key, nontrivial=len(tr) > 3, sample={"kind": "dlc", "direction": d, "receiver announced": {"max_frame_size": h["size"], "credits": h["credits"], "l2cap_mtu": h["flen"]},
                                                          "events": len(tr), "head": [{k: e[k] for k in ("e", "side", "at", "n", "pf", "credits")} for e in tr[1:6]]} if i == 0 else None)
        if v[0] == "REJECT":
            l = v[1]
            ev = tr[l - 1] if 0 < l <= len(tr) else {"e": "none"}
            info = v[3] if len(v) > 3 and isinstance(v[3], dict) else {}
            actor, clause = classify_dlc(ev, info, d)
            role = "initiator" if actor == 0 else "responder"
            sig = f"rfcomm:dlc:{ev.get('e')}:{clause}:{role}"
            h = tr[0]
            summary = (f"data link DLCI {h['dlci']} direction {'initiator->responder' if d == 0 else 'responder->initiator'} (receiver announced max frame size {h['size']}, "
                       f"{h['credits']} initial credits, L2CAP MTU {h['flen']}): event {l} {{{', '.join(f'{k}={ev.get(k)}' for k in ('e', 'side', 'at', 'n', 'pf', 'credits', 'flen', 'ok', 'what') if ev.get(k) not in ('', None))}}} "
                       f"refused: {clause} by the {role}; spec state {info.get('st')}" + (f"; observed: {results[si]['anomalies'][:2]}" if results[si]["anomalies"] else ""))
            found.append((sig, summary, {"kind": "rfcomm", "scenario": sc, "trace": "dlc", "link": lk, "dir": d, "line": l, "event": ev, "why": info.get("why"), "state": info.get("st")}))
    # session and set-up / teardown
    verdicts, st2 = _validate(pool, ctx.spec("Rfcomm", "MuxTrace.tla"), _mux_trace_cfg(ctx), [r["mux"] for r in results], "c20mux")
    for si, r in enumerate(results):
        sc, v, tr = scenarios[si], verdicts[si], r["mux"]
        if count:
            rep.traces += 1
            key = ("mux", sc["family"], len(sc["chans"]), tuple((e["e"], e["side"], e["at"], e["kind"], e["what"]) for e in tr if e["e"] in ("ctl", "api"))[:120])
            rep.case(key, nontrivial=len(tr) > 6, sample={"kind": "mux", "family": sc["family"], "script": [op[0] for op in sc["script"]], "events": len(tr),
                                                          "head": [{k: e[k] for k in ("e", "side", "at", "kind", "dlci")} for e in tr[1:8]]} if si == 0 else None)
        if v[0] == "REJECT":
            l = v[1]
            ev = tr[l - 1] if 0 < l <= len(tr) else {"e": "none"}
            info = v[3] if len(v) > 3 and isinstance(v[3], dict) else {}
            sig = "rfcomm:mux:" + classify_mux(tr, l, ev, info)
            shown = {k: ev.get(k) for k in ("e", "side", "at", "kind", "dlci", "what", "mux", "open", "listed", "busy", "n") if ev.get(k) not in ("", None, 0)}
            summary = (f"scenario {sc['family']} {[op[0] + (str(op[1]) if op[0] in ('open', 'close', 'mux_close') else '') for op in sc['script']]}: event {l} {shown} refused "
                       f"({', '.join(k for k, ok in (info.get('why') or {}).items() if ok is False)}); spec state {info.get('st')}")
            found.append((sig, summary, {"kind": "rfcomm", "scenario": sc, "trace": "mux", "line": l, "event": ev, "why": info.get("why"), "state": info.get("st")}))
    rep.extra["trace_states"] = rep.extra.get("trace_states", 0) + st1 + st2
    return found, results


# ============================================================================= HFP scenarios
HF_NBITS, AG_NBITS = 12, 14
HF_BRANCH, AG_BRANCH = [1, 7, 8], [0, 9, 10]
HF_IND_LISTS = [[], [1], [2], [1, 2], [2, 1], [1, 2, 3]]
HF_CODEC_LISTS = [[], [1], [1, 2], [2, 1], [1, 2, 3]]
AG_IND_LISTS = [
    [["call", [0, 1], 0]],
    [["service", [0, 1], 1], ["call", [0, 1], 0], ["callsetup", [0, 1, 2, 3], 0], ["callheld", [0, 1, 2], 0], ["signal", [0, 1, 2, 3, 4, 5], 3], ["roam", [0, 1], 0], ["battchg", [0, 1, 2, 3, 4, 5], 5]],
    [["call", [0, 1], 1], ["callsetup", [0, 1, 2, 3], 2], ["battchg", [0, 2, 5], 2], ["signal", [3], 3]],
    [["battchg", [0, 1, 2, 3, 4, 5], 4], ["callheld", [0, 1, 2], 1], ["call", [0, 1], 0], ["callsetup", [0, 1, 2, 3], 1]],
    # value sets with exactly one hole, with a hole at either end of the range, and ranges that do not start at 0
    [["call", [0, 1], 0], ["callheld", [0, 2], 0], ["signal", [0, 1, 2, 3, 5], 3], ["battchg", [1, 3], 1]],
    [["service", [1], 1], ["callsetup", [0, 2, 3], 0], ["signal", [2, 3, 4], 3], ["battchg", [0, 1, 3, 4, 5], 4], ["roam", [0, 1], 1]],
]
AG_HFIND_LISTS = [[1], [2], [1, 2], [2, 1], [2, 3]]
HOLD_OPS = ["0", "1", "1x", "2", "2x", "3", "4"]


def _lists(rng, sc):
    sc.update(hf_inds=rng.choice(HF_IND_LISTS), hf_codecs=rng.choice(HF_CODEC_LISTS), ag_inds=rng.choice(AG_IND_LISTS), ag_hfinds=rng.choice(AG_HFIND_LISTS))
    k = rng.randint(1, len(HOLD_OPS))
    sc["ag_holds"] = rng.sample(HOLD_OPS, k)
    return sc


def _pairwise(rng, n):
    """greedy covering array of strength 2 over n binary factors"""
    need = {(i, j, a, b) for i in range(n) for j in range(i + 1, n) for a in (0, 1) for b in (0, 1)}
    rows = []
    while need:
        best, gain = None, -1
        for _ in range(40):
            row = [rng.randint(0, 1) for _ in range(n)]
            g = sum(1 for (i, j, a, b) in need if row[i] == a and row[j] == b)
            if g > gain:
                best, gain = row, g
        rows.append(best)
        need = {(i, j, a, b) for (i, j, a, b) in need if not (best[i] == a and best[j] == b)}
    return rows


def gen_slc(rng, quick):
    feats = []  # (hf bit list, ag bit list, family)
    n = HF_NBITS + AG_NBITS
    for row in _pairwise(rng, n):
        feats.append(([i for i in range(HF_NBITS) if row[i]], [i for i in range(AG_NBITS) if row[HF_NBITS + i]], "pairwise"))
    for base in (0, 1):
        for f in range(n):
            row = [base] * n
            row[f] ^= 1
            feats.append(([i for i in range(HF_NBITS) if row[i]], [i for i in range(AG_NBITS) if row[HF_NBITS + i]], "single-flip"))
    for hb in itertools.product((0, 1), repeat=3):
        for ab in itertools.product((0, 1), repeat=3):
            for rep_ in range(1 if quick else 8):
                hf = [b for b, on in zip(HF_BRANCH, hb) if on] + [b for b in range(HF_NBITS) if b not in HF_BRANCH and rng.random() < 0.5]
                ag = [b for b, on in zip(AG_BRANCH, ab) if on] + [b for b in range(AG_NBITS) if b not in AG_BRANCH and rng.random() < 0.5]
                feats.append((sorted(hf), sorted(ag), "branching"))
    out = []
    for hf, ag, fam in feats:
        out.append(_lists(rng, dict(family=fam, seed=rng.randrange(1 << 30), hf_bits=hf, ag_bits=ag, ag="real", hf_is_client=rng.random() < 0.5,
                                    hci_delay=rng.choice([0.0, 0.0, 0.01]), mfs=rng.choice([23, 127, 1000]), credits=rng.choice([1, 7]))))
    # the reference AG: every branching combination where HF indicators are on both sides with every enabled-flag pattern, plus a sample of the rest
    pup = [f for f in feats if f[2] == "branching"]
    for hf, ag, fam in pup:
        both = 8 in hf and 10 in ag
        for en in ([{"1": 0, "2": 1}, {"1": 1, "2": 0}, {"1": 0, "2": 0}, {}] if both else [{}]):
            out.append(_lists(rng, dict(family="reference-ag", seed=rng.randrange(1 << 30), hf_bits=hf, ag_bits=ag, ag="puppet", enabled=en, hf_is_client=rng.random() < 0.5,
                                        write_style=rng.choice(["each", "batch", "split"]), hci_delay=0.0)))
    return out


# the forms an HF really sends (HFP 1.8 4.34 and bumble's HfProtocol), beyond the model's arity variants
NATURAL = ["AT+BRSF=1023", "AT+BAC=1,2", "AT+BAC=1", "AT+CIND=?", "AT+CIND?", "AT+CMER=3,,,1", "AT+CMER=3,0,0,1", "AT+CMER=3,0,0,0", "AT+CMER=3,0,0", "AT+CMER=3,0", "AT+CMER=3",
           "AT+CMER=1,0,0,1", "AT+CMER=3,1,0,1", "AT+CMER=3,0,0,2", "AT+CHLD=?", "AT+CHLD=0", "AT+CHLD=1", "AT+CHLD=2", "AT+CHLD=3", "AT+CHLD=4", "AT+CHLD=11", "AT+CHLD=12",
           "AT+CHLD=21", "AT+CHLD=22", "AT+CHLD=5", "AT+BIND=1,2", "AT+BIND=2", "AT+BIND=?", "AT+BIND?", "AT+BIEV=1,1", "AT+BIEV=2,100", "AT+BIEV=3,1", "AT+BIA=1,1,1,1,1,1,1", "AT+BIA=,,0",
           "AT+BCC", "AT+BCS=1", "AT+BCS=2", "AT+BVRA=1", "AT+BVRA=0", "AT+CMEE=1", "AT+CMEE=0", "AT+CCWA=1", "AT+CLIP=1", "AT+CLIP=0", "AT+VGS=15", "AT+VGM=0", "AT+NREC=0", "AT+VTS=5",
           "AT+COPS=3,0", "AT+COPS?", "AT+CNUM", "AT+CLCC", "AT+CHUP", "AT+BLDN", "AT+BINP=1", "AT+BTRH?", "AT+BTRH=1", "ATA", "ATD1234567;", "ATD>1;"]
VALS = {"BRSF": ["1023", "1", "1", "1"], "BAC": ["1", "2", "3", "4"], "CMER": ["3", "0", "0", "1"], "CHLD": ["1", "1", "1", "1"], "BIND": ["1", "2", "3", "4"],
        "BIEV": ["2", "50", "1", "1"], "BIA": ["1", "1", "0", "1"], "VGS": ["7", "1", "1", "1"], "VGM": ["7", "1", "1", "1"], "COPS": ["3", "0", "1", "1"], "NREC": ["0", "1", "1", "1"],
        "VTS": ["5", "1", "1", "1"]}
AT_AG = dict(hf_bits=[0, 1, 2, 3, 4, 5, 6, 7, 8], ag_bits=[0, 1, 2, 3, 5, 6, 7, 8, 9, 10], hf_inds=[1, 2], hf_codecs=[1, 2],
             ag_inds=AG_IND_LISTS[1], ag_hfinds=[1, 2], ag_holds=["0", "1", "1x", "2", "2x"], calls=[1])


def at_universe(ctx):
    """the command lines TLC enumerates from Slc.tla (SpecAt) -> [(code, form, arity)], TLC result"""
    g, res = tlc.dump_graph(ctx.spec("Hfp", "Slc.tla"), ctx.spec("Hfp", "SlcAt.cfg"))
    cmds = sorted({args for _, _, a, args in g.edges if a == "HfEmit"})
    if len(cmds) < 150:
        raise tlc.TlcError(f"the model enumerates only {len(cmds)} command forms")
    return cmds, res


def at_line(code, form, k):
    if code == "A":
        return "ATA"
    if code == "D":
        return "ATD1234567;"
    base = "AT+" + code
    if form == "exec":
        return base
    if form == "read":
        return base + "?"
    if form == "test":
        return base + "=?"
    return base + "=" + ",".join(VALS.get(code, ["1", "1", "1", "1"])[:k])


def gen_at(ctx, rng, quick):
    cmds, res = at_universe(ctx)
    out = []
    for code, form, k in cmds:
        out.append(dict(AT_AG, family="arity", cls="arity-variant", seed=rng.randrange(1 << 30), lines=[at_line(code, form, k)], model=[code, form, k]))
    for line in NATURAL:
        m = re.match(r"AT\+?([A-Z]+?)(=\?|=|\?)?(?=[^A-Z]|$)", line)
        cls = (m.group(1) + (m.group(2) or "")) if line.startswith("AT+") and m else line[:3]
        for pre in ([], ["AT+CMEE=1"]) if (not quick or "CHLD" in line or "CMER" in line) else ([],):
            out.append(dict(AT_AG, family="natural", cls=cls, seed=rng.randrange(1 << 30), lines=pre + [line], pre=len(pre)))
    # without a service level connection first (the AG has not seen AT+BRSF): the discipline holds all the same
    for line in ["AT+CHLD=?", "AT+BIND?", "AT+CIND?", "AT+CMER=3,0,0,1", "AT+BIND=1", "AT+BAC=1,2"]:
        out.append(dict(AT_AG, family="natural", cls="no-slc", seed=rng.randrange(1 << 30), lines=[line], slc_first=False))
    return out, res


def _run_slc(sc):
    from lib import c20_hfp

    return c20_hfp.run_slc(sc)


def _run_at(sc):
    from lib import c20_hfp

    return c20_hfp.run_at(sc)


SLC_SIDE_CLAUSES = ["completed", "feat", "aginds", "agsup", "codecs", "holds", "hfinds", "hfen"]
SLC_SIDE_NAMES = {"completed": "not-completed", "feat": "feature-sets-differ", "aginds": "ag-indicators-differ", "agsup": "ag-indicator-ranges-differ",
                  "codecs": "codecs-differ", "holds": "call-hold-operations-differ", "hfinds": "hf-indicators-differ", "hfen": "hf-indicator-enabled-flags-differ"}
AT_CLAUSES = ["known", "concluded", "outstanding", "isfinal", "probeok", "infocount", "inorder", "cmdargs", "infoexpected", "infoargs"]
AT_NAMES = {"concluded": "no-final-result", "outstanding": "second-final-result", "probeok": "probe-not-answered-ok", "infocount": "information-response-count",
            "inorder": "command-out-of-order", "cmdargs": "command-arguments", "infoexpected": "unexpected-information-response", "infoargs": "information-response-content",
            "isfinal": "not-a-final-result", "known": "unexpected-event"}


def split_slc_trace(tr):
    """one trace per real end: the AT lines + what THAT end holds"""
    lines = [e for e in tr if e["e"] not in ("slc", "quiesce")]
    return [(e["side"], lines + [e, tr[-1]]) for e in tr if e["e"] == "slc"]


def run_hfp(ctx, rep, pool, slc_scen, at_scen, count=True, slc_runner=None, at_runner=None):
    found, at_found = [], []
    spec, cfg = ctx.spec("Hfp", "SlcTrace.tla"), _slc_trace_cfg(ctx)
    res_slc = [slc_runner(sc) for sc in slc_scen] if slc_runner else pool.map(_run_slc, slc_scen, chunksize=4)
    res_at = [at_runner(sc) for sc in at_scen] if at_runner else pool.map(_run_at, at_scen, chunksize=4)
    items = []  # (kind, scenario index, side, trace)
    for si, r in enumerate(res_slc):
        for side, t in split_slc_trace(r["trace"]):
            items.append(("slc", si, side, t))
    for si, r in enumerate(res_at):
        items.append(("at", si, "ag", r["trace"]))
    verdicts, states = _validate(pool, spec, cfg, [x[3] for x in items], "c20slc")
    rep.extra["trace_states"] = rep.extra.get("trace_states", 0) + states
    for i, (kind, si, side, tr) in enumerate(items):
        sc = (slc_scen if kind == "slc" else at_scen)[si]
        v = verdicts[i]
        if count:
            rep.traces += 1
            if kind == "slc":
                key = ("slc", side, sc["ag"], tuple(sc["hf_bits"]), tuple(sc["ag_bits"]), tuple(sc["hf_inds"]), tuple(sc["hf_codecs"]), json.dumps(sc["ag_inds"]), tuple(sc["ag_hfinds"]),
                       tuple(sc["ag_holds"]), json.dumps(sc.get("enabled", {})))
            else:
                key = ("at", tuple(sc["lines"]), sc.get("slc_first", True))
            rep.case(key, nontrivial=len(tr) > 4, sample={"kind": kind, "family": sc["family"], "lines": [e["text"] for e in tr if e["e"] == "at"][:12]} if i in (0, len(items) - 1) else None)
        if v[0] != "REJECT":
            continue
        l = v[1]
        ev = tr[l - 1] if 0 < l <= len(tr) else {"e": "none"}
        info = v[3] if len(v) > 3 and isinstance(v[3], dict) else {}
        why = info.get("why") or {}
        shown = {k: ev.get(k) for k in ("e", "dir", "cls", "code", "text", "side", "done", "bits", "peer", "strs", "sup", "ints", "codecs", "holds", "hfinds", "hfen") if ev.get(k) not in ("", None, [])}
        if kind == "slc" and ev.get("e") == "slc":
            bad = [c for c in SLC_SIDE_CLAUSES if why.get(c) is False] or ["refused"]
            if "completed" in bad:
                bad = ["completed"]
            for c in bad:
                sig = f"hfp:slc:{side}-holds:{SLC_SIDE_NAMES.get(c, c)}" + (":reference-ag" if sc["ag"] == "puppet" else "")
                summary = (f"service level connection HF features bits {sc['hf_bits']} x AG bits {sc['ag_bits']} ({'real AG' if sc['ag'] == 'real' else 'reference AG'}): after the procedure the {side.upper()} holds {shown}; "
                           f"clause {c} fails against configuration {json.dumps({k: tr[0][k] for k in ('hfFeat', 'agFeat', 'hfInds', 'hfCodecs', 'agInds', 'agSup', 'agVals', 'agHfInds', 'agHolds')})} "
                           f"and what the AG reported {info.get('st', {}).get('hfk')}; {res_slc[si]['info']}")
                found.append((sig, summary, {"kind": "slc", "scenario": sc, "side": side, "line": l, "event": ev, "why": why, "state": info.get("st")}))
            continue
        clause = next((c for c in AT_CLAUSES if why.get(c) is False), "refused")
        name = AT_NAMES.get(clause, clause)
        if kind == "slc":
            sig = f"hfp:slc:line:{ev.get('code') or ev.get('e')}:{name}" + (":reference-ag" if sc["ag"] == "puppet" else "")
            summary = (f"service level connection HF bits {sc['hf_bits']} x AG bits {sc['ag_bits']} ({sc['ag']} AG): line {l} {shown} refused: {name}; spec state {info.get('st')}; {res_slc[si]['info']}")
            found.append((sig, summary, {"kind": "slc", "scenario": sc, "side": side, "line": l, "event": ev, "why": why, "state": info.get("st")}))
        else:
            # which command was left without / with a second final result code: the last command before the refused line
            cmd = next((e for e in reversed(tr[: l - 1]) if e["e"] == "at" and e["dir"] == "hf" and e["cls"] == "cmd"), {"text": "?"})
            own = sc["cls"]
            if sc["family"] == "arity":
                code, form, _k = sc["model"]
                own = code + {"exec": "", "read": "?", "test": "=?", "set": "="}[form]
            summary = (f"puppet HF -> real AG: command {cmd['text']!r} ({sc['family']}): line {l} {shown} refused: {name}; lines seen: {[e['text'] for e in tr[-9:] if e['e'] == 'at']}; "
                       f"raised in the AG's reader: {res_at[si]['info'].get('raised')}")
            at_found.append((own, name, summary, {"kind": "at", "scenario": sc, "line": l, "event": ev, "why": why, "state": info.get("st")}))
    # a failing arity variant is filed under the command's own signature when that command also fails in a form an HF
    # legitimately sends (then it is a defect of that command's handler, not of the dispatch of unexpected arities)
    natural = {(own, name) for own, name, _, rp in at_found if rp["scenario"]["family"] == "natural"}
    for own, name, summary, rp in at_found:
        cls = own if (rp["scenario"]["family"] != "arity" or (own, name) in natural) else "arity-variant"
        found.append((f"hfp:ag:at:{cls}:{name}", summary, rp))
    return found, res_slc, res_at


# ============================================================================= driver entry points
def _pool():
    ctx = multiprocessing.get_context("fork")
    return ctx.Pool(min(14, max(2, (os.cpu_count() or 4) - 2)))


def run(ctx, rep):
    rep.rule = ("(M) Dlc.tla / Mux.tla / Slc.tla model-checked (safety; liveness under weak fairness; negative control); (B) real two-device RFCOMM scenarios: one trace per "
                "(data link, direction) validated by DlcTrace.tla, one per scenario by MuxTrace.tla; real HFP service level connections validated by SlcTrace.tla per end; (A) every command "
                "form TLC enumerates from Slc.tla sent by a puppet HF to a real AG; distinct = distinct (parameters, direction, event prefix) / (feature sets, lists) / command line")
    rep.assumptions = [
        "observation at the HCI boundary of each host: a frame is logged when its first ACL fragment leaves the sender's host (at or after the instant RFCOMM decided to send it) and immediately before its last fragment is handed to the receiver's host; a data frame sent without credit is seen unless the credit arrives in between",
        "'negotiated maximum frame size' of a direction = the value the RECEIVER of that direction put in its PN (bumble keeps one value per direction); the credit octet counts against it; the whole frame must also fit the L2CAP MTU the receiver announced",
        "the credit return policy, how writes are cut into frames and in what pieces bytes reach the sink are free (DESIGN Appendix D); byte identity is compared in Python at stream offsets",
        "the application writes only after it holds the DLC object and has installed its sink; a data link is closed only when its traffic has come to rest",
        "final result codes per DESIGN Appendix D; which final result code concludes a command is free; AT lines are logged where they are written to the (separately checked) data link",
        "HF indicator / call hold / AG indicator lists are non-empty where the corresponding feature is on both sides (an AG announcing a feature with an empty list is not a configuration HFP allows)",
    ]
    rng = ctx.rng
    rf = gen_matrix(rng, ctx.quick) + gen_orders(rng, ctx.quick) + gen_interfere(rng, ctx.quick)
    slc = gen_slc(rng, ctx.quick)
    found = []
    with _pool() as pool:
        pending = start_mc(ctx, pool)
        at, at_res = gen_at(ctx, rng, ctx.quick)
        rep.add_mc("Hfp/Slc.tla [SpecAt: command universe]", at_res, {"codes": 27, "forms": 4, "arity": "0..4"})
        frames = 0
        for i in range(0, len(rf), 150):
            f, results = run_rfcomm(ctx, rep, pool, rf[i : i + 150])
            found += f
            frames += sum(sum(l["frames"]) for r in results for l in r["info"].get("links", []))
            del results
        f, _, _ = run_hfp(ctx, rep, pool, slc, at)
        found += f
        collect_mc(rep, pending)
    fam = {}
    for sc in rf + slc + at:
        k = ("rfcomm/" if "script" in sc else "hfp/") + sc["family"]
        fam[k] = fam.get(k, 0) + 1
    rep.extra["scenarios"] = fam
    rep.extra["frames_observed"] = frames
    rep.extra["command_forms_from_model"] = sum(1 for s in at if s["family"] == "arity")
    rep.exhaustive = False
    for sig, summary, replay_ in found:
        rep.violation(sig, summary, replay_)


def replay(ctx, rep):
    r = ctx.replay.get("replay") or {}
    if "kind" not in r:
        print("this violation carries no scenario (a self-test result): re-run ./check C20 --selftest")
        return
    sc = r["scenario"]
    print("scenario:", json.dumps({k: v for k, v in sc.items() if k not in ("script",)})[:1500])
    with _pool() as pool:
        if r["kind"] == "rfcomm":
            print("script:", json.dumps(sc["script"])[:2000])
            found, results = run_rfcomm(ctx, rep, pool, [sc], count=False)
            res = results[0]
            print("links:", json.dumps(res["info"].get("links")), "anomalies:", res["anomalies"], res["loop_errors"])
            tr = res["mux"] if r["trace"] == "mux" else next(t for lk, d, t in res["dlc"] if lk == r["link"] and d == r["dir"])
            for i, e in enumerate(tr[max(0, r["line"] - 14) : r["line"]], start=max(0, r["line"] - 14) + 1):
                print(f"  {i:5d}", {k: v for k, v in e.items() if v not in ("", 0, True, ["", ""], [[], []])})
        elif r["kind"] == "slc":
            found, res_slc, _ = run_hfp(ctx, rep, pool, [sc], [], count=False)
            for e in res_slc[0]["trace"][1:]:
                print("  ", {k: v for k, v in e.items() if v not in ("", [], False) and k not in ("strs",)} if e["e"] == "at" else {k: v for k, v in e.items() if v not in ("", [])})
        else:
            found, _, res_at = run_hfp(ctx, rep, pool, [], [sc], count=False)
            for e in res_at[0]["trace"][1:]:
                print("  ", e["dir"], e["cls"], repr(e["text"]))
            print("raised in the AG's reader:", res_at[0]["info"].get("raised"))
    if not found:
        print("replay: every trace accepted (not reproduced)")
    for sig, summary, rp in found:
        if r["kind"] == "at" and sig.rsplit(":", 1)[1] == ctx.replay["sig"].rsplit(":", 1)[1]:
            sig = ctx.replay["sig"]  # (an arity variant run on its own cannot see whether the command's usual forms fail too)
        print("REJECTED:", sig, "\n  ", summary[:1500])
        rep.violation(sig, summary, rp)


def selftest(ctx, rep):
    from lib import c20_selftest

    c20_selftest.run(ctx, rep)
