"""C07: LE credit-based / enhanced credit-based channels: exact byte stream, credit discipline, progress.

(M) specs/L2cap/LeCoc.tla (one direction of a channel; a channel = two independent instances) is model-checked by
    TLC: ledger conservation, no frame without credit, MPS / MTU bounds, 65535 cap, stream counters, reassembly
    closure, and liveness under weak fairness (everything written is eventually delivered while the receiver
    consumes and returns credits; negative control: without fairness on the credit return the property fails).
(B) real LE connections (lib.rig.Net) with bumble's real ChannelManager / LeCreditBasedChannel on endpoint 0 (server
    and client, LE CoC 0x14 and enhanced 0x17 with several channels per request) against a scripted puppet peer
    (lib.c07_puppet: its own signalling and K-frames, its own CIDs, MTU / MPS / credits, segmentation and credit
    return policies) and against a second real bumble; both hosts are observed at their HCI boundary
    (lib.c07_wire.L2capTap, own ACL reassembly) and one trace per (channel, direction) is validated by TLC against
    specs/L2cap/LeCocTrace.tla.  A refused event is a violated clause of the specification.
"""
from __future__ import annotations

import json
import multiprocessing
import os
import re

from lib import tlc

LEVEL = "model_checking"

MTUS = [23, 24, 64, 247, 65535]
MPSS = [23, 24, 64, 247, 65533]
CREDITS = [1, 2, 7, 255, 65535]
GRANTS = ["each", "batch", "lazy", "bonus", "huge", "rand"]
MC_ACTIONS = ["Write", "SendFirst", "SendNext", "RecvAny", "Grant", "CreditsAny", "SinkSdu"]


# ----------------------------------------------------------------------------- (M) model checking
def _mc_cfg(ctx, name, mtus, mpss, inits, maxc, maxwritten, maxwrite, live, spec="Spec"):
    fmt = lambda s: "{" + ", ".join(map(str, s)) + "}"
    text = (f"SPECIFICATION {spec}\nCONSTANTS\n  Mtus = {fmt(mtus)}\n  MpsS = {fmt(mpss)}\n  Inits = {fmt(inits)}\n"
            f"  MaxCredits = {maxc}\n  MaxWritten = {maxwritten}\n  MaxWrite = {maxwrite}\n  MinSdu = 1\n")
    if live:
        text += "PROPERTY Live\n"
    else:
        text += ("INVARIANT TypeOK\nINVARIANT Inv_Ledger\nINVARIANT Inv_NoOverrun\nINVARIANT Inv_CreditCap\nINVARIANT Inv_Mps\n"
                 "INVARIANT Inv_Mtu\nINVARIANT Inv_Stream\nINVARIANT Inv_Reassembly\n")
    text += "CHECK_DEADLOCK FALSE\n"
    p = os.path.join(ctx.out, name)
    with open(p, "w") as f:
        f.write(text)
    return p


def _mc_job(args):
    spec, cfg, workers, coverage = args
    try:
        return tlc.mc(spec, cfg, workers=workers, coverage=coverage)
    except tlc.TlcError as e:
        # lib.tlc.mc looks for "Temporal properties were violated"; this TLC prints "Temporal property X was violated"
        if re.search(r"Error: Temporal propert(y \w+ was|ies were) violated", str(e)):
            return {"ok": False, "violation": "temporal property", "out": str(e), "coverage": {}, "states": 0, "transitions": 0, "wall_s": 0}
        raise


def model_check(ctx, rep, pool):
    """Returns async results to be collected later (TLC runs in parallel with the scenarios)."""
    spec = ctx.spec("L2cap", "LeCoc.tla")
    if ctx.quick:
        runs = [
            ("safety", dict(mtus=[2, 3], mpss=[2, 3, 4], inits=[0, 1, 2, 3], maxc=3, maxwritten=6, maxwrite=5, live=False), 4),
            ("liveness", dict(mtus=[1, 2], mpss=[2, 3], inits=[0, 1, 2], maxc=2, maxwritten=3, maxwrite=2, live=True), 1),
            ("liveness-control", dict(mtus=[2], mpss=[3], inits=[1], maxc=2, maxwritten=2, maxwrite=2, live=True, spec="SpecNoGrantFairness"), 1),
        ]
    else:
        runs = [
            ("safety", dict(mtus=[1, 2, 3], mpss=[2, 3, 4, 5], inits=[0, 1, 2, 4], maxc=4, maxwritten=7, maxwrite=7, live=False), 6),
            ("liveness", dict(mtus=[2, 3], mpss=[2, 3, 4], inits=[0, 1, 2, 3], maxc=3, maxwritten=4, maxwrite=3, live=True), 1),
            ("liveness-control", dict(mtus=[2], mpss=[3], inits=[1], maxc=2, maxwritten=2, maxwrite=2, live=True, spec="SpecNoGrantFairness"), 1),
        ]
    pending = []
    for name, kw, workers in runs:
        cfg = _mc_cfg(ctx, f"lecoc_{name}.cfg", **kw)
        # (no coverage statistics for the control run: keeps TLC's error text within what lib.tlc reports)
        pending.append((name, kw, pool.apply_async(_mc_job, ((spec, cfg, workers, name != "liveness-control"),))))
    return pending


def collect_mc(rep, pending):
    for name, kw, ar in pending:
        res = ar.get()
        if name == "liveness-control":
            if res["violation"] != "temporal property":
                raise tlc.TlcError("negative control: Live is NOT violated when the receiver need not return credits; the liveness check is vacuous")
            continue
        if res["violation"]:
            raise tlc.TlcError(f"LeCoc.tla ({name}) violates {res['violation']} in the model itself:\n{res['out'][-2500:]}")
        tlc.require_actions(res, MC_ACTIONS, f"LeCoc {name}")
        rep.add_mc(f"L2cap/LeCoc.tla [{name}]", res, {k: v for k, v in kw.items()})


# ----------------------------------------------------------------------------- scenario generation
def _sizes(rng, mtu, mps, budget, n):
    """write sizes from 1 byte to several MTUs of the receiver, biased to the MPS / MTU boundaries"""
    cand = [1, 2, 3, mps - 3, mps - 2, mps - 1, mps, mps + 1, 2 * mps - 2, 2 * mps, mtu - 2, mtu - 1, mtu, mtu + 1, mtu + mps,
            2 * mtu, 2 * mtu + 1, 3 * mtu + 7]
    cand = [c for c in cand if c >= 1]
    out = []
    for _ in range(n):
        c = rng.choice(cand)
        c = min(c, budget)
        if c < 1:
            break
        budget -= c
        out.append(c)
    return out


def _plan(rng, sizes):
    return [[rng.choice([0, 0, 0.001, 0.05, 0.7, 3.0]), s] for s in sizes]


def _cids(rng, rel, n):
    if rel == "same":
        return [0x40 + i for i in range(n)]
    if rel == "swap":  # the same set as bumble's allocation, in another order
        c = [0x40 + i for i in range(n)]
        return c[1:] + c[:1]
    if rel == "shift":  # overlaps bumble's allocation, off by one
        return [0x41 + i for i in range(n)]
    if rel == "high":
        return [0x7F - i for i in range(n)]
    return rng.sample(range(0x48, 0x80), n)  # "diff"


def gen_matrix(rng, n, peer, budget=6000):
    """Random scenarios; every value of every parameter set is used (round-robin decks), the combination is random."""
    decks = {}

    def draw(name, values):
        d = decks.get(name)
        if not d:
            d = list(values)
            rng.shuffle(d)
            decks[name] = d
        return d.pop()

    out = []
    for i in range(n):
        mode = draw("mode", ["le", "ecred", "ecred"])
        role = draw("role", ["server", "client"])
        nch = 1 if mode == "le" else draw("nch", [1, 2, 2, 3, 5])
        rel = draw("rel", ["same", "diff", "diff", "swap", "shift", "high"]) if peer == "puppet" else "n/a"
        if rel == "swap" and nch == 1:
            rel = "diff"
        p0 = dict(mtu=draw("mtu0", MTUS), mps=draw("mps0", MPSS), credits=draw("cr0", CREDITS))
        p1 = dict(mtu=draw("mtu1", MTUS), mps=draw("mps1", MPSS), credits=draw("cr1", CREDITS))
        writes, grant, seg = [], [], []
        per = max(200, budget // nch)
        for c in range(nch):
            # direction 0: endpoint 0 writes, bounded by endpoint 1's MTU/MPS; direction 1 the other way round
            b0 = min(per, 40 * p1["mps"] * min(p1["credits"], 8))
            b1 = min(per, 40 * p0["mps"] * min(p0["credits"], 8))
            w0 = _plan(rng, _sizes(rng, p1["mtu"], p1["mps"], b0, rng.randint(1, 6)))
            w1 = _plan(rng, _sizes(rng, p0["mtu"], p0["mps"], b1, rng.randint(1, 6)))
            if rng.random() < 0.12:
                (w0 if rng.random() < 0.5 else w1).clear()
            writes.append([w0, w1])
            g = {"policy": draw("grant", GRANTS), "batch": rng.choice([2, 3, 5]), "delay": rng.choice([0, 0, 0.3, 2.0]),
                 "bonus": rng.choice([1, 3, 9, 300]), "top": rng.choice([1, 4, 40])}
            grant.append(g)
            seg.append({"sdu": draw("sdu", ["max", "write", "rand"]), "frame": draw("frame", ["max", "rand", "hdr", "small"])})
        sc = dict(family="matrix", cls=("peer-bumble" if peer == "bumble" else ("same-cid" if rel == "same" else "diff-cid")),
                  peer=peer, role=role, mode=mode, nch=nch, central=draw("central", [0, 1]), seed=rng.randrange(1 << 30),
                  hci_delay=draw("delay", [0.0, 0.0, 0.004, 0.05, 0.6]), acl_len=draw("acl", [27, 27, 64, 251, 1021]),
                  acl_bufs=draw("bufs", [64, 64, 3, 1]), p0=p0, p1=p1, cidrel=rel, cids=_cids(rng, rel, nch) if peer == "puppet" else [],
                  writes=writes, grant=grant, seg=seg)
        out.append(sc)
    return out


def _base(rng, **kw):
    sc = dict(family="x", cls="x", peer="puppet", role="server", mode="le", nch=1, central=0, seed=rng.randrange(1 << 30), hci_delay=0.0,
              acl_len=27, acl_bufs=64, p0=dict(mtu=64, mps=23, credits=2), p1=dict(mtu=247, mps=64, credits=7), cidrel="same",
              cids=[0x40, 0x41, 0x42, 0x43, 0x44], writes=[[[], []] for _ in range(5)], grant=[{"policy": "each"} for _ in range(5)],
              seg=[{"sdu": "max", "frame": "max"} for _ in range(5)])
    sc.update(kw)
    return sc


def gen_special(rng, quick):
    out = []
    # empty writes on the bumble side: alone, between data, and while bumble has no credit left
    for role in ("server", "client"):
        for mode in ("le", "ecred"):
            out.append(_base(rng, family="empty-write", cls="empty-write", role=role, mode=mode,
                             writes=[[[[0, 0]], []]] + [[[], []]] * 4))
            out.append(_base(rng, family="empty-write", cls="empty-write", role=role, mode=mode,
                             writes=[[[[0, 5], [0, 0], [0.5, 9], [0, 0]], [[0, 3]]]] + [[[], []]] * 4))
            out.append(_base(rng, family="empty-write", cls="empty-write", role=role, mode=mode, p1=dict(mtu=23, mps=23, credits=1),
                             grant=[{"policy": "lazy", "delay": 2.0, "top": 1}] * 5,
                             writes=[[[[0, 23], [0, 0], [8.0, 4]], []]] + [[[], []]] * 4))
    # the puppet sends an empty SDU (legal: SDU length 0) before / between data
    for role in ("server", "client"):
        out.append(_base(rng, family="empty-sdu", cls="empty-sdu", role=role, seg=[{"sdu": "write", "frame": "max"}] * 5,
                         writes=[[[[0, 4]], [[0, 3], [0, 0], [0.5, 70], [0, 1]]]] + [[[], []]] * 4))
    # credits granted by the puppet immediately after its connection response (no delay between the two packets)
    for mode in ("le", "ecred"):
        for early in (1, 9):
            for delay in (0.0, 0.02):
                out.append(_base(rng, family="early-grant", cls="early-grant", role="client", mode=mode, nch=1 if mode == "le" else 2,
                                 hci_delay=delay, early_grant=early, p1=dict(mtu=64, mps=23, credits=1),
                                 grant=[{"policy": "lazy", "top": 2}] * 5,
                                 writes=[[[[0, 200]], [[0, 10]]], [[[0.1, 150]], []]] + [[[], []]] * 3))
    # the puppet opens with ZERO initial credits and grants the first ones later
    for role in ("server", "client"):
        for mode in ("le", "ecred"):
            out.append(_base(rng, family="zero-initial", cls="zero-initial", role=role, mode=mode, nch=1 if mode == "le" else 2,
                             hci_delay=0.01, p1=dict(mtu=64, mps=24, credits=0), cidrel="diff", cids=[0x70, 0x6F, 0x6E, 0x6D, 0x6C],
                             grant=[{"policy": "batch", "batch": 2, "kick": 2, "kick_delay": 0.4}] * 5,
                             writes=[[[[0, 100], [1.0, 30]], [[0, 10]]], [[[0, 64]], []]] + [[[], []]] * 3))
    # bumble closes an idle channel while a sibling with other identifiers on the two sides keeps transferring in both
    # directions over many credit rounds (credit routing is per channel identifier)
    for role in ("server", "client"):
        for rel in ("swap", "shift", "same", "diff"):
            for nch in (2, 3):
                idle = [[[], []]]
                busy = [[[[0, 40], [1.0, 300], [2.0, 300]], [[0, 30], [1.5, 200], [2.5, 100]]]]
                out.append(_base(rng, family="close-sibling", cls="close-sibling", role=role, mode="ecred", nch=nch, hci_delay=0.01,
                                 p0=dict(mtu=64, mps=23, credits=2), p1=dict(mtu=64, mps=23, credits=2), cidrel=rel, cids=_cids(rng, rel, nch),
                                 grant=[{"policy": "each"}] * 5, close=[{"ch": 0, "at": 0.5}],
                                 writes=idle + busy * (nch - 1) + [[[], []]] * (5 - nch)))
    # write, await drain(), disconnect: credits run out in the middle of the last SDU and come back late; everything
    # written before the drain must still arrive
    for role in ("server", "client"):
        for mode in ("le", "ecred"):
            for credits, mps, size, gdelay in ((2, 50, 200, 2.0), (1, 23, 60, 0.5), (3, 64, 64 * 3 + 10, 1.0), (2, 50, 98, 2.0)):
                out.append(_base(rng, family="drain-close", cls="drain-close", role=role, mode=mode, nch=1, hci_delay=0.01,
                                 p1=dict(mtu=512, mps=mps, credits=credits), cidrel="diff", cids=[0x5A, 0x5B, 0x5C, 0x5D, 0x5E],
                                 grant=[{"policy": "lazy", "delay": gdelay, "top": credits}] * 5,
                                 drain_close=[{"ch": 0, "plan": [[0, size]]}], writes=[[[], []]] * 5))
    # maximal MTU / MPS with writes of several MTUs
    big = [(1021, 3, 2, 200000)] if quick else [(1021, 3, 2, 200000), (27, 1, 7, 140000), (251, 255, 1, 70000)]
    for acl, c0, c1, size in big:
        for role in ("server", "client"):
            out.append(_base(rng, family="big", cls="big", role=role, acl_len=acl, p0=dict(mtu=65535, mps=65533, credits=c0),
                             p1=dict(mtu=65535, mps=65533, credits=c1), cidrel="diff", cids=[0x60, 0x61, 0x62, 0x63, 0x64],
                             writes=[[[[0, size], [0, 1]], [[0, size - 65535], [0.2, 65536]]]] + [[[], []]] * 4))
    # 65535-credit ledgers: the receiver's returns must never make the sender hold more than 65535
    out.append(_base(rng, family="credit-cap", cls="credit-cap", role="server", p0=dict(mtu=23, mps=23, credits=65535),
                     seg=[{"sdu": "max", "frame": "one"}] * 5, writes=[[[], [[0, 31740]]]] + [[[], []]] * 4))  # 1380 SDUs x 24 frames
    # a sender that holds the maximum: initial credits exactly 65535 (and the pair 65534) with a receiver that returns
    # credits frame by frame ("each": every return takes the sender back to at most the initial value, the last one of
    # a burst to EXACTLY 65535) or tops the sender up to exactly 65535 in one packet ("huge").  Being topped up to 65535
    # is legal (CapOk), the channel must stay open and the writes after the pause must arrive.  Both peers, both
    # roles, LE CoC and enhanced CoC; against a second bumble its receiving side returns one credit per frame too
    for peer in ("puppet", "bumble"):
        for role in ("server", "client"):
            for mode in ("le", "ecred"):
                for credits, policy in ((65535, "each"), (65534, "each"), (65534, "huge"), (65535, "huge")):
                    if peer == "bumble" and policy == "huge":
                        continue
                    nch = 1 if mode == "le" else 2
                    w = [[[0, 10], [0, 100], [3.0, 40], [0.5, 1]], [[0.2, 30], [4.0, 50], [0, 7]]]
                    out.append(_base(rng, family="credit-top", cls="credit-top", peer=peer, role=role, mode=mode, nch=nch,
                                     hci_delay=rng.choice([0.0, 0.01]), rx_each=True,
                                     p0=dict(mtu=64, mps=23, credits=credits if peer == "bumble" or policy == "huge" else 7),
                                     p1=dict(mtu=64, mps=23, credits=credits), cidrel="diff", cids=[0x66, 0x65, 0x64, 0x63, 0x62],
                                     grant=[{"policy": policy}] * 5, writes=[w] * nch + [[[], []]] * (5 - nch)))
    if not quick:
        out.append(_base(rng, family="credit-cap", cls="credit-cap", role="client", mode="ecred", nch=1, p0=dict(mtu=64, mps=64, credits=65535),
                         cidrel="diff", cids=[0x55], seg=[{"sdu": "rand", "frame": "small"}] * 5, writes=[[[[0, 9]], [[0, 100000]]]] + [[[], []]] * 4))
    return out


# ----------------------------------------------------------------------------- running + validating
def _run_one(sc):
    from lib import c07_scen

    r = c07_scen.run_scenario(sc)
    return {"traces": r.traces, "chans": r.chans, "anomalies": r.anomalies, "strays": r.strays, "refused": r.refused, "info": r.info}


def _trace_cfg(ctx):
    p = os.path.join(ctx.out, "lecoc_trace.cfg")
    with open(p, "w") as f:
        f.write("SPECIFICATION TraceSpec\nCONSTANTS\n  Mtus = {0}\n  MpsS = {0}\n  Inits = {0}\n  MaxCredits = 65535\n"
                "  MaxWritten = 1000000000\n  MaxWrite = 0\n  MinSdu = 0\n"
                # only the O(1) invariants: the others are implied by the guards (model-checked on the same actions) and are
                # recursive / linear in the number of frames in flight, which reaches thousands with 65535-credit grants
                "INVARIANT Inv_NoOverrun\nINVARIANT Inv_CreditCap\nCHECK_DEADLOCK FALSE\n")
    return p


def _batch_job(args):
    spec, cfg, traces, tag = args
    r = tlc.trace_batch(spec, cfg, traces, tag=tag)
    return {"verdicts": r["verdicts"], "states": r["states"], "transitions": r["transitions"]}


CLAUSES = {"send": ["credit", "mps", "mtu", "written", "shape"], "recv": ["fifo"], "credit": ["fifo"], "grant": ["cap"],
           "sink": ["bytes", "have"], "close": ["asked"], "quiesce": ["alldelivered", "drained"]}
NAMES = {"credit": "without-credit", "mps": "above-peer-mps", "mtu": "sdu-above-peer-mtu", "written": "bytes-never-written",
         "shape": "sdu-framing", "fifo": "lost-or-reordered", "cap": "above-65535", "bytes": "bytes-differ", "have": "bytes-not-received",
         "drained": "drain-blocked", "asked": "unprovoked-disconnect"}


def classify(ev, info, sc, d):
    """-> (actor endpoint, clause name).  actor = the endpoint whose obligation the refused event breaks."""
    e = ev.get("e")
    why = (info or {}).get("why", {})
    st = (info or {}).get("st", {})
    sender, receiver = d, 1 - d
    if e in ("stray", "raise"):
        return sender, e
    clause = next((c for c in CLAUSES.get(e, []) if why.get(c) is False), None)
    if clause is None:
        return sender, "refused"
    if e == "close":
        # a Disconnection Request that no application asked for, on a channel whose peer did nothing the specification
        # refuses (the trace was accepted so far): the endpoint that sent the request broke the promise of progress
        return (sender if ev.get("first") else receiver), NAMES[clause]
    if clause == "alldelivered":
        unsent = st.get("written", 0) > st.get("packed", 0) or st.get("sduLeft", 0) > 0
        if unsent and st.get("cr", 0) > 0:
            return sender, "stalled-holding-credits"
        if unsent:
            return receiver, "no-credits-returned"
        if st.get("inflight", 0) > 0:
            return receiver, "frames-never-arrived"
        return receiver, "received-not-delivered"
    actor = {"send": sender, "recv": receiver, "credit": sender, "grant": receiver, "sink": receiver, "quiesce": sender}[e]
    if sc["peer"] == "puppet" and e in ("sink", "recv", "credit"):
        # the puppet is the reference receiver / the link is not the puppet's: what differs was sent (or lost) by bumble
        actor = 0
    return actor, NAMES.get(clause, clause)


def run_scenarios(ctx, rep, scenarios, pool, channel_patch=None, count=True):
    """Run the scenarios, validate all traces; returns list of (sig, summary, replay) for rejected traces."""
    spec = ctx.spec("L2cap", "LeCocTrace.tla")
    cfg = _trace_cfg(ctx)
    if channel_patch is not None:
        from lib import c07_scen

        results = []
        for sc in scenarios:
            r = c07_scen.run_scenario(sc, channel_patch=channel_patch)
            results.append({"traces": r.traces, "chans": r.chans, "anomalies": r.anomalies, "strays": r.strays, "refused": r.refused, "info": r.info})
    else:
        results = pool.map(_run_one, scenarios, chunksize=1)
    flat = []  # (scenario index, chan, dir, events)
    for si, r in enumerate(results):
        for ci, d, tr in r["traces"]:
            flat.append((si, ci, d, tr))
    # batches of bounded size, validated in parallel
    batches, cur, cur_n = [], [], 0
    for item in flat:
        cur.append(item)
        cur_n += len(item[3])
        if cur_n >= 40000:
            batches.append(cur)
            cur, cur_n = [], 0
    if cur:
        batches.append(cur)
    jobs = [(spec, cfg, [it[3] for it in b], f"c07-{i}") for i, b in enumerate(batches)]
    outs = pool.map(_batch_job, jobs, chunksize=1)
    found = []
    puppet_fault = []
    bumble_fault = set()
    rejected = {}  # (scenario, channel) -> [(actor, event name)] of every rejected trace of that channel
    closes = []  # (index in found, scenario, channel, actor) of the unprovoked-disconnect findings
    for b, o in zip(batches, outs):
        rep.extra["trace_states"] = rep.extra.get("trace_states", 0) + o["states"]
        for tid, v in o["verdicts"].items():
            si, ci, d, tr = b[tid - 1]
            sc = scenarios[si]
            r = results[si]
            if count:
                rep.traces += 1
                key = (sc["peer"], sc["role"], sc["mode"], sc.get("cidrel"), tuple(r["chans"][ci]["params"][1 - d]), d,
                       tuple((e["e"], e["n"]) for e in tr[1:40]))
                rep.case(key, nontrivial=len(tr) > 3,
                         sample={"scenario": {k: sc[k] for k in ("family", "peer", "role", "mode", "nch", "cidrel", "p0", "p1")},
                                 "chan": r["chans"][ci], "dir": d, "events": len(tr), "head": tr[:6]} if tid == 1 else None)
            if v[0] == "REJECT":
                l = v[1]
                ev = tr[l - 1] if 0 < l <= len(tr) else {"e": "none"}
                info = v[3] if len(v) > 3 and isinstance(v[3], dict) else {}
                actor, clause = classify(ev, info, sc, d)
                if ev["e"] == "raise" and r["anomalies"]:
                    clause = r["anomalies"][0][2]
                rejected.setdefault((si, ci), []).append((actor, ev["e"]))
                if sc["peer"] == "puppet" and actor == 1:
                    # the reference peer appears to break the specification.  If bumble broke it in the same scenario
                    # (another channel or direction of this run is rejected with bumble as the actor) this is a
                    # consequence - e.g. channels paired with the wrong peer identifiers make the puppet's own
                    # direction look stalled; only when nothing else is wrong in that scenario it is a harness bug
                    puppet_fault.append((si, f"({ev} clause {clause}) in scenario {json.dumps(sc)[:600]}"))
                    continue
                actor_role = sc["role"] if actor == 0 else ("client" if sc["role"] == "server" else "server")
                sig = f"lecoc:{sc['cls']}:{sc['mode']}:{actor_role}:{ev['e']}:{clause}"
                what = [a[1] for a in r["anomalies"]] + [s[1] for s in r["strays"]]
                summary = (f"{sc['mode']} channel, bumble as {actor_role}, peer {sc['peer']} (cids bumble/peer {r['chans'][ci]['cids']}, receiver of this direction announced "
                           f"mtu/mps/credits {r['chans'][ci]['params'][1 - d]}): direction {'0->1' if d == 0 else '1->0'} event {l} {ev} refused: {clause}; "
                           f"spec state {info.get('st')}" + (f"; observed: {what[:3]}" if what else ""))
                if ev["e"] == "close":
                    closes.append((len(found), si, ci, actor))
                found.append((sig, summary, {"scenario": sc, "chan": ci, "dir": d, "line": l, "event": ev, "why": info.get("why"), "state": info.get("st")}))
                bumble_fault.add(si)
    # a stack may disconnect a channel whose PEER broke the protocol: when the other direction of the same channel is
    # rejected at an earlier kind of event with the other endpoint as the actor, the disconnection is its consequence
    provoked = {i for i, si, ci, actor in closes if any(a != actor and e not in ("close", "quiesce") for a, e in rejected.get((si, ci), []))}
    found = [f for i, f in enumerate(found) if i not in provoked]
    for si, msg in puppet_fault:
        if si not in bumble_fault:
            raise RuntimeError(f"harness: the puppet itself breaks the specification {msg}")
    return found, results


def _pool():
    ctx = multiprocessing.get_context("fork")
    return ctx.Pool(min(14, max(2, (os.cpu_count() or 4) - 2)))


def run(ctx, rep):
    rep.rule = ("(M) LeCoc.tla model-checked (safety invariants; liveness under weak fairness; negative control without credit-return fairness); "
                "(B) one trace per (channel, direction) of seeded real-stack scenarios (bumble vs puppet peer, bumble vs bumble) validated by "
                "LeCocTrace.tla; distinct = distinct (roles, mode, cid relation, receiver parameters, direction, event prefix)")
    rep.assumptions = [
        "observation at the HCI boundary of each host: a K-frame is logged when its first ACL fragment leaves the host (at or after the instant L2CAP decided to send it); credits are logged when they reach the host; so a frame sent without credit is seen unless the credit arrives in between",
        "the virtual controller's receive path is replaced by a fragmenting one in the rig (a K-frame of maximal MPS does not fit one HCI ACL packet; C05)",
        "the peer writes data only after the bumble application holds its channel object and has installed its sink",
        "credit return policy and SDU / frame cutting are free (DESIGN Appendix D); byte identity is compared in Python at stream offsets",
    ]
    rng = ctx.rng
    n_p, n_b = (260, 70) if ctx.quick else (6000, 1500)
    scenarios = gen_special(rng, ctx.quick) + gen_matrix(rng, n_p, "puppet") + gen_matrix(rng, n_b, "bumble")
    fam = {}
    frames = 0
    found = []
    with _pool() as pool:
        pending = model_check(ctx, rep, pool)
        # in chunks, so that the traces of a thorough run (millions of events) never sit in memory together
        for i in range(0, len(scenarios), 500):
            f, results = run_scenarios(ctx, rep, scenarios[i : i + 500], pool)
            found += f
            frames += sum(sum(c["frames"]) for r in results for c in r["chans"])
            del results
        collect_mc(rep, pending)
    for sc in scenarios:
        fam[sc["family"] + "/" + sc["peer"]] = fam.get(sc["family"] + "/" + sc["peer"], 0) + 1
    rep.extra["scenarios"] = fam
    rep.extra["frames_observed"] = frames
    rep.exhaustive = False
    for sig, summary, replay in found:
        rep.violation(sig, summary, replay)


def replay(ctx, rep):
    r = ctx.replay["replay"]
    sc = r["scenario"]
    print("scenario:", json.dumps({k: v for k, v in sc.items() if k not in ("writes", "grant", "seg")}))
    with _pool() as pool:
        found, results = run_scenarios(ctx, rep, [sc], pool, count=False)
    res = results[0]
    print("channels:", res["chans"])
    print("anomalies:", res["anomalies"], "strays:", res["strays"])
    for ci, d, tr in res["traces"]:
        if ci == r["chan"] and d == r["dir"]:
            lo = max(0, r["line"] - 12)
            for i, e in enumerate(tr[lo : r["line"]], start=lo + 1):
                print(f"  {i:5d} {e['e']:8s} n={e['n']} k={e['k']} first={e['first']} ok={e['ok']}")
    if not found:
        print("replay: every trace accepted (not reproduced)")
    for sig, summary, rp in found:
        print("REJECTED:", sig, "\n  ", summary)
        rep.violation(sig, summary, rp)


def selftest(ctx, rep):
    """Binding self-test: documented misbehaving shims around the real channel object and corrupted traces must be flagged."""
    rng = ctx.rng
    results = {}

    def shim_no_credit_check(channel):  # sends a frame although it holds no credit
        orig = channel.process_output

        def po():
            if channel.credits == 0 and (channel.out_queue or channel.out_sdu):
                channel.credits = 1
            orig()

        channel.process_output = po

    def shim_own_mps(channel):  # cuts frames one byte above the peer's MPS
        channel.peer_mps = channel.peer_mps + 1

    def shim_own_mtu(channel):  # builds SDUs one byte above the peer's MTU
        channel.peer_mtu = channel.peer_mtu + 1

    def shim_flip_byte(channel):  # corrupts one byte of what it is asked to write
        orig = channel.write

        def wr(data):
            if len(data) > 3:
                data = data[:3] + bytes([data[3] ^ 1]) + data[4:]
            orig(data)

        channel.write = wr

    def shim_drop_credits(channel):  # ignores the credits it is given
        channel.on_credits = lambda credits: None

    def shim_no_return(channel):  # never returns credits
        channel.peer_credits_threshold = -1

    def shim_swallow(channel):  # does not deliver every 3rd SDU
        inner = channel.sink
        state = {"n": 0}

        def sink(data):
            state["n"] += 1
            if state["n"] % 3:
                inner(data)

        channel.sink = sink

    def shim_reorder(channel):  # delivers SDUs pairwise swapped
        inner = channel.sink
        held = []

        def sink(data):
            held.append(data)
            if len(held) == 2:
                inner(held.pop())
                inner(held.pop())

        channel.sink = sink

    shims = {"no-credit-check": shim_no_credit_check, "own-mps": shim_own_mps, "own-mtu": shim_own_mtu, "flip-byte": shim_flip_byte,
             "drop-credits": shim_drop_credits, "no-credit-return": shim_no_return, "swallow-sdu": shim_swallow, "reorder-sdu": shim_reorder}
    scen = [s for s in gen_matrix(rng, 24, "puppet") if s["mode"] == "le" or s["cidrel"] == "same"]
    for s in scen:  # keep the known CID defect out of the way: shims must be what is caught
        s["cidrel"], s["cids"], s["cls"] = "same", [0x40 + i for i in range(s["nch"])], "same-cid"
    with _pool() as pool:
        for name, shim in shims.items():
            r2 = type(rep)(rep.prop, rep.level)
            found, _ = run_scenarios(ctx, r2, scen, pool, channel_patch=shim, count=False)
            results[name] = sorted({f[0].split(":", 2)[2] for f in found})
        # corrupted traces: take accepted traces of the unmodified stack and damage them
        found, res = run_scenarios(ctx, type(rep)(rep.prop, rep.level), scen, pool, count=False)
        bad_sc = {id(f[2]["scenario"]) for f in found}
        good = [tr for sc, r in zip(scen, res) if id(sc) not in bad_sc for _, _, tr in r["traces"] if len(tr) > 8]
        damaged = []
        kinds = []
        for tr in good[:40]:
            idx = [i for i, e in enumerate(tr) if e["e"] == "send"]
            if not idx:
                continue
            t1 = [dict(e) for e in tr]
            del t1[idx[0]]
            damaged.append(t1)
            kinds.append("drop-send")
            t2 = [dict(e) for e in tr]
            t2[idx[-1]]["n"] += 1
            damaged.append(t2)
            kinds.append("longer-frame")
            gi = [i for i, e in enumerate(tr) if e["e"] == "credit"]
            if gi:
                t3 = [dict(e) for e in tr]
                t3[gi[0]]["n"] += 1
                damaged.append(t3)
                kinds.append("credit-amount")
            si = [i for i, e in enumerate(tr) if e["e"] == "sink"]
            if si:
                t4 = [dict(e) for e in tr]
                t4[si[0]]["ok"] = False
                damaged.append(t4)
                kinds.append("sink-bytes")
        out = tlc.trace_batch(ctx.spec("L2cap", "LeCocTrace.tla"), _trace_cfg(ctx), damaged)
        missed = [kinds[t - 1] for t, v in out["verdicts"].items() if v[0] == "ACCEPT"]
        results["damaged-traces"] = [f"{len(damaged) - len(missed)}/{len(damaged)} rejected"]
        if missed or not damaged:
            rep.violation("selftest:damaged-trace-accepted", f"damaged traces accepted: {sorted(set(missed))} (of {len(damaged)})")
    print("selftest:", json.dumps(results, indent=1))
    for k in shims:
        if not results[k]:
            rep.violation(f"selftest:{k}", f"binding self-test: shim {k} was not detected")
