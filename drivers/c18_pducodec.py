"""C18: every protocol data unit above HCI round-trips through its codec.

(M) specs/Pdu/PduMC.tla: TLC checks inside the model Par(Ser(v)) = v, well-formedness and the layout facts of
    the encodings with case analysis (ERTM control fields, SDP size forms and nesting, RFCOMM length / credit /
    FCS, MCC, PN, MSC, AVDTP / AVCTP / AV/C / RTP headers, AD structures, UUID widths) over boundary values
    and boundary lengths.
(B1) classes that use the generic field codec (L2CAP signalling, ATT, SMP, SDP PDUs, AVDTP messages, AVRCP
    commands / responses / events / items) are found in the live registries and exercised like C01; events are
    validated by TLC against specs/Hci/CodecTrace.tla.
(B2) the hand-written codecs are driven from boundary vectors in both directions; every serialisation / parse
    is an event validated by TLC against specs/Pdu/PduTrace.tla.
(B3) process histories (same inputs, different orders, the process-wide UUID registry reset in between) are
    validated by specs/Pdu/Statelessness.tla: equal input => equal result in every history.
(R)  classes with hand-written codecs and no layout in the spec (typed AD structures, A2DP codec information,
    AVDTP capabilities, hand-parsed AVRCP responses, addresses) are checked relationally only and counted
    separately.
"""
from __future__ import annotations

import os

from lib import c01_codec as cc
from lib import c01_engine as eng
from lib import c01_pdu as pdu
from lib import tlc

LEVEL = "model_checking"
MC_ACTIONS = ["ChkEcfI", "ChkEcfS", "ChkBasic", "ChkSdpLeaf", "ChkSdpWide", "ChkSdpText", "ChkSdpNest", "ChkSdpSeq", "ChkSdpMixed", "ChkSdpForms", "ChkRfc", "ChkMcc", "ChkPn", "ChkMsc",
              "ChkAvdtp", "ChkAvctp", "ChkAvc", "ChkPass", "ChkVendor", "ChkRtp", "ChkAd", "ChkAdPad", "ChkUuid"]


def model_check(ctx, rep):
    cfg = os.path.join(ctx.out, "pdu_mc.cfg")
    consts = {"MaxNest": 4 if ctx.quick else 8, "BigLens": not ctx.quick}
    with open(cfg, "w") as f:
        f.write(f"SPECIFICATION Spec\nCONSTANTS\n  MaxNest = {consts['MaxNest']}\n  BigLens = {'TRUE' if consts['BigLens'] else 'FALSE'}\nINVARIANT RoundTrip\nCHECK_DEADLOCK FALSE\n")
    res = cc.mc_with_actions(ctx.spec("Pdu", "PduMC.tla"), cfg)
    if res["violation"]:
        raise tlc.TlcError(f"PduMC.tla violates {res['violation']} in the model itself:\n{res['out'][-2000:]}")
    tlc.require_actions(res, MC_ACTIONS, "PduMC")
    rep.add_mc("Pdu/PduMC.tla", res, consts)


def _sig_pdu(ev, w, want):
    m = ev["_meta"]
    e = ev["e"]
    clause = {"bytes": "ser", "values": "par", "reserialised": "reserialise"}[w]
    detail = ""
    what = m.get("cls", e)
    if e == "smplayout":
        return (f"smp:layout:{what}", f"{what} [{m.get('tag')}] declares parameter widths {ev['widths']}, the Security Manager format is {list(want.get('widths', ())) if isinstance(want, dict) else want}")
    if e == "avdtp":
        if w == "bytes":
            detail = f"packets written {[bytes(p).hex()[:40] for p in ev['pdus']]} are not a legal cut of the message (header / packet count / content)"
            what = "signalling-header"
        else:
            detail = f"assembler delivered {ev['m']}, spec {want}"
            what = "assembler"
    elif w == "bytes":
        wb = list(want.get("bytes", ())) if isinstance(want, dict) else []
        i = cc.first_diff(ev["bytes"], wb)
        detail = f"bytes = {cc.hexs(ev['bytes'])[:120]}, spec {cc.hexs(wb)[:120]} (first difference at offset {i})"
        what = _where(e, ev, i, what)
    elif w == "values":
        wr = want.get("r") if isinstance(want, dict) else None
        bad = []
        if isinstance(wr, dict) and isinstance(ev["r"], dict):
            bad = sorted(k for k in ev["r"] if k in wr and eng._norm(wr[k]) != eng._norm(ev["r"][k]))
        detail = f"parsing {cc.hexs(ev['bytes'])[:120]} gave " + (", ".join(f"{k}={str(ev['r'][k])[:60]} (spec {str(wr[k])[:60]})" for k in bad) if bad else f"{str(ev['r'])[:200]}, spec {str(wr)[:200]}")
        what = what + (":" + ",".join(bad) if bad else "")
    else:
        i = cc.first_diff(ev["again"], ev["bytes"])
        detail = f"parsed {cc.hexs(ev['bytes'])[:120]}, re-serialised {cc.hexs(ev['again'])[:120]} (first difference at offset {i})"
        what = _where(e, ev, i, what)
    return f"{m.get('ns', e)}:{clause}:{what}", f"{m.get('cls')} [{m.get('tag')}]: {detail}"


def _where(e, ev, i, what):
    """name the part of the layout the first differing offset falls in (stable across inputs)"""
    if i is None:
        return what
    if e == "rfc":
        n = len(ev["bytes"])
        return what + (":address/control" if i < 2 else ":length" if i < 3 + (0 if (len(ev["bytes"]) > 2 and ev["bytes"][2] & 1) else 1) else ":fcs" if i >= n - 1 else ":information")
    if e == "ecf":
        return what + f":octet{i}"
    if e == "mcc":
        return what + (":type" if i == 0 else ":length" if i < 3 else ":value")
    if e == "sdpel":
        return what + (":header" if i == 0 else ":size/value")
    if e in ("uuid", "uuidpdu"):
        return what + ":width"
    return what


def _exercise(ctx, rep, only_ns=None):
    """returns (exerciser with field-codec events, recorder with PduTrace events, history traces, metas, stats)"""
    def rng_for(part):
        return eng.class_rng(ctx.seed, "c18", part)  # one stream per part: a replay of one part sees the same inputs

    rng = rng_for("uuid-values")
    # histories first: they need values no earlier activity of this process has registered
    fresh = pdu.fresh_uuid16(rng, 24)
    traces, metas = ([], [])
    if only_ns in (None, "history"):
        traces, metas = pdu.histories(ctx, rep, rng_for("histories"), 6 if ctx.quick else 24, fresh[:12])
    ex = eng.Exerciser(ctx, rep, counts=(0, 1, 2) if ctx.quick else (0, 1, 2, 3), n_random=2 if ctx.quick else 12)
    cases, custom = pdu.field_cases()
    for case in cases:
        if only_ns and case.ns != only_ns:
            continue
        ex.run_case(case)
    rec = pdu.Recorder(ctx, rep)
    from bumble import core

    fresh_uuid = [(2, core.UUID.from_bytes(fresh[12].to_bytes(2, "little"))), (4, core.UUID.from_bytes(fresh[13].to_bytes(2, "little") + b"\x01\x02")),
                  (16, core.UUID.from_bytes(rng.randbytes(16)))]
    if only_ns in (None, "l2cap"):
        pdu.l2cap_events(rec, ctx.quick, rng_for("l2cap"))
    if only_ns in (None, "sdp"):
        pdu.sdp_events(rec, ctx.quick, rng_for("sdp"), fresh_uuid)
    if only_ns in (None, "rfcomm"):
        pdu.rfcomm_events(rec, ctx.quick, rng_for("rfcomm"))
    if only_ns in (None, "avdtp", "avctp", "avc", "rtp"):
        pdu.av_events(rec, ctx.quick, rng_for("av"))
    if only_ns in (None, "smp"):
        pdu.smp_layout_events(rec)
    if only_ns in (None, "gap"):
        pdu.gap_events(rec, ctx.quick, rng_for("gap"), fresh[14:] + pdu.registered_uuid16(4))
    rel = None
    if only_ns is None or only_ns in ("ad", "a2dp", "avrcp", "hci"):
        rel = pdu.relational(ctx, rep, rng_for("relational"), ctx.quick, custom)
    return ex, rec, traces, metas, rel, custom


def _validate(ctx, rep, ex, rec, traces, metas):
    if ex.events:
        rejected = cc.validate(ctx, rep, ex.events, ctx.spec("Hci", "CodecTrace.tla"), jobs=3, tag="c18f")
        ex.report_rejections(rejected)
    if rec.events:
        # the 64 KiB SDP strings dominate the JSON: keep chunks moderate
        rejected = cc.validate(ctx, rep, rec.events, ctx.spec("Pdu", "PduTrace.tla"), chunk=1200, jobs=3, tag="c18p")
        for ev, why, want in rejected:
            for w in why:
                sig, detail = _sig_pdu(ev, w, want)
                small = {k: v for k, v in ev.items() if k != "_meta"}
                if len(str(small)) > 6000:
                    small = {"e": ev["e"], "dir": ev["dir"], "bytes_len": len(ev["bytes"])}
                rep.violation(sig, detail, {"part": "pdu", "ns": ev["_meta"].get("ns"), "e": ev["e"], "tag": ev["_meta"].get("tag"), "why": w, "event": small})
    if traces:
        cfg = cc._cfg(ctx, "c18_hist.cfg")
        res = tlc.trace_batch(ctx.spec("Pdu", "Statelessness.tla"), cfg, traces, tag="c18h")
        rep.extra["history_states"] = res["states"]
        rep.extra["trace_states"] = rep.extra.get("trace_states", 0) + res["states"]
        rep.extra["trace_transitions"] = rep.extra.get("trace_transitions", 0) + res["transitions"]
        for tid, v in res["verdicts"].items():
            rep.traces += 1
            if v[0] == "REJECT":
                tr = traces[tid - 1]
                line = v[1]
                ev = tr[line - 1] if 0 < line <= len(tr) else {"op": "?", "key": [], "res": []}
                first = v[3].get("first") if len(v) > 3 and isinstance(v[3], dict) else None
                rep.violation(f"history:{ev['op']}:result-depends-on-history",
                              f"{ev['op']}({bytes(ev['key']).hex()}) gave {_res(ev['res'])} at step {line} of a group of process histories over the same inputs, "
                              f"but {_res(first)} the first time it was evaluated (16-bit value {metas[tid - 1]['value']:#06x}; histories differ only in the order of operations)",
                              {"part": "history", "trace": tr, "line": line, "value": metas[tid - 1]["value"]})


def _res(r):
    if r is None:
        return "?"
    r = list(r)
    if r and isinstance(r[0], str):
        return r[0]
    return bytes(r).hex() or "(empty)"


def run(ctx, rep):
    rep.rule = ("field-codec classes: one case per (class, vector) as in C01; hand-written codecs: one case per (codec, boundary vector, direction) incl. the "
                "boundary lengths of every length form; histories: one case per operation of a process history; relational classes: one case per seeded byte "
                "string that parses; distinct = distinct such cases; every non-relational case is an event validated by TLC")
    rep.assumptions = ["boundary values / lengths and structural cases, not all values (DESIGN section 9)",
                       "fields with callable codecs and classes without a layout in the spec are checked relationally only (counted in coverage.binding / coverage.relational)",
                       "a UIH frame with P/F = 1 carries a credit octet that the length indicator does not count (RFCOMM 1.2, 6.5.2)",
                       "how AVDTP cuts a message into fragments is free; header, packet count and content are checked",
                       "AV/C extended subunit types / ids (ids 5, 6) and 128-bit SDP integers are not exercised (bumble documents them as unsupported)",
                       "a new process is modelled by putting core.UUID.UUIDS back to its import-time content"]
    model_check(ctx, rep)
    ex, rec, traces, metas, rel, custom = _exercise(ctx, rep)
    _validate(ctx, rep, ex, rec, traces, metas)
    st = dict(ex.stats)
    st["bytes_only_classes"] = st["bytes_only_classes"][:40]
    rep.extra["binding"] = st
    rep.extra["pdu_events"] = dict(rec.count)
    rep.extra["relational"] = rel
    rep.extra["custom_classes"] = [f"{ns}:{name} ({why})" for ns, name, _, why in custom]
    if ex.stats["classes"] < 100 or len(rec.events) < 1500 or not traces:
        raise tlc.TlcError(f"vacuous binding: {ex.stats['classes']} field-codec classes, {len(rec.events)} pdu events, {len(traces)} histories")
    rep.exhaustive = False


def replay(ctx, rep):
    r = ctx.replay["replay"]
    print("replaying", ctx.replay["sig"])
    ns = r.get("ns")
    part = r.get("part")
    only = "history" if part == "history" else ns if ns in ("l2cap", "att", "smp", "sdp", "avdtp", "avrcp", "rfcomm", "avctp", "avc", "rtp", "gap", "ad", "a2dp", "hci") else None
    ex, rec, traces, metas, rel, custom = _exercise(ctx, rep, only_ns=only)
    _validate(ctx, rep, ex, rec, traces, metas)
    for v in rep.violations:
        print(" ", v.sig, "-", v.summary[:300])
    if not any(v.sig == ctx.replay["sig"] for v in rep.violations):
        print("the recorded violation did not reproduce")


def selftest(ctx, rep):
    """shims around real codecs with a documented misbehaviour, and corrupted recorded events / histories,
    must be flagged by the machinery"""
    import copy

    from bumble import l2cap, rfcomm, sdp

    results = {}

    def run_ns(ns):
        r2 = type(rep)(rep.prop, rep.level)
        ex, rec, traces, metas, rel, custom = _exercise(ctx, r2, only_ns=ns)
        _validate(ctx, r2, ex, rec, traces, metas)
        return sorted(v.sig for v in r2.violations)

    # 1. I-frame SAR shifted by 7 instead of 6 (wrapped class method)
    orig = l2cap.InformationEnhancedControlField.__bytes__
    l2cap.InformationEnhancedControlField.__bytes__ = lambda self: bytes([self.frame_type | (self.tx_seq << 1) | (self.final << 7), (self.req_seq | (self.sar << 7)) & 0xFF])
    try:
        results["iframe-sar-shift"] = run_ns("l2cap")
    finally:
        l2cap.InformationEnhancedControlField.__bytes__ = orig
    if not any(s.startswith("l2cap:ser:InformationEnhancedControlField") for s in results["iframe-sar-shift"]):
        rep.violation("selftest:iframe-sar-shift", f"not caught: {results['iframe-sar-shift']}")
    # 2. FCS of non-UIH frames computed over two octets only
    orig_fcs = rfcomm.compute_fcs
    rfcomm.compute_fcs = lambda b: orig_fcs(b[:2])
    try:
        results["fcs-two-octets"] = run_ns("rfcomm")
    finally:
        rfcomm.compute_fcs = orig_fcs
    if not any(":fcs" in s for s in results["fcs-two-octets"]):
        rep.violation("selftest:fcs-two-octets", f"not caught: {results['fcs-two-octets']}")
    # 3. corrupted recorded events and a corrupted history
    r3 = type(rep)(rep.prop, rep.level)
    rec = pdu.Recorder(ctx, r3)
    rng = eng.class_rng(ctx.seed, "c18-selftest")
    pdu.gap_events(rec, True, rng, pdu.fresh_uuid16(rng, 8))
    good = [e for e in rec.events if e["e"] == "ad"]
    base = cc.validate(ctx, r3, good, ctx.spec("Pdu", "PduTrace.tla"), jobs=1, tag="c18s")
    if base:
        raise tlc.TlcError(f"selftest baseline rejected: {base[:1]}")
    e1 = copy.deepcopy(next(e for e in good if e["dir"] == "ser" and len(e["bytes"]) > 3))
    e1["bytes"][0] += 1  # AD length octet off by one
    e2 = copy.deepcopy(next(e for e in good if e["dir"] == "par" and e["wf"] == "y" and len(e["r"]) > 0))
    e2["r"][0]["t"] ^= 1
    rej = cc.validate(ctx, r3, [e1, e2], ctx.spec("Pdu", "PduTrace.tla"), jobs=1, tag="c18s")
    results["corrupted-events"] = [w for _, w, _ in rej]
    if len(rej) != 2:
        rep.violation("selftest:corrupted-events", f"{len(rej)} of 2 corrupted events rejected")
    hist = [[{"op": "x", "key": [1], "res": [1]}, {"op": "restart", "key": [], "res": []}, {"op": "x", "key": [1], "res": [1]}],
            [{"op": "x", "key": [1], "res": [1]}, {"op": "restart", "key": [], "res": []}, {"op": "x", "key": [1], "res": [2]}]]
    res = tlc.trace_batch(ctx.spec("Pdu", "Statelessness.tla"), cc._cfg(ctx, "c18_hist.cfg"), hist, tag="c18s")
    results["histories"] = [res["verdicts"][1][0], res["verdicts"][2][0]]
    if results["histories"] != ["ACCEPT", "REJECT"]:
        rep.violation("selftest:histories", f"verdicts {results['histories']}")
    print("selftest:", results)
    rep.extra["selftest"] = results
