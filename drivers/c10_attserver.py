"""C10: the ATT server answers each request exactly once and within ATT_MTU.

(M) specs/Att/Server.tla model-checked by TLC: the classification of all 256 opcodes, request
    dispatch / handler outcomes / indication semaphore of a correctly organised server against the
    bearer-level monitor (exactly one matching response or Error Response naming the request, nothing
    for commands / confirmations / unknown commands, every server PDU <= current MTU, at most one
    indication awaiting confirmation), one and two bearers.
(B) code -> spec: a raw ATT puppet (lib/c10_att.py) on a real LE connection sends every opcode
    0..255 x ~100 parameter shapes x MTU {23, 24, 64, 185, 517} to Bumble's real gatt_server.Server
    with a generated database, on the fixed bearer and on enhanced bearers, plus seeded
    notification / indication / MTU-exchange scenarios; the recorded req / srv / mtu / indto / quiesce
    events are validated by ServerTrace.tla (quiesce = 40 virtual seconds after the stimulus, beyond
    the 30 s ATT transaction time-out).
"""
from __future__ import annotations

import concurrent.futures
import json
import multiprocessing
import os
import random
import struct

from lib import c10_att as A
from lib import tlc

LEVEL = "model_checking"
MTUS = [23, 24, 64, 185, 517]
EATT_MTUS = [64, 185, 517]
DEVIATIONS = ["lost-in-task", "ignore-unknown-request", "drop-malformed", "no-size-check", "answer-commands",
              "wrong-opcode", "double-response", "two-indications", "refuse_s2c"]
DESIGN_ACTIONS = ["Open", "Recv", "HandlerOk", "HandlerAttError", "HandlerCrash", "Unsupported", "Malformed",
                  "MtuSet", "AppNotify", "AppIndicate", "IndSend", "IndTimeout", "Quiesce"]


# ----------------------------------------------------------------------------- (M) model checking
def _mc_cfg(ctx, name, bearers, ops, maxsteps, maxind, deviations=()):
    dev = "{" + ", ".join(f'"{d}"' for d in deviations) + "}"
    text = f"""SPECIFICATION Spec
CONSTANTS
  Bearers = {{{', '.join(map(str, bearers))}}}
  Mtus = {{23, 64}}
  Ops <- {ops}
  Lens = {{1, 5, 23, 24, 64, 65}}
  MaxSteps = {maxsteps}
  MaxInd = {maxind}
  Deviations = {dev}
INVARIANT TypeOK
INVARIANT NoViolation
INVARIANT OneInd
INVARIANT NeverForgotten
INVARIANT IndLedger
CHECK_DEADLOCK FALSE
"""
    p = os.path.join(ctx.out, name)
    with open(p, "w") as f:
        f.write(text)
    return p


def model_check(ctx, rep):
    spec = ctx.spec("Att", "Server.tla")
    # the full opcode table needs no depth (one peer PDU decides its class); depth and two bearers use
    # one representative opcode per class (RepOps)
    runs = [("all-opcodes-1-bearer", [1], "AllOps", 2 if ctx.quick else 3, 1),
            ("rep-opcodes-1-bearer-deep", [1], "RepOps", 5 if ctx.quick else 7, 2),
            ("rep-opcodes-2-bearers", [1, 2], "RepOps", 3 if ctx.quick else 4, 1)]
    def one(run_):
        name, bearers, ops, steps, maxind = run_
        cfg = _mc_cfg(ctx, f"server_{name}.cfg", bearers, ops, steps, maxind)
        return tlc.mc(spec, cfg, workers=4)

    with concurrent.futures.ThreadPoolExecutor(max_workers=3) as ex:
        results = list(ex.map(one, runs))
    for (name, bearers, ops, steps, maxind), res in zip(runs, results):
        if res["violation"]:
            raise tlc.TlcError(f"Server.tla ({name}) violates {res['violation']} in the model itself:\n{res['out'][-2000:]}")
        tlc.require_actions(res, DESIGN_ACTIONS, f"Server.tla {name}")
        dead = [a for a, c in res["coverage"].items() if a.startswith("Dev") and c["taken"]]
        if dead:
            raise tlc.TlcError(f"deviation actions taken with Deviations = {{}}: {dead}")
        rep.add_mc("Att/Server.tla", res, {"Bearers": bearers, "Ops": ops, "Mtus": [23, 64], "MaxSteps": steps, "MaxInd": maxind})


# ----------------------------------------------------------------------------- (B) enumeration jobs
def _db_builder(full):
    return lambda device: A.build_c10_db(device, full=full)


def enum_job(job):
    """Run in a worker process: every opcode x every shape on one rig at one MTU.
    Returns [(trace, meta)]."""
    import logging

    logging.disable(logging.CRITICAL)
    kind, mtu, full, seed, ops, max_delay, patch_name = job
    patch = SHIMS[patch_name] if patch_name else None
    out = []
    errs = 0
    state = {}

    def make():
        if state:
            state["rig"].close()
        rig = state["rig"] = A.AttRig(seed=seed, max_delay=max_delay, build_db=_db_builder(full), eatt=(kind == "eatt"), server_patch=patch)
        pup = state["pup"] = A.Puppet(rig)
        if kind == "eatt":
            (b,) = rig.open_eatt(mtu, 1)
            pup.add_bearer(b, rig.eatt_mtu(b))
            if pup.mtu[b] != mtu:
                raise RuntimeError(f"EATT bearer MTU {pup.mtu[b]} != {mtu}")
        else:
            b = 1
            if mtu != 23:
                pup.set_mtu(mtu)
        state["b"] = b

    make()
    try:
        shp = A.shapes(state["rig"].db, mtu)
        for op in ops:
            if op == 0x02:
                continue  # Exchange MTU changes the bearer: separate rigs (mtu_job)
            for name, cause, params in shp:
                rig, pup, b = state["rig"], state["pup"], state["b"]
                pdu = bytes([op]) + params
                nerr = len(rig.loop_errors)
                tr = pup.transact(b, pdu)
                A.restore_db(rig.db)
                meta = {"kind": "enum", "bearer": kind, "mtu": mtu, "full": full, "seed": seed, "op": op, "shape": name,
                        "cause": cause, "pdu": pdu.hex(), "pre": [], "delay": max_delay,
                        "sigbase": A.sig_for(rig.db, op, cause, params, "{}")}
                out.append((tr, meta))
                if kind == "eatt" and len(rig.loop_errors) > nerr:
                    # An exception escaped into the event loop below ATT while this PDU was handled: the channel's
                    # reassembly state is suspect.  The next request (a plain Read) is judged as what it is - a
                    # request that follows that PDU on the same bearer; after it the bearer is re-synchronised with
                    # unjudged probes (or the rig replaced) so that later stimuli are judged on their own.
                    probe = b"\x0a" + A.H(rig.db.h["small"])
                    ptr = pup.transact(b, probe)
                    out.append((ptr, dict(meta, op=0x0A, shape="probe", cause="after-pdu-that-raised", pdu=probe.hex(), pre=[pdu.hex()],
                                          sigbase=f"att:request-after-pdu-that-raised:{kind}-bearer:{{}}")))
                    tries = 0
                    while not any(e["e"] == "srv" and e["op"] == 0x0B for e in ptr):
                        tries += 1
                        if tries > 3:
                            errs += len(rig.loop_errors)
                            make()
                            break
                        ptr = pup.transact(b, probe)
        errs += len(state["rig"].loop_errors)
    finally:
        state["rig"].close()
    return out, errs


def mtu_job(job):
    """Exchange MTU on a fresh connection per plan (fixed bearer, or an enhanced bearer where the request is
    not allowed at all), followed by requests whose responses fill the MTU so that the agreed value is
    exercised; repeated exchanges on one connection.  Every stimulus is its own trace."""
    import logging

    logging.disable(logging.CRITICAL)
    kind, mtu0, full, seed, _ops, max_delay, patch_name = job
    patch = SHIMS[patch_name] if patch_name else None
    out = []
    vals = [0, 1, 22, 23, 24, 64, 185, 517, 518, 1000, 65535]
    plans = [[b"\x02" + struct.pack("<H", v)] for v in vals]
    plans += [[b"\x02" + struct.pack("<H", v) for v in vs] for vs in ([517, 64], [64, 517], [23, 185, 23])]
    plans += [[b"\x02"], [b"\x02\x40"], [b"\x02\x40\x00\x00"], [b"\x02" + bytes(40)]]
    # the server's own preference (gatt_server.max_mtu) is varied as well: what holds afterwards is the minimum of the two
    # values that crossed the bearer, whichever side is the smaller one
    runs = [(None, plan) for plan in plans]
    for smax in (23, 64, 185):
        runs += [(smax, [b"\x02" + struct.pack("<H", v)]) for v in (23, 64, 185, 517, 65535) if v != smax]
        runs.append((smax, [b"\x02" + struct.pack("<H", 517), b"\x02" + struct.pack("<H", 30)]))
    for smax, plan in runs:
        rig = A.AttRig(seed=seed, max_delay=max_delay, build_db=_db_builder(full), eatt=(kind == "eatt"), server_patch=patch)
        try:
            if smax is not None:
                rig.server.max_mtu = smax
            pup = A.Puppet(rig)
            b = 1
            if kind == "eatt":
                (b,) = rig.open_eatt(mtu0, 1)
                pup.add_bearer(b, rig.eatt_mtu(b))
            h = rig.db.h
            follow = [b"\x0a" + A.H(h["s512"]), b"\x08" + A.H(1) + A.H(0xFFFF) + A.H(A.U_LONG), b"\x04" + A.H(1) + A.H(0xFFFF),
                      b"\x0e" + A.H(h["long"]) * 3, b"\x10" + A.H(1) + A.H(0xFFFF) + A.H(0x2800), b"\x0c" + A.H(h["s512"]) + A.H(1)]
            pre = []
            raised = False
            for pdu in plan + follow:
                nerr = len(rig.loop_errors)
                tr = pup.transact(b, pdu)
                params = pdu[1:]
                cause = "exchange" if pdu[0] == 2 else "after-exchange"
                if pdu[0] == 2:
                    sigbase = A.sig_for(rig.db, pdu[0], cause, params, "{}")
                elif raised:
                    sigbase = f"att:request-after-pdu-that-raised:{kind}-bearer:{{}}"
                else:
                    sigbase = f"att:after-exchange-mtu:{kind}-bearer:{{}}"
                raised = raised or len(rig.loop_errors) > nerr
                out.append((tr, {"kind": "enum", "bearer": kind, "mtu": mtu0, "full": full, "seed": seed, "op": pdu[0], "shape": cause,
                                 "cause": cause, "pdu": pdu.hex(), "pre": list(pre), "delay": max_delay, "sigbase": sigbase, "server_max_mtu": smax}))
                pre.append(pdu.hex())
                srv = [e for e in tr if e["e"] == "srv"]
                if pdu[0] != 2 and (raised or len(srv) != 1 or srv[0]["len"] > pup.mtu[b]):
                    break  # the bearer's state is no longer defined: later follow-ups would only echo this
        finally:
            rig.close()
    return out, 0


def scenario_job(job):
    """Seeded notification / indication scenarios interleaved with requests and confirmations."""
    import logging

    logging.disable(logging.CRITICAL)
    kind, count, full, seed, _ops, max_delay, patch_name = job
    out = []
    for i in range(count):
        out.append(run_scenario(kind, full, seed, i, max_delay, patch_name))
    return out, 0


def run_scenario(kind, full, seed, index, max_delay, patch_name=None):
    rng = random.Random(f"c10/{seed}/{kind}/{index}")
    patch = SHIMS[patch_name] if patch_name else None
    mtu = rng.choice(MTUS if kind == "fixed" else EATT_MTUS)
    rig = A.AttRig(seed=seed * 7919 + index, max_delay=max_delay, build_db=_db_builder(full), eatt=(kind == "eatt"), server_patch=patch)
    api = []
    try:
        pup = A.Puppet(rig)
        bearers = [1]
        if mtu != 23 and kind == "fixed":
            pup.set_mtu(mtu)
        if kind == "eatt":
            for b in rig.open_eatt(mtu, rng.choice([1, 2])):
                pup.add_bearer(b, rig.eatt_mtu(b))
                bearers.append(b)
        head = pup.opens()
        pup.drain()
        dev = rig.server_device
        db = rig.db
        cccd = A.H(db.h["cccd"])
        # subscribe on every bearer (notifications + indications)
        stuck = set()
        body = []
        for b in bearers:
            mark = len(rig.log)
            rig.send(b, b"\x12" + cccd + b"\x03\x00")
            rig.run(1.0)
            if not any(bb == b and p and p[0] in (0x13, 0x01) for bb, p in pup.received(mark)):
                stuck.add(b)
        tasks = []
        steps = rng.randint(4, 10)
        lens = [0, 1, mtu - 4, mtu - 3, mtu - 2, mtu, 300, 512]
        for _ in range(steps):
            r = rng.random()
            value = A.canary(f"v{rng.random()}", rng.choice(lens))
            if r < 0.22:
                api.append("notify_subscribers")
                tasks.append(rig.spawn(dev.notify_subscribers, db.notif, value if rng.random() < 0.7 else None))
            elif r < 0.32:
                api.append("notify_subscriber")
                tasks.append(rig.spawn(dev.notify_subscriber, rig.pc, db.notif, value, rng.random() < 0.5))
            elif r < 0.62:
                k = rng.choice([1, 2, 3])
                for _j in range(k):
                    if rng.random() < 0.5:
                        api.append("indicate_subscribers")
                        tasks.append(rig.spawn(dev.indicate_subscribers, db.notif, value))
                    else:
                        api.append("indicate_subscriber")
                        tasks.append(rig.spawn(dev.indicate_subscriber, rig.pc, db.notif, value))
            elif r < 0.82:
                b = rng.choice(bearers)
                body += pup.drain() + pup.expire()
                if pup.confirmable(b) == "wait":
                    rig.run(2.0)  # too close to the time-out to tell a late confirmation from a timely one: let it pass
                    body += pup.drain() + pup.expire()
                if pup.confirmable(b) == "confirm":
                    queued = sum(1 for name, t in zip(api, tasks) if name.startswith("indicate") and not t.done())
                    if rng.random() < 0.3 and queued <= 1:
                        # the confirmation arrives twice, back to back (both handed over in one loop iteration): the second
                        # one is a confirmation nobody waits for, whatever the server has or has not cleaned up yet.
                        # Only when no further indication is queued behind the one being confirmed (a surplus confirmation
                        # that crosses the next indication in flight would legitimately be taken as ITS confirmation), and
                        # settled before anything else happens
                        def twice(b=b):
                            for _k in range(2):
                                rig.log.append((rig.loop.time(), "tx", b, b"\x1e"))
                                if b == 1:
                                    rig.cc.send_l2cap_pdu(A.ATT_CID, b"\x1e")
                                else:
                                    rig.bearers[b].write(b"\x1e")

                        rig.call(twice)
                        rig.run(1.0)
                    else:
                        rig.send(b, b"\x1e")  # confirm the indication received
                else:
                    # a confirmation nobody waits for; settled before and after so that it cannot cross an
                    # indication in flight (the two directions of a bearer are not ordered with each other)
                    rig.run(1.0)
                    rig.send(b, b"\x1e")
                    rig.run(1.0)
            elif r < 0.92:
                b = rng.choice(bearers)
                if b not in stuck:  # one request at a time: never after a request that is still unanswered
                    mark = len(rig.log)
                    # (incl. CCCD writes while an indication may be in flight: subscribing / unsubscribing is not a confirmation)
                    rig.send(b, rng.choice([b"\x0a" + A.H(db.h["long"]), b"\x0e" + A.H(db.h["small"]) * 2, b"\x04" + A.H(1) + A.H(0xFFFF),
                                            b"\x52" + A.H(db.h["small"]) + b"z",
                                            b"\x12" + A.H(db.h["cccd"]) + bytes([rng.choice([1, 3, 3, 2]), 0]),
                                            b"\x12" + A.H(db.h["cccd"]) + bytes([rng.choice([1, 3]), 0])]))
                    rig.run(1.0)
                    sent = rig.log[mark][3]
                    if A.classify(sent[0]) in ("req", "unkreq") and not any(
                            bb == b and p and p[0] % 2 == 1 and p[0] not in (0x1B, 0x1D, 0x23) for bb, p in pup.received(mark)):
                        stuck.add(b)
            rig.run(rng.choice([0.0, 0.1, 1.0, 5.0, 29.0, 31.0]))
        rig.run(A.SETTLE)
        tr = head + body + pup.quiesce()
        api_errors = sorted({type(t.exception()).__name__ for t in tasks if t.done() and not t.cancelled() and t.exception() and not isinstance(t.exception(), TimeoutError)})
        # an indicate() call that dies on an assertion: the server's own "no indication pending" assertion is the only
        # thing that kept a second indication off the bearer (it is compiled away under python -O)
        asserted = sum(1 for name, t in zip(api, tasks) if name.startswith("indicate") and t.done() and not t.cancelled()
                       and isinstance(t.exception(), AssertionError))
        meta = {"kind": "scenario", "bearer": kind, "mtu": mtu, "full": full, "seed": seed, "index": index, "delay": max_delay,
                "api": api, "api_errors": api_errors, "asserted": asserted, "sigbase": "att:scenario:{}"}
        return tr, meta
    finally:
        rig.close()


JOBS = {"enum": enum_job, "mtu": mtu_job, "scenario": scenario_job}


def _run_job(item):
    fn, job = item
    return JOBS[fn](job)


def run_jobs(items, workers):
    if workers <= 1 or len(items) <= 1:
        return [_run_job(it) for it in items]
    ctx = multiprocessing.get_context("fork")
    with concurrent.futures.ProcessPoolExecutor(max_workers=min(workers, len(items)), mp_context=ctx) as ex:
        return list(ex.map(_run_job, items))


# ----------------------------------------------------------------------------- validation
def class_table_trace():
    return [A.ev("class", op=op, cls=A.classify(op)) for op in range(256)]


def _norm(tr):
    """What TLC needs of a trace (ServerTrace.tla does not read the length of client PDUs)."""
    return tuple((e["e"], e["b"], e["op"], 0 if e["e"] == "req" else e["len"], e["rie"], e["n"], e["cls"]) for e in tr)


def validate(ctx, rep, pairs, report=True, chunk=4000):
    """TLC-validate [(trace, meta)]; returns [(trace, meta, verdict)].  Identical abstract traces (e.g. the same
    unknown opcode with 100 different parameter blocks, all unanswered) are sent to TLC once."""
    spec = ctx.spec("Att", "ServerTrace.tla")
    cfg = ctx.spec("Att", "ServerTrace.cfg")
    uniq = {}
    for tr, _m in pairs:
        uniq.setdefault(_norm(tr), len(uniq))
    keys = list(uniq)
    traces = [[A.ev(e, b=b, op=op, len=ln, rie=rie, n=n, cls=cls) for (e, b, op, ln, rie, n, cls) in k] for k in keys]
    chunks = [traces[i:i + chunk] for i in range(0, len(traces), chunk)]
    verdict = {}

    def one(ch):
        return tlc.trace_batch(spec, cfg, ch, tag="c10")

    with concurrent.futures.ThreadPoolExecutor(max_workers=4) as ex:
        for ci, res in enumerate(ex.map(one, chunks)):
            rep.extra["trace_states"] = rep.extra.get("trace_states", 0) + res["states"]
            for tid, v in res["verdicts"].items():
                verdict[ci * chunk + tid - 1] = v
    rep.extra["distinct_abstract_traces"] = rep.extra.get("distinct_abstract_traces", 0) + len(keys)
    results = [(tr, meta, verdict[uniq[_norm(tr)]]) for tr, meta in pairs]
    if report:
        for tr, meta, v in results:
            judge(rep, tr, meta, v)
    return results


def judge(rep, tr, meta, v):
    rep.traces += 1
    if meta["kind"] == "enum":
        key = ("enum", meta["bearer"], meta["mtu"], meta["pdu"], tuple(meta["pre"]))
    elif meta["kind"] == "class":
        key = ("class",)
    else:
        key = ("scenario", meta["bearer"], meta["seed"], meta["index"])
    rep.case(key, nontrivial=len(tr) > 2, sample={"meta": {k: meta[k] for k in ("kind", "bearer", "mtu") if k in meta}, "events": tr[:6]} if rep.evaluations % 9973 == 0 else None)
    if meta.get("asserted"):
        rep.violation("att:scenario:indication:second-indication-stopped-by-assertion",
                      f"{meta['asserted']} indicate call(s) ended in AssertionError ({meta['bearer']} bearer, MTU {meta['mtu']}, calls {meta['api']}): the server was about to send an "
                      "indication while another one awaits confirmation; only its internal assertion (absent under python -O) kept it off the bearer",
                      {"meta": meta, "trace": tr, "line": 0, "clauses": ["second-indication-stopped-by-assertion"]})
    if v[0] == "ACCEPT":
        return
    line, event, info = v[1], v[2], (v[3] if len(v) > 3 else {})
    clauses = sorted(info.get("clauses", [])) if isinstance(info, dict) else []
    if not clauses or clauses == ["guard"]:
        raise tlc.TlcError(f"harness produced a trace the monitor cannot even step through (not a verdict): line {line} {event} {info}\n{tr}")
    if meta["kind"] == "class":
        raise tlc.TlcError(f"puppet opcode table disagrees with Server.tla Class: {event} {info}")
    clause = "+".join(clauses)
    if meta["kind"] == "scenario":
        if event.get("e") == "srv":
            what = {27: "notification", 29: "indication", 35: "notification"}.get(event.get("op"), "response")
        else:
            owed = [o for o in info.get("out", ()) if o != 256]
            what = A.op_label(owed[0]) if owed else event.get("e")
        sig = f"att:scenario:{what}:{clause}"
    else:
        sig = meta["sigbase"].format(clause)
    where = f"{meta['bearer']} bearer, MTU {meta.get('mtu')}"
    summary = (f"{sig}: {where}; stimulus {meta.get('pdu', meta.get('api'))}; trace rejected at event {line} {event}; monitor state {info}; "
               f"trace = {[(e['e'], e['b'], hex(e['op']), e['len'], e['rie'], e['n']) for e in tr]}")
    rep.violation(sig, summary, {"meta": meta, "trace": tr, "line": line, "clauses": clauses})


# ----------------------------------------------------------------------------- entry points
def plan(ctx, patch=None, small=False):
    seed = ctx.seed
    items = []
    ops = list(range(256))
    if small:  # self-test: a slice is enough
        ops = [0x02, 0x04, 0x08, 0x0A, 0x0E, 0x12, 0x20, 0x3A, 0x52, 0x7F, 0x1E]
        items.append(("enum", ("fixed", 24, False, seed, ops, 0.0, patch)))
        items.append(("scenario", ("fixed", 12, False, seed, None, 0.0, patch)))
        return items
    if ctx.quick:
        for m in (23, 24):
            items.append(("enum", ("fixed", m, False, seed, ops, 0.0, patch)))
        # a third MTU with every defined opcode and a sample of the undefined ones (all 256 at every MTU in the thorough tier)
        defined = sorted(set(A.REQ_NAMES) | set(A.CMD_NAMES) | A.S2C | {A.CONF} | set(range(0, 256, 8)))
        items.append(("enum", ("fixed", 185, False, seed, defined, 0.0, patch)))
        items.append(("enum", ("eatt", 64, False, seed, ops, 0.0, patch)))
        items.append(("mtu", ("fixed", 23, False, seed, None, 0.0, patch)))
        items.append(("mtu", ("eatt", 64, False, seed, None, 0.0, patch)))
        for k in range(4):
            items.append(("scenario", ("fixed" if k % 2 == 0 else "eatt", 40, False, seed * 10 + k, None, 0.0, patch)))
    else:
        for m in MTUS:
            items.append(("enum", ("fixed", m, True, seed, ops, 0.0, patch)))
            items.append(("enum", ("fixed", m, False, seed + 1, ops, 0.004, patch)))
        for m in EATT_MTUS:
            items.append(("enum", ("eatt", m, True, seed, ops, 0.0, patch)))
        items.append(("mtu", ("fixed", 23, True, seed, None, 0.0, patch)))
        items.append(("mtu", ("fixed", 23, False, seed, None, 0.004, patch)))
        for m in EATT_MTUS:
            items.append(("mtu", ("eatt", m, False, seed, None, 0.0, patch)))
        for k in range(12):
            items.append(("scenario", ("fixed" if k % 2 == 0 else "eatt", 150, k % 4 == 0, seed * 100 + k, None, 0.0 if k % 3 else 0.004, patch)))
    return items


def execute(ctx, rep, items, report=True):
    pairs = []
    loop_errors = 0
    for out, errs in run_jobs(items, workers=12):
        pairs.extend(out)
        loop_errors += errs
    rep.extra["exceptions_escaped_to_event_loop"] = rep.extra.get("exceptions_escaped_to_event_loop", 0) + loop_errors
    kinds = {}
    for tr, _m in pairs:
        for e in tr:
            kinds[e["e"]] = kinds.get(e["e"], 0) + 1
    rep.extra["trace_events"] = kinds
    api_errors = sorted({x for _t, m in pairs for x in m.get("api_errors", [])})
    if api_errors:
        rep.extra["application_api_exceptions_other_than_timeout"] = api_errors
    return validate(ctx, rep, pairs, report=report)


ATTMON_QUICK = ["tests/gatt_test.py", "tests/gatt_service_test.py", "tests/heart_rate_service_test.py", "tests/device_test.py", "tests/self_test.py",
                "tests/vcp_test.py", "tests/vocs_test.py", "tests/aics_test.py", "tests/bap_test.py", "tests/csip_test.py", "tests/gmap_test.py", "tests/hap_test.py",
                "tests/bass_test.py", "tests/cap_test.py", "tests/mcp_test.py", "tests/battery_service_test.py", "tests/asha_test.py"]


def repo_tests_monitor(ctx, rep):
    """The repository's own tests under lib/attmon.py: every ATT PDU on the unenhanced bearer of every (Device,
    connection) they create, judged by ServerTrace.tla from the point of view of that device's server role."""
    import subprocess
    import sys

    repo = os.environ.get("VERIF_REPO", "/repo")
    out = os.path.join(ctx.out, f"attmon-{ctx.tier}.json")
    if os.path.exists(out):
        os.remove(out)
    tests = [t for t in ATTMON_QUICK if os.path.exists(os.path.join(repo, t))] if ctx.quick else ["tests"]
    env = dict(os.environ, ATTMON_OUT=out, PYTHONPATH=f"{repo}:{tlc.VERIF}", PYTHONDONTWRITEBYTECODE="1")
    r = subprocess.run([sys.executable, "-B", "-m", "pytest", "-p", "lib.attmon", "-p", "no:cacheprovider", "-q", "--timeout=900", "--no-header"] + tests,
                       cwd=repo, env=env, capture_output=True, text=True, timeout=1800)
    if not os.path.exists(out):
        raise tlc.TlcError(f"repository tests under the ATT monitor produced no trace file:\n{(r.stdout + r.stderr)[-2000:]}")
    with open(out) as f:
        recs = json.load(f)
    os.remove(out)
    traces = [x["events"] for x in recs]
    rep.extra["repo_tests_att_monitor"] = {"traces": len(traces), "events": sum(len(t) for t in traces), "pytest": (r.stdout or "").strip().splitlines()[-1:]}
    if not traces:
        raise tlc.TlcError("the ATT monitor recorded nothing from the repository's tests")
    spec, cfg = ctx.spec("Att", "ServerTrace.tla"), ctx.spec("Att", "ServerTrace.cfg")
    B = 2000
    for i in range(0, len(traces), B):
        res = tlc.trace_batch(spec, cfg, traces[i:i + B], tag="c10mon")
        rep.extra["trace_states"] = rep.extra.get("trace_states", 0) + res["states"]
        for tid, v in res["verdicts"].items():
            rec = recs[i + tid - 1]
            rep.traces += 1
            rep.case(("attmon", rec["test"], rec["handle"], len(rec["events"])), nontrivial=len(rec["events"]) > 2)
            if v[0] == "ACCEPT":
                continue
            info = v[3] if len(v) > 3 and isinstance(v[3], dict) else {}
            clauses = sorted(c for c in info.get("clauses", []) if c not in ("guard", "second-indication"))
            if not clauses:
                continue  # not enabled (a test's own client broke the sequencing assumption) / not judged here
            line, event = v[1], v[2]
            rep.violation(f"attmon:{'+'.join(clauses)}",
                          f"repository test {rec['test']} (connection 0x{rec['handle']:04X}): ATT trace rejected at event {line} {event}: {clauses}; monitor state {info}",
                          {"part": "attmon", "test": rec["test"], "line": line, "event": event, "events": rec["events"][:line + 2]})


def run(ctx, rep):
    rep.rule = ("one trace per (bearer kind, MTU, opcode 0..255, parameter shape) stimulus = [open, req, srv*, mtu?, quiesce] recorded by a raw ATT puppet "
                "against the real gatt_server.Server, plus seeded notification/indication/MTU-exchange scenarios; every trace validated by ServerTrace.tla; "
                "distinct = distinct (bearer, MTU, opcode, shape) stimuli and scenarios")
    rep.assumptions = ["the peer sends one request at a time per bearer (ATT sequential protocol); a repeated Exchange MTU is read most permissively",
                       "server-role PDUs (responses, notifications, indications) arriving at the server are non-requests: any reply to them is a violation (clause reply-to-server-role-pdu)",
                       "quiescence = 40 virtual seconds after the stimulus under the virtual-time loop (ATT transaction time-out is 30 s)",
                       "link security is plain in C10 runs (protected attributes are refused); C11 varies it"]
    model_check(ctx, rep)
    validate(ctx, rep, [(class_table_trace(), {"kind": "class", "sigbase": "class:{}"})])
    results = execute(ctx, rep, plan(ctx))
    rejected = sum(1 for _t, _m, v in results if v[0] != "ACCEPT")
    rep.extra["traces_rejected"] = rejected
    repo_tests_monitor(ctx, rep)
    rep.exhaustive = False


def replay(ctx, rep):
    r = ctx.replay["replay"]
    meta = r["meta"]
    if meta["kind"] == "enum":
        rig = A.AttRig(seed=meta["seed"], max_delay=meta["delay"], build_db=_db_builder(meta["full"]), eatt=(meta["bearer"] == "eatt"))
        try:
            if meta.get("server_max_mtu") is not None:
                rig.server.max_mtu = meta["server_max_mtu"]
            pup = A.Puppet(rig)
            b = 1
            if meta["bearer"] == "eatt":
                (b,) = rig.open_eatt(meta["mtu"], 1)
                pup.add_bearer(b, rig.eatt_mtu(b))
            elif meta["mtu"] != 23 and not meta.get("pre"):
                pup.set_mtu(meta["mtu"])
            for pre in meta.get("pre", []):
                print(f"first {pre}:", [(e["e"], hex(e["op"]), e["len"], e["n"]) for e in pup.transact(b, bytes.fromhex(pre)) if e["e"] != "open"])
            mark = len(rig.log)
            tr = pup.transact(b, bytes.fromhex(meta["pdu"]))
            print(f"sent {meta['pdu']} on {meta['bearer']} bearer at MTU {meta['mtu']}")
            for bb, p in pup.received(mark):
                print(f"  received on bearer {bb}: {len(p)} bytes {p[:40].hex()}{'...' if len(p) > 40 else ''}")
            print("  events:", [(e["e"], hex(e["op"]), e["len"]) for e in tr])
            print("  exceptions escaped into the event loop:", rig.loop_errors[:3])
        finally:
            rig.close()
        pairs = [(tr, meta)]
    else:
        tr, m = run_scenario(meta["bearer"], meta["full"], meta["seed"], meta["index"], meta["delay"])
        print("api calls:", m["api"])
        print("events:", [(e["e"], e["b"], hex(e["op"]), e["len"]) for e in tr])
        pairs = [(tr, m)]
    validate(ctx, rep, pairs)
    if not rep.violations:
        print("replay: the trace is accepted now (no violation reproduced)")


# ----------------------------------------------------------------------------- self-test shims (wrap the real server; /repo untouched)
def _wrap_send(server, fn):
    orig = server.send_gatt_pdu

    def send(bearer, pdu):
        for p in fn(bearer, bytes(pdu)):
            orig(bearer, p)

    server.send_gatt_pdu = send


def shim_drop_write_response(server):
    _wrap_send(server, lambda b, p: [] if p[0] == 0x13 else [p])


def shim_double_error(server):
    _wrap_send(server, lambda b, p: [p, p] if p[0] == 0x01 else [p])


def shim_pad_read(server):
    _wrap_send(server, lambda b, p: [p + bytes(max(0, b.att_mtu + 1 - len(p)))] if p[0] == 0x0B else [p])


def shim_wrong_opcode_in_error(server):
    _wrap_send(server, lambda b, p: [bytes([1, p[1] ^ 0x04]) + p[2:]] if p[0] == 0x01 else [p])


def shim_answer_commands(server):
    orig = server.on_gatt_pdu

    def on_gatt_pdu(bearer, pdu):
        orig(bearer, pdu)
        if pdu.op_code & 0x40:
            server.send_gatt_pdu(bearer, bytes([1, pdu.op_code, 0, 0, 6]))

    server.on_gatt_pdu = on_gatt_pdu


def shim_two_indications(server):
    import asyncio
    from collections import defaultdict

    server.indication_semaphores = defaultdict(lambda: asyncio.Semaphore(2))
    server.pending_confirmations = defaultdict(lambda: None)
    orig = server._indicate_single_bearer

    async def ind(bearer, attribute, value, force):
        server.pending_confirmations[bearer] = None  # defeat the assert that masks the second slot
        return await orig(bearer, attribute, value, force)

    server._indicate_single_bearer = ind


def shim_long_notification(server):
    _wrap_send(server, lambda b, p: [p + bytes(max(0, b.att_mtu + 1 - len(p)))] if p[0] == 0x1B and len(p) > 10 else [p])


SHIMS = {"drop-write-response": shim_drop_write_response, "double-error": shim_double_error, "pad-read": shim_pad_read,
         "wrong-opcode-in-error": shim_wrong_opcode_in_error, "answer-commands": shim_answer_commands,
         "two-indications": shim_two_indications, "long-notification": shim_long_notification}
EXPECT = {"drop-write-response": "no-response", "double-error": "unsolicited-response", "pad-read": "exceeds-mtu",
          "wrong-opcode-in-error": "wrong-response", "answer-commands": "unsolicited-response", "two-indications": "second-indication",
          "long-notification": "exceeds-mtu"}


def selftest(ctx, rep):
    results = {}
    # (1) the model: every named deviation must break an invariant
    spec = ctx.spec("Att", "Server.tla")
    for d in DEVIATIONS:
        cfg = _mc_cfg(ctx, f"server_dev_{d}.cfg", [1], "RepOps", 3, 2, deviations=[d])
        res = tlc.mc(spec, cfg, workers=4, coverage=False)
        results["model:" + d] = res["violation"]
        if not res["violation"]:
            rep.violation(f"selftest:model:{d}", f"Server.tla with deviation {d} enabled satisfies every invariant: the model cannot express that defect")
    # (2) the binding: shims around the real server must be rejected with the expected clause
    r0 = type(rep)(rep.prop, rep.level)
    execute(ctx, r0, plan(ctx, small=True))
    baseline = {v.sig for v in r0.violations}  # what this tree already does wrong on the same stimuli (not the shim's doing)
    for name in SHIMS:
        r2 = type(rep)(rep.prop, rep.level)
        execute(ctx, r2, plan(ctx, patch=name, small=True))
        got = sorted({c for v in r2.violations if v.sig not in baseline for c in v.replay.get("clauses", [])})
        results["shim:" + name] = got
        if EXPECT[name] not in got:
            rep.violation(f"selftest:shim:{name}", f"shim {name} around the real server was not flagged with {EXPECT[name]} (new clauses: {got})")
    # (3) corrupted recordings of the unmodified server
    r3 = type(rep)(rep.prop, rep.level)
    base = [p for p in execute(ctx, r3, [("enum", ("fixed", 24, False, ctx.seed, [0x04, 0x0A, 0x12], 0.0, None))], report=False) if p[2][0] == "ACCEPT"]
    good = [(t, m) for t, m, _v in base if any(e["e"] == "srv" for e in t)][:40]
    if not good:
        raise tlc.TlcError("self-test: no accepted trace with a response to corrupt")
    corrupt = []
    for t, m in good:
        i = next(k for k, e in enumerate(t) if e["e"] == "srv")
        corrupt.append(([e for k, e in enumerate(t) if k != i], dict(m, corruption="drop-response")))
        corrupt.append((t[:i + 1] + [t[i]] + t[i + 1:], dict(m, corruption="duplicate-response")))
        corrupt.append((t[:i] + [dict(t[i], len=t[i]["len"] + 600)] + t[i + 1:], dict(m, corruption="longer")))
        corrupt.append((t[:i] + [dict(t[i], op=0x01, rie=(t[i - 1]["op"] ^ 0x10))] + t[i + 1:], dict(m, corruption="names-other-request")))
    res = validate(ctx, r3, corrupt, report=False)
    missed = sorted({m["corruption"] for _t, m, v in res if v[0] == "ACCEPT"})
    results["corrupted-traces-accepted"] = missed
    for c in missed:
        rep.violation(f"selftest:corruption:{c}", f"a recorded trace corrupted by '{c}' was accepted by ServerTrace.tla")
    print("selftest:", results)
