"""C03: one HCI command outstanding; every command is answered exactly once; accepted procedures are concluded.

(M) specs/Hci/Command.tla model-checked by TLC: K caller tasks, the command semaphore, the pending command,
    FIFO delay lines both ways, a controller that answers every command exactly once with Command Complete
    or Command Status and concludes the procedures it accepted; safety invariants on larger constants,
    liveness (every call returns, every accepted procedure is concluded, withheld credits are granted)
    under weak fairness on small constants.
(B) code -> spec: a real Host wired to a real Controller (bumble/host.py, bumble/controller.py) through a tap
    with order-preserving seeded delay lines; one command of every class registered in
    hci.HCI_Command.command_classes (several parameter fillings) and unregistered opcodes, issued by 1..4
    concurrent caller tasks; commands whose hand-over fails (a field value that does not fit: the packet cannot be
    serialised; a transport sink that raises once) among them; procedure scenarios on a LocalLink with peers
    present / absent / vanishing, a second connection creation (legacy / extended command) while one is pending,
    the handle-addressed procedures from both roles under every capability set of either controller;
    a scripted controller that plays Num_HCI_Command_Packets games against the real Host.
    Recorded call/h2c/rcv/c2h/evt/nop/dlv/ret/quiesce events are validated by CommandTrace.tla.
"""
from __future__ import annotations

import asyncio
import concurrent.futures
import json
import os
import random
import re

from lib import c03_hci as H
from lib import rig, tlc, vt

LEVEL = "model_checking"
NTASKS = 16  # task ids available to one trace (callers + tasks the host spawns itself)


class Harness(Exception):
    """machinery failure (never a verdict)"""


class SetupStuck(Harness):
    """a scenario's unrecorded set-up (Host.reset() ...) never finished: the recorded `bringup` family decides why"""


# ============================================================================= (M) model checking
INVS = ["TypeOK", "Inv_OneOutstanding", "Inv_OneInFlight", "Inv_OwnOpcode", "Inv_Credit", "Inv_Pending", "Inv_SlotFree"]
LIVE = ["Live_Answered", "Live_Concluded", "Live_Credit"]


def _set(xs):
    return "{" + ", ".join(str(x) for x in xs) + "}"


def mc_cfg(c, live, invs=None):
    lines = ["SPECIFICATION Spec" if live else "INIT Init\nNEXT Next", "CONSTANTS",
             f"  Tasks = {_set(c['Tasks'])}", f"  Ops = {_set(c['Ops'])}", f"  ProcOps = {_set(c['ProcOps'])}",
             f"  WeakOps = {_set(c['WeakOps'])}", f"  CancelOp = {c['CancelOp']}", f"  CancelTarget = {c['CancelTarget']}",
             f"  AliasOp = {c.get('AliasOp', 0)}", f"  AliasTarget = {c.get('AliasTarget', 0)}", f"  FailOps = {_set(c.get('FailOps', []))}",
             f"  MaxCalls = {c['MaxCalls']}", f"  CreditGames = {'TRUE' if c['CreditGames'] else 'FALSE'}",
             f"  HostBug = \"{c.get('HostBug', 'none')}\"", f"  CtrlBug = \"{c.get('CtrlBug', 'none')}\""]
    lines += [f"INVARIANT {i}" for i in (invs or INVS)]
    if live:
        lines += [f"PROPERTY {p}" for p in LIVE]
    lines.append("CHECK_DEADLOCK FALSE")
    return "\n".join(lines) + "\n"


_COV = re.compile(r"^<(\w+) line \d+, col \d+ to line \d+, col \d+ of module Command(?: \([\d ]+\))?>: (\d+):(\d+)", re.M)


def _coverage(out):
    """per-action counts; TLC tags an action reached through \\E / a wrapper with a location suffix that
    lib.tlc's pattern does not accept, hence this local parser."""
    cov = {}
    for m in _COV.finditer(out):
        d = cov.setdefault(m.group(1), {"distinct": 0, "taken": 0})
        d["distinct"] += int(m.group(2))
        d["taken"] += int(m.group(3))
    return cov


def run_mc(ctx, name, consts, live, workers=4, expect=None):
    cfgp = os.path.join(ctx.out, f"mc_{name}.cfg")
    with open(cfgp, "w") as f:
        f.write(mc_cfg(consts, live))
    res = tlc.mc(ctx.spec("Hci", "Command.tla"), cfgp, workers=workers, timeout=3000)
    res["coverage"] = _coverage(res["out"])
    res["name"] = name
    res["consts"] = consts
    res["live"] = live
    return res


def _tlc_raw(ctx, name, consts, live, invs=None):
    """plain TLC run returning its output (negative controls: a violation is the expected outcome)"""
    import shutil
    import subprocess
    import tempfile

    cfgp = os.path.join(ctx.out, f"mc_{name}.cfg")
    with open(cfgp, "w") as f:
        f.write(mc_cfg(consts, live, invs))
    meta = tempfile.mkdtemp(prefix="neg-", dir=ctx.out)
    try:
        r = subprocess.run(["java", "-XX:+UseParallelGC", "-cp", tlc.JAR, "tlc2.TLC", "-workers", "2", "-metadir", meta, "-noGenerateSpecTE",
                            "-config", cfgp, ctx.spec("Hci", "Command.tla")], cwd=ctx.spec("Hci"), capture_output=True, text=True, timeout=900)
    finally:
        shutil.rmtree(meta, ignore_errors=True)
    out = r.stdout + r.stderr
    if "Starting..." not in out:
        raise tlc.TlcError(f"TLC did not start on {cfgp}:\n{out[-2000:]}")
    return out


ACTIONS = ["Call", "Send", "HostRecv", "Return", "CtrlRecv", "CtrlReply", "ConcludeOne"]


def model_check(ctx, rep):
    if ctx.quick:
        runs = [
            ("safety3", dict(Tasks=[1, 2, 3], Ops=[1, 2, 3, 4], ProcOps=[2], WeakOps=[2], CancelOp=3, CancelTarget=2, AliasOp=4, AliasTarget=2, FailOps=[1, 4], MaxCalls=1, CreditGames=True), False),
            ("live_proc", dict(Tasks=[1, 2, 3], Ops=[1, 2], ProcOps=[2], WeakOps=[], CancelOp=0, CancelTarget=2, FailOps=[1], MaxCalls=1, CreditGames=False), True),
            ("live_cancel", dict(Tasks=[1, 2], Ops=[2, 3, 4], ProcOps=[2], WeakOps=[2], CancelOp=3, CancelTarget=2, AliasOp=4, AliasTarget=2, FailOps=[4], MaxCalls=2, CreditGames=True), True),
        ]
    else:
        runs = [
            ("safety4", dict(Tasks=[1, 2, 3, 4], Ops=[1, 2, 3, 4, 5], ProcOps=[2, 4], WeakOps=[2], CancelOp=3, CancelTarget=2, AliasOp=5, AliasTarget=2, FailOps=[1, 5], MaxCalls=1, CreditGames=True), False),
            ("safety3x2", dict(Tasks=[1, 2, 3], Ops=[1, 2, 3, 4, 5], ProcOps=[2, 4], WeakOps=[2], CancelOp=3, CancelTarget=2, AliasOp=5, AliasTarget=2, FailOps=[1, 4], MaxCalls=2, CreditGames=False), False),
            ("live_proc4", dict(Tasks=[1, 2, 3, 4], Ops=[1, 2, 4], ProcOps=[2, 4], WeakOps=[], CancelOp=0, CancelTarget=2, FailOps=[1, 4], MaxCalls=1, CreditGames=False), True),
            ("live_cancel3", dict(Tasks=[1, 2, 3], Ops=[1, 2, 3, 4], ProcOps=[2], WeakOps=[2], CancelOp=3, CancelTarget=2, AliasOp=4, AliasTarget=2, FailOps=[1], MaxCalls=1, CreditGames=True), True),
            ("live_3proc", dict(Tasks=[1, 2, 3], Ops=[2, 4, 5], ProcOps=[2, 4, 5], WeakOps=[], CancelOp=0, CancelTarget=2, MaxCalls=1, CreditGames=False), True),
        ]
    with concurrent.futures.ThreadPoolExecutor(max_workers=len(runs)) as ex:
        futs = [ex.submit(run_mc, ctx, n, c, live, 4) for (n, c, live) in runs]
        results = [f.result() for f in futs]
    for res in results:
        if res["violation"]:
            raise tlc.TlcError(f"Command.tla ({res['name']}) violates {res['violation']} in the model itself:\n{res['out'][-2500:]}")
        need = list(ACTIONS) + (["CtrlCredit"] if res["consts"]["CreditGames"] else []) + (["FailOne"] if res["consts"].get("FailOps") else [])
        tlc.require_actions(res, need, f"Command.tla/{res['name']}")
        rep.add_mc(f"Hci/Command.tla[{res['name']}{', liveness' if res['live'] else ''}]", res, res["consts"])
    return results


# ============================================================================= (B) recording
BLANK = dict(e="", t=0, op=0, k="", st="", n=0, keys=[], ckey="", wk=False, ty="", rop=0, out="", pend=[], hf=False)


def opclass(op):
    """input class of an opcode, for signatures only (never for the verdict)"""
    from bumble import hci
    from bumble.controller import Controller

    cls = hci.HCI_Command.command_classes.get(op)
    if cls is None:
        return "unknown-opcode"
    if hasattr(Controller, "on_" + cls.name.lower()):
        return cls.name
    return "async-unhandled" if issubclass(cls, hci.HCI_AsyncCommand) else "sync-unhandled"


def opname(op):
    from bumble import hci

    cls = hci.HCI_Command.command_classes.get(op)
    return cls.name if cls else f"opcode 0x{op:04X}"


class Recorder:
    """One trace = one host<->controller pair."""

    def __init__(self, name):
        self.name = name
        self.on = False
        self.events = []
        self.tasks = {}
        self.open_calls = {}  # task id -> opcode
        self.cur_cmd = None  # last command handed to the controller
        self.weak_keys = set()  # scenario knowledge: procedures that may stay pending (peer never advertises)
        self.present = set()  # addresses (hex, wire order) of peers that are on the link
        self.situation = None  # scenario override for labels, e.g. "vanished-peer"
        self.live = set()  # connection handles that are up, as told by the events seen so far
        self.labels = {}  # procedure key -> situation label (signatures only)
        self.notes = []
        self.crossed = set()  # task ids whose current call has put its packet on the transport
        self.sink_failed = set()  # task ids whose current call saw the transport sink raise

    def _cur_task_id(self):
        try:
            return self.task_id() if asyncio.current_task() is not None else 0
        except RuntimeError:
            return 0

    def ev(self, e, **kw):
        d = dict(BLANK)
        d["e"] = e
        d.update(kw)
        self.events.append(d)

    def task_id(self):
        t = asyncio.current_task()
        if t not in self.tasks:
            self.tasks[t] = len(self.tasks) + 1
            if len(self.tasks) > NTASKS:
                raise Harness("more tasks than the trace configuration provides")
        return self.tasks[t]

    # --- tap side
    def h2c(self, pkt):
        if self.on:
            self.crossed.add(self._cur_task_id())  # Host.send_hci_packet runs in the caller's task
            self.ev("h2c", op=H.opcode_of(pkt))

    def sink_raises(self):
        self.sink_failed.add(self._cur_task_id())

    def rcv(self, pkt):
        if self.on:
            self.cur_cmd = pkt
            self.ev("rcv", op=H.opcode_of(pkt))

    def _label(self, key):
        kind, _, arg = key.partition(":")
        if kind == "lecon":
            return "absent-peer" if key in self.weak_keys else "present-peer"
        if kind in ("con", "name"):
            return "present-peer" if arg in self.present else "absent-peer"
        known = int(arg, 16) in self.live
        if known and self.situation:
            return self.situation
        return "live-handle" if known else "unknown-handle"

    def c2h(self, pkt):
        if not self.on:
            return
        c = H.classify_c2h(pkt)
        if c is None:
            return
        if c["ty"] == "rep":
            keys, ckey = [], ""
            if self.cur_cmd is not None and H.opcode_of(self.cur_cmd) == c["op"]:
                keys, ckey = H.proc_keys(self.cur_cmd), H.cancel_key(self.cur_cmd)
            st = "ok" if c["status"] == 0 else "err"
            if c["k"] == "cs" and st == "ok":
                for k in keys:
                    self.labels.setdefault(k, self._label(k))
            if ckey and st == "ok" and ckey in self.labels:
                self.labels[ckey] = "cancelled"
            self.ev("c2h", k=c["k"], op=c["op"], st=st, n=min(c["n"], 1), keys=keys, ckey=ckey,
                    wk=bool(keys) and all(k in self.weak_keys for k in keys), code=c["status"])
        elif c["ty"] == "nop":
            self.ev("nop", n=min(c["n"], 1))
        else:
            if c.get("up"):
                self.live.add(c["handle"])
            if c.get("down"):
                self.live.discard(c["handle"])
            for k in c["keys"]:
                self.labels.pop(k, None)
            self.ev("evt", keys=c["keys"], name=c["name"], code=c["status"], handle=c.get("handle", 0))

    def dlv(self, pkt):
        if not self.on:
            return
        c = H.classify_c2h(pkt)
        if c is None:
            return
        self.ev("dlv", ty=c["ty"], op=c.get("op", 0))

    def quiesce(self):
        self.ev("quiesce", pend=sorted(self.open_calls))


class RecTap(rig.HciTap):
    """rig.HciTap that also reports the delivery side of both delay lines, and can hand the host's packets to a
    scripted controller instead of a real one."""

    def __init__(self, host, controller, rec, rng=None, max_delay=0.0, puppet=None):
        super().__init__(host, controller, rng=rng, max_delay=max_delay)
        self.rec = rec
        self.puppet = puppet
        self.fail_h2c = 0  # number of command packets for which the sink's on_packet raises (a failing transport write)

    def _h2c(self, packet):
        packet = bytes(packet)
        if packet[0] == 0x01:
            if self.fail_h2c > 0 and self.rec.on:
                self.fail_h2c -= 1
                self.rec.sink_raises()
                raise OSError("transport write failed (injected by the harness)")  # nothing crosses to the controller
            self.rec.h2c(packet)
        super()._h2c(packet)

    def _c2h(self, packet):
        self.rec.c2h(bytes(packet))
        super()._c2h(packet)

    def _to_controller(self, packet):
        if packet[0] == 0x01:
            self.rec.rcv(packet)
        if self.puppet is not None:
            self.puppet(packet)
        else:
            super()._to_controller(packet)

    react = None  # callable(when, packet): lets a scenario start caller tasks right before / after a delivery

    def _to_host(self, packet):
        self.rec.dlv(packet)
        if self.react is not None:
            self.react("pre", packet)
        super()._to_host(packet)
        if self.react is not None:
            self.react("post", packet)


FUNNELS = ("send_command", "send_sync_command_raw", "send_async_command")


def unserialisable(command):
    """the command object cannot be turned into a packet (public operation: bytes(command))"""
    try:
        bytes(command)
        return False
    except Exception:
        return True


def instrument(host, rec):
    """call / ret events for everything that enters the host's command path (public entry points that lead
    straight into Host._send_command; send_sync_command goes through send_sync_command_raw)."""
    from bumble import hci

    def wrap(name):
        orig = getattr(host, name)

        async def wrapper(command, *a, **kw):
            if not rec.on:
                return await orig(command, *a, **kw)
            t = rec.task_id()
            rec.open_calls[t] = command.op_code
            rec.crossed.discard(t)
            rec.sink_failed.discard(t)
            rec.ev("call", t=t, op=command.op_code)
            try:
                r = await orig(command, *a, **kw)
            except hci.HCI_Error:
                # the reply arrived; its status was turned into an exception
                if rec.on:
                    rec.open_calls.pop(t, None)
                    rec.ev("ret", t=t, out="ok", rop=0, k="")
                raise
            except BaseException as e:
                if rec.on:
                    rec.open_calls.pop(t, None)
                    # hand-over failure: no packet of this call crossed the tap AND the harness knows why it could not
                    # (the sink raised for it, or the command object cannot be turned into bytes at all).  Any other
                    # exception out of a call is left to the trace specification, which has no action for it.
                    hf = t not in rec.crossed and (t in rec.sink_failed or unserialisable(command))
                    rec.ev("ret", t=t, out="exc:" + type(e).__name__, rop=0, k="", hf=hf)
                raise
            if rec.on:
                rec.open_calls.pop(t, None)
                rop, k = 0, ""
                if hasattr(r, "command_opcode"):
                    rop = r.command_opcode
                    k = "cs" if isinstance(r, hci.HCI_Command_Status_Event) else "cc"
                rec.ev("ret", t=t, out="ok", rop=rop, k=k)
            return r

        setattr(host, name, wrapper)

    for n in FUNNELS:
        wrap(n)


class Stack:
    def __init__(self, i, link, rng, max_delay, controller_factory=None, controller_cfg=None, puppet=None, host_factory=None):
        from bumble.controller import Controller
        from bumble.host import Host

        self.i = i
        self.rec = Recorder(f"S{i}")
        self.address = rig.addr(i)
        self.controller = None
        if puppet is None:
            self.controller = (controller_factory or Controller)(f"C{i}", link=link, public_address=self.address)
            for k, v in (controller_cfg or {}).items():
                setattr(self.controller, k, v)
        self.host = (host_factory or Host)()
        self.tap = RecTap(self.host, self.controller, self.rec, rng=rng, max_delay=max_delay, puppet=puppet)
        instrument(self.host, self.rec)

    @property
    def wire_addr(self):
        from bumble.hci import Address

        return bytes(Address(self.address)).hex()


def _guarded_loop():
    """virtual-time loop with a guard against zero-delay timer spinning (a harness hazard, not a verdict)"""
    loop = vt.new_loop()
    sel = loop._selector
    orig = sel.select
    state = {"n": 0, "t": -1.0}

    def select(timeout=None):
        if loop.time() == state["t"]:
            state["n"] += 1
            if state["n"] > 400000:
                raise Harness("event loop spins without advancing virtual time")
        else:
            state["t"] = loop.time()
            state["n"] = 0
        return orig(timeout)

    sel.select = select
    return loop


def run_world(build, virtual=120.0, early=None):
    """build(): coroutine that creates stacks, brings them up, turns recording on, starts caller tasks and
    returns the list of stacks.  The loop then runs until nothing is left to do (bounded virtual time, far beyond
    every time-out of the stack) and every recorder logs `quiesce`."""
    loop = _guarded_loop()
    errors = []
    loop.set_exception_handler(lambda l, c: errors.append(c))
    try:
        main = loop.create_task(build())
        loop.run_until_quiescent(max_virtual=virtual)
        if not main.done():
            for s in early or []:  # stacks that record their own set-up: the trace says where it hangs
                if s.rec.on:
                    s.rec.quiesce()
                    s.rec.on = False
            raise SetupStuck("scenario set-up did not complete")
        stacks = main.result()
        for s in stacks:
            for c in errors:
                e = c.get("exception")
                s.rec.notes.append(f"{type(e).__name__}: {e}" if e else str(c.get("message")))
            if s.rec.on:
                s.rec.quiesce()
                s.rec.on = False
        return stacks
    finally:
        vt.close_loop(loop)


async def bring_up(stacks, record=False):
    from bumble import hci

    for s in stacks:
        s.rec.on = record
        if s.controller is not None:
            await s.host.reset()
            # the virtual controller's legacy advertiser starts with interval 0 (a zero-delay timer): give it
            # the parameters every host sets before it enables advertising
            await s.host.send_command(hci.HCI_LE_Set_Advertising_Parameters_Command(
                advertising_interval_min=0x0800, advertising_interval_max=0x0800, advertising_type=0, own_address_type=0,
                peer_address_type=0, peer_address=hci.Address.ANY, advertising_channel_map=7, advertising_filter_policy=0))
        else:
            s.host.ready = True
    await asyncio.sleep(1.0)
    for s in stacks:
        s.rec.on = True


async def caller(stack, cmds, rng, gap=0.05):
    """one caller task: issues its commands one after the other.  An item ("sinkfail", command) arms the tap so that
    the transport sink raises for the next command packet the host writes (normally this one)."""
    for c in cmds:
        if gap:
            await asyncio.sleep(rng.uniform(0, gap))
        if isinstance(c, tuple):
            stack.tap.fail_h2c += 1
            c = c[1]
        try:
            await stack.host.send_command(c)
        except Exception:
            pass  # logged as ret(exc) by the instrumentation; the trace decides


# ============================================================================= catalogue of commands
UNKNOWN_OPCODES = (
    [0xFC00, 0xFC01, 0xFC77, 0xFCFF, 0xFD00, 0xFE34, 0xFFFF]  # vendor (OGF 0x3F)
    + [0x1C01, 0x1FFF, 0x2401, 0x3C10, 0xF801]  # reserved OGFs 0x07, 0x09, 0x0F, 0x3E
    + [0x0400, 0x04FF, 0x0BFF, 0x0C00, 0x13F0, 0x1001 + 0x3FE, 0x17FF, 0x2000, 0x23FF]  # unassigned OCFs of known OGFs
)

_PATCH_MIN_INTERVAL = {0x2006: [(0, 2), (2, 2)], 0x2036: [(3, 3), (6, 3)], 0x207F: [(3, 3), (6, 3)]}


def _sane(op, params):
    """advertising intervals below the specification's minimum make the virtual controller's advertising
    timer fire in zero virtual time (a hazard for the harness, unrelated to C03): keep them >= 0x20"""
    p = bytearray(params)
    for off, n in _PATCH_MIN_INTERVAL.get(op, []):
        if len(p) >= off + n and int.from_bytes(p[off:off + n], "little") < 0x20:
            p[off:off + n] = (0x0800).to_bytes(n, "little")
    return bytes(p)


def param_blobs(cls, rng, nrand=2):
    """parameter fillings the class itself can parse: constant fills 0x00 / 0x01 / 0x02 / 0xFF and seeded ones
    (array counts and length bytes kept small so that the packet stays below 255 bytes)"""
    from bumble import hci

    out = []
    seen = set()

    custom = not cls.fields and "from_parameters" in cls.__dict__  # hand-written parser (phy-dependent layouts)

    def attempt(data):
        try:
            if custom:
                raw = bytes(cls.from_parameters(data))[4:]
            else:
                off, _ = hci.HCI_Object.dict_and_offset_from_bytes(data, 0, cls.fields)
                if off > len(data):
                    return
                raw = bytes(data[:off])
        except Exception:
            return
        if len(raw) > 255:
            return
        p = _sane(cls.op_code, raw)
        pkt = bytes([0x01, cls.op_code & 0xFF, cls.op_code >> 8, len(p)]) + p
        try:
            c = hci.HCI_Command.from_bytes(pkt)
            if bytes(c) != pkt:
                return
        except Exception:
            return
        if p not in seen:
            seen.add(p)
            out.append(pkt)

    for fill in (0x00, 0x01, 0x02, 0xFF):
        attempt(bytes([fill]) * 255)
    for _ in range(nrand * 4):
        if len(out) >= 4 + nrand:
            break
        # mostly small bytes (counts, enum values), some arbitrary ones
        attempt(bytes(rng.choice([0, 1, 2, 3, rng.randrange(256)]) for _ in range(255)))
    return out


def catalogue(rng):
    """[(opcode, packet bytes)] covering every registered class at least once, and the unregistered opcodes"""
    from bumble import hci

    items = []
    missing = []
    for op in sorted(hci.HCI_Command.command_classes):
        blobs = param_blobs(hci.HCI_Command.command_classes[op], rng)
        if not blobs:
            missing.append(op)
        items += [(op, b) for b in blobs]
    if missing:
        raise Harness(f"no parsable parameter filling for {[hex(o) for o in missing]}")
    for op in UNKNOWN_OPCODES:
        if op in hci.HCI_Command.command_classes:
            continue
        for p in (b"", bytes([rng.randrange(256) for _ in range(rng.randint(1, 12))])):
            items.append((op, bytes([0x01, op & 0xFF, op >> 8, len(p)]) + p))
    return items


# ----------------------------------------------------------------------------- commands whose hand-over fails
_SIZES = {1: 1, 2: 2, 3: 4, 4: 4, -1: 1, -2: 2, ">2": 2, ">4": 4}  # field spec -> bytes struct.pack is given room for


def _bad_values(spec):
    """values that do not fit a field of this spec (the constructor takes them, the serialiser cannot)"""
    if isinstance(spec, dict):
        if "serializer" in spec:
            return []
        spec = spec.get("size")
    if spec in _SIZES:
        n = _SIZES[spec]
        return [1 << (8 * n), (1 << (8 * n)) + 0x2345, -(1 << (8 * n)) - 1, 1 << 40]
    if spec == "v":
        return ["v256"]  # 256 bytes behind a one-byte length
    return []


def make_bad(d):
    """d: {op, base: hex of a well-formed packet of that class, field, idx (array element or -1), value} -> command object
    built by the class' own constructor from the parsed fields of `base`, with one field given a value that does not fit"""
    from bumble import hci

    cls = hci.HCI_Command.command_classes[d["op"]]
    kw = hci.HCI_Object.dict_from_bytes(bytes.fromhex(d["base"])[4:], 0, cls.fields)
    v = bytes(256) if d["value"] == "v256" else d["value"]
    if d["idx"] >= 0:
        arr = list(kw[d["field"]])
        arr[d["idx"]] = v
        v = arr
    kw[d["field"]] = v
    return cls(**kw)


def bad_catalogue(by_op, rng, per_class=1):
    """[descriptor for make_bad]: for every class with declared fields, `per_class` (field, out-of-range value) picks that
    construct fine and cannot be serialised (checked here with bytes(); picks that do serialise are dropped)"""
    from bumble import hci

    out = []
    for op in sorted(by_op):
        cls = hci.HCI_Command.command_classes.get(op)
        if cls is None or not cls.fields or "from_parameters" in cls.__dict__:
            continue
        base = by_op[op][0]
        cands = []
        for f in cls.fields:
            if isinstance(f, list):
                try:
                    kw = hci.HCI_Object.dict_from_bytes(base[4:], 0, cls.fields)
                except Exception:
                    continue
                for name, spec in f:
                    if len(kw.get(name, ())) > 0:
                        cands += [(name, rng.randrange(len(kw[name])), v) for v in _bad_values(spec)]
            else:
                cands += [(f[0], -1, v) for v in _bad_values(f[1])]
        rng.shuffle(cands)
        got = 0
        for name, idx, v in cands:
            d = {"op": op, "base": base.hex(), "field": name, "idx": idx, "value": v}
            try:
                c = make_bad(d)
            except Exception:
                continue  # this class checks the value when the object is built: nothing to hand over
            if unserialisable(c):
                out.append(d)
                got += 1
                if got >= per_class:
                    break
    return out


def _item(x):
    """descriptor item -> what caller() takes: hex packet | {"bad": {...}} | {"sinkfail": hex packet}"""
    from bumble import hci

    if isinstance(x, str):
        return hci.HCI_Command.from_bytes(bytes.fromhex(x))
    if "bad" in x:
        return make_bad(x["bad"])
    return ("sinkfail", hci.HCI_Command.from_bytes(bytes.fromhex(x["sinkfail"])))


# controller capability sets.  Each entry: attribute -> how to derive it from the class default
def _ext_commands(default):
    """the default set plus the LE extended advertising / scanning / create connection commands (a controller
    on which hosts use the extended procedures)"""
    from bumble import hci

    extra = {v for n, v in vars(hci).items()
             if n.startswith("HCI_LE_") and n.endswith("_COMMAND") and isinstance(v, int)
             and ("EXTENDED" in n or "ADVERTISING_SET" in n or "PERIODIC_ADVERTISING" in n)}
    return set(default) | extra


# LE features whose absence changes what a controller does with a peer's LL procedure
LL_FEATURES = ["PERIPHERAL_INITIATED_FEATURE_EXCHANGE", "LE_ENCRYPTION", "CONNECTION_PARAMETERS_REQUEST_PROCEDURE", "EXTENDED_REJECT_INDICATION",
               "LE_PING", "LE_DATA_PACKET_LENGTH_EXTENSION", "LE_2M_PHY", "LE_EXTENDED_ADVERTISING", "CHANNEL_SELECTION_ALGORITHM_2",
               "CONNECTED_ISOCHRONOUS_STREAM_CENTRAL", "CONNECTED_ISOCHRONOUS_STREAM_PERIPHERAL"]
CAPS = [
    {},
    {"supported_commands": "none"},
    {"le_features": "none"},
    {"supported_commands": "ext"},
] + [{"le_features": "-" + f} for f in LL_FEATURES] + [{"supported_commands": "ext", "le_features": "-" + LL_FEATURES[0]}]
NCAPS0 = 4  # the first NCAPS0 sets are the coarse ones


def _cap_cfg(i, coarse=False):
    from bumble import hci
    from bumble.controller import Controller

    cfg = dict(CAPS[i % (NCAPS0 if coarse else len(CAPS))])
    if "supported_commands" in cfg:
        cfg["supported_commands"] = set() if cfg["supported_commands"] == "none" else _ext_commands(Controller.supported_commands)
    if "le_features" in cfg:
        if cfg["le_features"] == "none":
            cfg["le_features"] = hci.LeFeatureMask(0)
        else:
            bit = getattr(hci.LeFeatureMask, cfg["le_features"][1:], None)
            if bit is None:  # (a feature name this tree does not have: nothing to take away)
                del cfg["le_features"]
            else:
                cfg["le_features"] = hci.LeFeatureMask(Controller.le_features & ~bit)
    return cfg


def run_cat(desc, factories=None):
    """desc: {fam: cat, tasks: [[hex packet, ...], ...], seed, delay, cap}"""
    from bumble import hci
    from bumble.link import LocalLink

    rng = random.Random(desc["seed"])

    async def build():
        link = LocalLink()
        # (a single controller without peer: only the coarse capability sets make a difference)
        s = Stack(0, link, rng, desc["delay"], controller_cfg=_cap_cfg(desc.get("cap", 0), coarse=True), **(factories or {}))
        await bring_up([s])
        s.rec.weak_keys = {"lecon"}  # nobody else is on this link: an LE create connection may stay pending
        for cmds in desc["tasks"]:
            objs = [_item(h) for h in cmds]
            asyncio.get_running_loop().create_task(caller(s, objs, rng))
        # reactive callers: a task whose first step is a command is created in the very loop iteration in which the
        # n-th reply is handed to the host, just before ("pre": it runs between the delivery and the wake-up of the
        # task that sent the answered command) or just after it - what an event listener that issues a command does
        react = [dict(r) for r in desc.get("react", [])]
        if react:
            seen = [0]
            loop = asyncio.get_running_loop()

            def hook(when, packet):
                if not s.rec.on or len(packet) < 2 or packet[0] != 0x04 or packet[1] not in (0x0E, 0x0F):
                    return
                if when == "pre":
                    seen[0] += 1
                for r in react:
                    if r["at"] == seen[0] and r["when"] == when and not r.get("done"):
                        r["done"] = True
                        loop.create_task(caller(s, [hci.HCI_Command.from_bytes(bytes.fromhex(r["cmd"]))], rng, gap=0))

            s.tap.react = hook
        return [s]

    return run_world(build, virtual=60.0)


# ============================================================================= validation by CommandTrace.tla
def trace_cfg(ctx):
    p = os.path.join(ctx.out, "trace.cfg")
    with open(p, "w") as f:
        f.write("SPECIFICATION TraceSpec\nCONSTANTS\n"
                f"  Tasks = {_set(range(1, NTASKS + 1))}\n  Ops = {{}}\n  ProcOps = {{}}\n  WeakOps = {{}}\n"
                "  CancelOp = 0\n  CancelTarget = 0\n  AliasOp = 0\n  AliasTarget = 0\n  FailOps = {}\n  MaxCalls = 1000000\n  CreditGames = TRUE\n"
                "  HostBug = \"none\"\n  CtrlBug = \"none\"\n"
                "INVARIANT Inv_OneOutstanding\nINVARIANT Inv_OneInFlight\nINVARIANT Inv_OwnOpcode\nINVARIANT Inv_Credit\nINVARIANT Inv_Pending\nINVARIANT Inv_SlotFree\n"
                "CHECK_DEADLOCK FALSE\n")
    return p


def _fn(v):
    """TLC prints a function with domain 1..n as a tuple"""
    if isinstance(v, tuple):
        return {i + 1: x for i, x in enumerate(v)}
    return {int(k): x for k, x in v.items()} if isinstance(v, dict) else v


def diagnose(tr, meta, l, st):
    """signature + summary of a rejected trace.  st: the spec state in front of the event that has no
    matching action.  Raises Harness if the rejection can only be the harness' own fault."""
    ev = tr[l - 1]
    e = ev["e"]
    sit = meta.get("situation")
    suffix = f":{sit}" if sit else ""
    task = _fn(st.get("task", {}))
    ops = _fn(st.get("op", {}))
    cur = st.get("cur", 0)
    waiting = sorted(t for t, s in task.items() if s != "idle")
    if e == "quiesce":
        if cur:
            return (f"controller:reply:none:{opclass(cur)}{suffix}",
                    f"the controller took {opname(cur)} and never sent Command Complete / Command Status for it; "
                    f"callers still waiting at quiescence: {[(t, opname(ops[t])) for t in waiting]}")
        if st.get("h2c"):
            raise Harness(f"command still in the delay line at quiescence: {st}")
        if any(task[t] in ("waitrsp", "ready") for t in waiting) or st.get("nc2h"):
            t = [t for t in waiting if task[t] in ("waitrsp", "ready")]
            return ("host:return:none", f"the reply was emitted but the caller never resumed: tasks {t}, state {st}")
        if waiting:
            if any(x["e"] == "ret" and x["hf"] for x in tr[:l]):
                n = sum(1 for x in tr[:l] if x["e"] == "ret" and x["hf"])
                return ("host:send:blocked:after-handover-failure",
                        f"after {n} call(s) ended with an exception because the command could not be handed to the transport (nothing crossed to the "
                        f"controller), callers {[(t, opname(ops[t])) for t in waiting]} wait for the command semaphore for ever although nothing is outstanding")
            return ("host:send:blocked", f"callers {[(t, opname(ops[t])) for t in waiting]} still wait for the command semaphore with nothing outstanding")
        open_ = sorted(set(st.get("ctrlProc", ())) - set(st.get("weak", ())))
        if open_:
            key = open_[0]
            kind = key.partition(":")[0]
            label = meta["labels"].get(key, "?")
            return (f"controller:conclude:none:{kind}:{label}",
                    f"procedure {key} ({label}) was accepted as pending (Command Status 0) and never concluded by its completion event; open at quiescence: {open_}")
        if st.get("owed"):
            return ("controller:credit:none", "a reply carried Num_HCI_Command_Packets = 0 and the credit was never granted")
        if ev["pend"]:
            raise Harness(f"driver sees pending calls {ev['pend']} the spec does not: {st}")
        raise Harness(f"unexplained quiesce rejection: {st}")
    if e == "h2c":
        if st.get("sem") == 0:
            out = cur or (st.get("h2c") or (0,))[0] or st["pending"]["op"]
            return ("host:send:second-outstanding",
                    f"the host sent {opname(ev['op'])} while {opname(out) if out else 'a command'} was still outstanding (its reply not consumed yet)")
        return ("host:send:unsolicited", f"the host sent {opname(ev['op'])} that no caller is waiting to send; state {st}")
    if e == "c2h":
        if not cur:
            return (f"controller:reply:unsolicited:{opclass(ev['op'])}{suffix}",
                    f"the controller sent a {ev['k']} for {opname(ev['op'])} although no command was in hand (second reply, or reply to nothing)")
        if cur != ev["op"]:
            return (f"controller:reply:foreign-opcode:{opclass(cur)}{suffix}",
                    f"the controller answered {opname(cur)} with a {ev['k']} carrying the opcode of {opname(ev['op'])}")
        return ("controller:reply:credit", f"reply not admissible in state {st}: {ev}")
    if e == "ret":
        if ev["out"] != "ok" and ev["hf"]:
            raise Harness(f"a failed hand-over was logged for task {ev['t']} which the specification does not see waiting to send: {st}")
        if ev["out"] != "ok":
            return (f"host:return:{ev['out']}", f"send_command raised {ev['out']} for task {ev['t']} ({opname(ops.get(ev['t'], 0))})")
        return ("host:return:wrong-reply",
                f"task {ev['t']} (sent {opname(ops.get(ev['t'], 0))}) returned with a reply for {opname(ev['rop'])}; task states {task}")
    if e == "nop":
        return ("controller:credit:unsolicited", "credit-only Command Complete although no credit was withheld")
    raise Harness(f"trace rejected at a harness-level event {ev} in state {st}")


def validate(ctx, rep, runs, chunk=350, tag="trace"):
    """runs: list of (descriptor, stacks).  Validates every recorded trace; reports violations."""
    items = []
    for desc, stacks in runs:
        for s in stacks:
            if not s.rec.events:
                continue
            meta = {"labels": dict(s.rec.labels), "situation": s.rec.situation, "notes": s.rec.notes[:4], "stack": s.i}
            items.append((desc, s.rec.events, meta))
    cfg = trace_cfg(ctx)
    nev = sum(len(tr) for (_, tr, _) in items)
    if nev <= 3000:
        chunk = max(len(items), 1)  # one JVM start is cheaper than two small batches
    else:  # about 1.2k events/s per TLC: spread over up to 6 JVMs
        chunk = min(chunk, max(1, -(-len(items) // 6)))
    # long traces are spread evenly over the chunks (proc traces are ten times as long as single-command ones)
    order = sorted(range(len(items)), key=lambda i: -len(items[i][1]))
    nch = -(-len(items) // chunk) if items else 1
    chunks = [[items[i] for i in order[c::nch]] for c in range(nch)]
    chunks = [ch for ch in chunks if ch]

    def one(ch):
        return tlc.trace_batch(ctx.spec("Hci", "CommandTrace.tla"), cfg, [tr for (_, tr, _) in ch], tag=tag)

    with concurrent.futures.ThreadPoolExecutor(max_workers=6) as ex:
        results = list(ex.map(one, chunks))
    bad = 0
    for ch, res in zip(chunks, results):
        rep.extra["trace_states"] = rep.extra.get("trace_states", 0) + res["states"]
        for tid, v in sorted(res["verdicts"].items()):
            desc, tr, meta = ch[tid - 1]
            rep.traces += 1
            key = (desc["fam"], desc.get("name", ""), tuple((e["e"], e["op"], e["k"], e["st"], tuple(e["keys"])) for e in tr))
            rep.case(key, nontrivial=len(tr) > 2,
                     sample={"family": desc["fam"], "name": desc.get("name", ""), "events": [{k: v for k, v in e.items() if v not in ("", 0, [], False)} for e in tr[:8]]})
            if v[0] == "ACCEPT":
                continue
            bad += 1
            l = v[1]
            if not (0 < l <= len(tr)):
                raise Harness(f"no verdict for a trace: {v}")
            sig, summary = diagnose(tr, meta, l, v[3] if len(v) > 3 and isinstance(v[3], dict) else {})
            if meta["notes"]:
                summary += f"; exceptions seen by the event loop: {meta['notes']}"
            where = f"{desc['fam']}/{desc.get('name', '')}" + (f" variant {desc['variant']}" if "variant" in desc else "")
            if desc.get("caps"):
                where += " capability sets " + " / ".join(json.dumps(CAPS[i % len(CAPS)]) or "{}" for i in desc["caps"])
            rep.violation(sig, f"[{where} stack {meta['stack']}] event {l} ({tr[l - 1]['e']}): {summary}",
                          {"desc": desc, "stack": meta["stack"], "line": l, "trace": tr})
    return bad


# ============================================================================= procedure scenarios
ABSENT = "C9:C9:C9:C9:C9:C9"
UNKNOWN_HANDLE = 0x0EEE


class World:
    def __init__(self, desc, factories=None):
        from bumble.link import LocalLink

        self.factories = factories or {}
        self.desc = desc
        self.rng = random.Random(desc["seed"])
        self.delay = desc["delay"]
        self.link = LocalLink()
        self.stacks = []
        self.errors = []
        self.scripts = 0
        self.completed = 0

    def stack(self, **kw):
        caps = self.desc.get("caps")  # capability set per stack, in creation order
        if caps and len(self.stacks) < len(caps) and "controller_cfg" not in kw:
            kw["controller_cfg"] = _cap_cfg(caps[len(self.stacks)])
        s = Stack(len(self.stacks), self.link, self.rng, self.delay, **{**self.factories, **kw})
        self.stacks.append(s)
        return s

    async def up(self):
        await bring_up(self.stacks)
        present = {s.wire_addr for s in self.stacks}
        for s in self.stacks:
            s.rec.present = set(present)

    def noise(self, s, n=4):
        """K - 1 further caller tasks that keep the command path busy while the scripted task works"""
        from bumble import hci

        pool = [hci.HCI_Read_BD_ADDR_Command, hci.HCI_LE_Rand_Command, hci.HCI_Read_Local_Version_Information_Command,
                hci.HCI_LE_Read_Buffer_Size_Command, hci.HCI_Read_Local_Supported_Features_Command]
        for _ in range(self.desc.get("k", 1) - 1):
            cmds = [self.rng.choice(pool)() for _ in range(n)]
            asyncio.get_running_loop().create_task(caller(s, cmds, self.rng, gap=0.3))

    def script(self, coro):
        async def guarded():
            self.scripts += 1
            try:
                await coro
                self.completed += 1
            except (TimeoutError, CommandFailed):
                pass  # the trace has it (ret(exc) / an unconcluded procedure); the script just ends
            except Exception as e:  # anything else is the harness' own fault
                self.errors.append(e)

        asyncio.get_running_loop().create_task(guarded())


class CommandFailed(Exception):
    pass


async def cmd(s, c):
    try:
        return await s.host.send_command(c)
    except Exception as e:
        raise CommandFailed(repr(e)) from e


async def until(pred, timeout=30.0):
    t = 0.0
    while not pred():
        if t >= timeout:
            raise TimeoutError()
        await asyncio.sleep(0.05)
        t += 0.05


def last_up(s):
    """handle of the latest connection reported up on stack s (from the controller's own events)"""
    for e in reversed(s.rec.events):
        if e["e"] == "evt" and e.get("name") in ("LE_Connection_Complete", "Connection_Complete") and e.get("code") == 0:
            return e["handle"]
    return None


def _le_create(peer, own=0):
    from bumble import hci

    return hci.HCI_LE_Create_Connection_Command(
        le_scan_interval=96, le_scan_window=96, initiator_filter_policy=0, peer_address_type=0,
        peer_address=hci.Address(peer, hci.Address.PUBLIC_DEVICE_ADDRESS), own_address_type=own,
        connection_interval_min=24, connection_interval_max=40, max_latency=0, supervision_timeout=72, min_ce_length=0, max_ce_length=0)


def _le_create_ext(peer, own=0, phys=1):
    from bumble import hci

    n = bin(phys).count("1")
    return hci.HCI_LE_Extended_Create_Connection_Command(
        initiator_filter_policy=0, own_address_type=own, peer_address_type=0, peer_address=hci.Address(peer, hci.Address.PUBLIC_DEVICE_ADDRESS),
        initiating_phys=phys, scan_intervals=[96] * n, scan_windows=[96] * n, connection_interval_mins=[24] * n, connection_interval_maxs=[40] * n,
        max_latencies=[0] * n, supervision_timeouts=[72] * n, min_ce_lengths=[0] * n, max_ce_lengths=[0] * n)


async def _le_connect(w, c, p, ext=False):
    from bumble import hci

    await cmd(p, hci.HCI_LE_Set_Advertising_Enable_Command(advertising_enable=1))
    await cmd(c, _le_create_ext(p.address) if ext else _le_create(p.address))
    await until(lambda: last_up(c) is not None and last_up(p) is not None)
    return last_up(c), last_up(p)


async def _classic_connect(w, a, b):
    from bumble import hci

    def on_request(bd_addr, cod, link_type):
        w.script(cmd(b, hci.HCI_Accept_Connection_Request_Command(bd_addr=bd_addr, role=1)))

    b.host.on("connection_request", on_request)
    await cmd(b, hci.HCI_Write_Scan_Enable_Command(scan_enable=3))
    await cmd(a, hci.HCI_Create_Connection_Command(bd_addr=hci.Address(b.address, hci.Address.PUBLIC_DEVICE_ADDRESS), packet_type=0xCC18,
                                                   page_scan_repetition_mode=2, reserved=0, clock_offset=0, allow_role_switch=1))
    await until(lambda: last_up(a) is not None and last_up(b) is not None)
    return last_up(a), last_up(b)


def _enc(h):
    from bumble import hci

    return hci.HCI_LE_Enable_Encryption_Command(connection_handle=h, random_number=bytes(8), encrypted_diversifier=0, long_term_key=bytes(range(16)))


async def sc_le_session(w):
    """LE create connection towards an advertising peer, remote features from both ends, encryption, disconnect"""
    from bumble import hci

    c, p = w.stack(), w.stack()
    await w.up()
    w.noise(c)

    async def script():
        hc, hp = await _le_connect(w, c, p)
        await cmd(c, hci.HCI_LE_Read_Remote_Features_Command(connection_handle=hc))
        await cmd(p, hci.HCI_LE_Read_Remote_Features_Command(connection_handle=hp))
        await asyncio.sleep(1.0)
        await cmd(c, _enc(hc))
        await asyncio.sleep(1.0)
        await cmd(c if w.desc.get("variant", 0) % 2 == 0 else p, hci.HCI_Disconnect_Command(connection_handle=hc if w.desc.get("variant", 0) % 2 == 0 else hp, reason=0x13))

    w.script(script())


async def sc_disconnect_unknown(w):
    """Disconnect for a handle that has no connection (never had one / had one that is already gone)"""
    from bumble import hci

    c, p = w.stack(), w.stack()
    await w.up()
    w.noise(c)

    async def script():
        if w.desc.get("variant", 0) % 2 == 0:
            await cmd(c, hci.HCI_Disconnect_Command(connection_handle=UNKNOWN_HANDLE, reason=0x13))
        else:
            hc, hp = await _le_connect(w, c, p)
            await cmd(c, hci.HCI_Disconnect_Command(connection_handle=hc, reason=0x13))
            await asyncio.sleep(2.0)
            await cmd(c, hci.HCI_Disconnect_Command(connection_handle=hc, reason=0x13))

    w.script(script())


async def sc_le_create_absent(w):
    """LE create connection towards an address nobody advertises with; variant 0: left pending (legitimate),
    1: cancelled, 2: cancelled and a new create connection afterwards"""
    from bumble import hci

    c, p = w.stack(), w.stack()
    await w.up()
    c.rec.weak_keys = {"lecon"}
    w.noise(c)

    async def script():
        v = w.desc.get("variant", 0) % 3
        await cmd(c, _le_create(ABSENT))
        await asyncio.sleep(3.0)
        if v >= 1:
            await cmd(c, hci.HCI_LE_Create_Connection_Cancel_Command())
            await asyncio.sleep(3.0)
        if v == 2:
            await cmd(c, _le_create(ABSENT))

    w.script(script())


async def sc_le_cancel_misc(w):
    """cancel with nothing pending; cancel racing a create connection towards a present peer"""
    from bumble import hci

    c, p = w.stack(), w.stack()
    await w.up()
    w.noise(c)

    async def script():
        await cmd(c, hci.HCI_LE_Create_Connection_Cancel_Command())
        await cmd(p, hci.HCI_LE_Set_Advertising_Enable_Command(advertising_enable=1))
        w.script(cmd(c, _le_create(p.address)))
        await asyncio.sleep(w.rng.uniform(0, 0.3))
        await cmd(c, hci.HCI_LE_Create_Connection_Cancel_Command())

    w.script(script())


async def sc_le_second(w):
    """a second LE connection creation (legacy or extended command) while one is pending at the controller, then
    nothing / cancel / cancel and a new creation / the peer starts advertising.  Whatever the controller decides,
    each reply has to name the command that is outstanding, and a cancelled or completed creation is concluded.
    variant = first (legacy | extended) x second (legacy | extended) x what follows (4) x second issued concurrently or not"""
    from bumble import hci

    c, p = w.stack(), w.stack()
    await w.up()
    v = w.desc.get("variant", 0)
    first, second, then, race = v % 2, (v // 2) % 2, (v // 4) % 4, (v // 16) % 2
    target = p.address if then == 3 else ABSENT
    if then != 3:
        c.rec.weak_keys = {"lecon"}  # nobody advertises with that address: the creation may stay pending
    w.noise(c)
    mk = [_le_create, _le_create_ext]

    async def script():
        if race:  # both creations queued in the host at the same time
            w.script(cmd(c, mk[first](target)))
            await asyncio.sleep(0)
            await cmd(c, mk[second](target))
        else:
            await cmd(c, mk[first](target))
            await asyncio.sleep(w.rng.uniform(0.0, 2.0))
            await cmd(c, mk[second](target))
        await asyncio.sleep(2.0)
        if then in (1, 2):
            await cmd(c, hci.HCI_LE_Create_Connection_Cancel_Command())
            await asyncio.sleep(2.0)
            if then == 2:
                await cmd(c, mk[1 - first](target))
                await cmd(c, mk[first](target))
                await cmd(c, hci.HCI_LE_Create_Connection_Cancel_Command())
        elif then == 3:
            await cmd(p, hci.HCI_LE_Set_Advertising_Enable_Command(advertising_enable=1))
            await until(lambda: last_up(c) is not None)
            await cmd(c, mk[second](ABSENT))  # the creation is over: a new one is a new procedure
            await cmd(c, hci.HCI_LE_Create_Connection_Cancel_Command())

    w.script(script())


async def sc_le_roles(w):
    """the handle-addressed procedures issued from BOTH ends of an LE connection (central and peripheral), under the
    capability sets of the two controllers given by desc["caps"]: LE Read Remote Features, Read Remote Version
    Information, Read Remote Supported Features, LE Enable Encryption, then - depending on the variant - the link is
    left up (a Disconnection Complete would conclude whatever is pending and hide a procedure that is never concluded
    on its own) or disconnected by either end.
    variant % 4: 0 = central first, link stays up; 1 = peripheral first, link stays up; 2 / 3 = disconnect by central / peripheral;
    variant // 4 % 2: connection created with the extended command"""
    from bumble import hci

    c, p = w.stack(), w.stack()
    await w.up()
    v = w.desc.get("variant", 0)
    w.noise(c if v % 2 == 0 else p)

    async def script():
        hc, hp = await _le_connect(w, c, p, ext=bool((v // 4) % 2))
        ends = [(c, hc), (p, hp)]
        if v % 2:
            ends.reverse()
        for mk in (lambda h: hci.HCI_LE_Read_Remote_Features_Command(connection_handle=h),
                   lambda h: hci.HCI_Read_Remote_Version_Information_Command(connection_handle=h),
                   lambda h: hci.HCI_Read_Remote_Supported_Features_Command(connection_handle=h)):
            for s, h in ends:
                try:
                    await cmd(s, mk(h))
                except CommandFailed:
                    pass  # refused: a reply all the same (the trace has it)
            await asyncio.sleep(w.rng.choice([0.0, 1.0]))
        # the features once more from both ends at the same time
        for s, h in ends:
            w.script(cmd(s, hci.HCI_LE_Read_Remote_Features_Command(connection_handle=h)))
        await asyncio.sleep(2.0)
        for s, h in (ends if v % 4 < 2 else ends[:1]):
            try:
                await cmd(s, _enc(h))
            except CommandFailed:
                pass
            await asyncio.sleep(1.0)
        if v % 4 >= 2:
            s, h = (c, hc) if v % 4 == 2 else (p, hp)
            await cmd(s, hci.HCI_Disconnect_Command(connection_handle=h, reason=0x13))

    w.script(script())


async def sc_classic_absent(w):
    """classic create connection / remote name request towards an address that is not on the link"""
    from bumble import hci

    c, p = w.stack(), w.stack()
    await w.up()
    w.noise(c)
    absent = hci.Address(ABSENT, hci.Address.PUBLIC_DEVICE_ADDRESS)

    async def script():
        if w.desc.get("variant", 0) % 2 == 0:
            await cmd(c, hci.HCI_Create_Connection_Command(bd_addr=absent, packet_type=0xCC18, page_scan_repetition_mode=2, reserved=0, clock_offset=0, allow_role_switch=1))
        else:
            await cmd(c, hci.HCI_Remote_Name_Request_Command(bd_addr=absent, page_scan_repetition_mode=2, reserved=0, clock_offset=0))

    w.script(script())


async def sc_classic_session(w):
    """classic connection to a present peer, remote name, remote features, disconnect"""
    from bumble import hci

    a, b = w.stack(), w.stack()
    await w.up()
    w.noise(a)

    async def script():
        ha, hb = await _classic_connect(w, a, b)
        await cmd(a, hci.HCI_Remote_Name_Request_Command(bd_addr=hci.Address(b.address, hci.Address.PUBLIC_DEVICE_ADDRESS), page_scan_repetition_mode=2, reserved=0, clock_offset=0))
        await cmd(a, hci.HCI_Read_Remote_Supported_Features_Command(connection_handle=ha))
        # page numbers inside and beyond the peer's last features page: every accepted request must be concluded
        page = [1, 0, 3, 255][w.desc.get("variant", 0) % 4]
        await cmd(b, hci.HCI_Read_Remote_Extended_Features_Command(connection_handle=hb, page_number=page))
        if w.desc.get("variant", 0) % 4 >= 2:
            await cmd(a, hci.HCI_Read_Remote_Extended_Features_Command(connection_handle=ha, page_number=2))
        await asyncio.sleep(1.0)
        if w.desc.get("variant", 0) % 4 != 3:
            # (variant 3 leaves the link up: a Disconnection Complete concludes whatever was pending on the handle,
            # which would hide a procedure that is never concluded on its own)
            await cmd(a, hci.HCI_Disconnect_Command(connection_handle=ha, reason=0x13))

    w.script(script())


async def sc_classic_roles(w):
    """page with allow_role_switch in {0, 1}, accepted with role in {CENTRAL, PERIPHERAL}: the initiator's Create Connection
    and the acceptor's Accept Connection Request are both accepted as pending, so both ends are owed a Connection Complete
    (success, or an error when the role switch asked for is refused).  Nothing else is done on a link that did not come up:
    what is still pending at quiescence is the verdict."""
    from bumble import hci

    a, b = w.stack(), w.stack()
    await w.up()
    w.noise(b)
    v = w.desc.get("variant", 0) % 4
    allow, role = v % 2, v // 2  # role 0: the acceptor asks to become central (role switch before the accept)

    def on_request(bd_addr, cod, link_type):
        w.script(cmd(b, hci.HCI_Accept_Connection_Request_Command(bd_addr=bd_addr, role=role)))

    b.host.on("connection_request", on_request)

    async def script():
        await cmd(b, hci.HCI_Write_Scan_Enable_Command(scan_enable=3))
        await cmd(a, hci.HCI_Create_Connection_Command(bd_addr=hci.Address(b.address, hci.Address.PUBLIC_DEVICE_ADDRESS), packet_type=0xCC18,
                                                       page_scan_repetition_mode=2, reserved=0, clock_offset=0, allow_role_switch=allow))
        await asyncio.sleep(3.0)
        await cmd(b, hci.HCI_Read_BD_ADDR_Command())  # the acceptor's command path still works
        if last_up(a) is not None and last_up(b) is not None:
            await cmd(b, hci.HCI_Disconnect_Command(connection_handle=last_up(b), reason=0x13))

    w.script(script())


async def sc_unknown_handles(w):
    """handle-addressed procedure commands for a handle without connection: any single reply will do"""
    from bumble import hci

    c = w.stack()
    await w.up()
    w.noise(c)

    async def script():
        await cmd(c, hci.HCI_LE_Read_Remote_Features_Command(connection_handle=UNKNOWN_HANDLE))
        await cmd(c, _enc(UNKNOWN_HANDLE))
        await cmd(c, hci.HCI_Read_Remote_Supported_Features_Command(connection_handle=UNKNOWN_HANDLE))
        await cmd(c, hci.HCI_Read_Remote_Extended_Features_Command(connection_handle=UNKNOWN_HANDLE, page_number=0))
        await cmd(c, hci.HCI_LE_Create_CIS_Command(cis_connection_handle=[UNKNOWN_HANDLE], acl_connection_handle=[UNKNOWN_HANDLE]))

    w.script(script())


async def sc_vanish(w):
    """the peer leaves the link (LocalLink.remove_controller) while connected; then a procedure is started"""
    from bumble import hci

    c, p = w.stack(), w.stack()
    await w.up()
    w.noise(c)

    async def script():
        hc, hp = await _le_connect(w, c, p)
        await asyncio.sleep(1.0)
        c.rec.situation = "vanished-peer"
        v = w.desc.get("variant", 0) % 6
        command = [hci.HCI_LE_Read_Remote_Features_Command(connection_handle=hc), _enc(hc),
                   hci.HCI_Disconnect_Command(connection_handle=hc, reason=0x13)][v % 3]
        if v < 3:  # the peer is gone when the procedure is started
            w.link.remove_controller(p.controller)
            await cmd(c, command)
        else:  # the peer goes while the command is on its way / just after
            w.script(cmd(c, command))
            await asyncio.sleep(w.rng.uniform(0, 2 * w.delay + 0.01))
            w.link.remove_controller(p.controller)

    w.script(script())


async def sc_cis(w):
    """CIS set-up on an LE connection, accepted by the peer; then disconnection of the CIS and of the ACL"""
    from bumble import hci

    c, p = w.stack(), w.stack()
    await w.up()
    w.noise(c)

    def on_cis_request(acl_handle, cis_handle, cig_id, cis_id):
        w.script(cmd(p, hci.HCI_LE_Accept_CIS_Request_Command(connection_handle=cis_handle)))

    p.host.on("cis_request", on_cis_request)

    async def script():
        hc, hp = await _le_connect(w, c, p)
        if w.desc.get("variant", 0) % 2 == 1:  # a CIS that is configured but was never set up cannot be disconnected
            r = await cmd(c, hci.HCI_LE_Set_CIG_Parameters_Command(
                cig_id=2, sdu_interval_c_to_p=10000, sdu_interval_p_to_c=10000, worst_case_sca=0, packing=0, framing=0,
                max_transport_latency_c_to_p=10, max_transport_latency_p_to_c=10,
                cis_id=[7], max_sdu_c_to_p=[100], max_sdu_p_to_c=[100], phy_c_to_p=[1], phy_p_to_c=[1], rtn_c_to_p=[2], rtn_p_to_c=[2]))
            await cmd(c, hci.HCI_Disconnect_Command(connection_handle=r.return_parameters.connection_handle[0], reason=0x13))
            return
        r = await cmd(c, hci.HCI_LE_Set_CIG_Parameters_Command(
            cig_id=1, sdu_interval_c_to_p=10000, sdu_interval_p_to_c=10000, worst_case_sca=0, packing=0, framing=0,
            max_transport_latency_c_to_p=10, max_transport_latency_p_to_c=10,
            cis_id=[1], max_sdu_c_to_p=[100], max_sdu_p_to_c=[100], phy_c_to_p=[1], phy_p_to_c=[1], rtn_c_to_p=[2], rtn_p_to_c=[2]))
        cis = r.return_parameters.connection_handle[0]
        await cmd(c, hci.HCI_LE_Create_CIS_Command(cis_connection_handle=[cis], acl_connection_handle=[hc]))
        await asyncio.sleep(3.0)
        await cmd(c, hci.HCI_Disconnect_Command(connection_handle=cis, reason=0x13))
        await asyncio.sleep(1.0)
        await cmd(c, hci.HCI_Disconnect_Command(connection_handle=hc, reason=0x13))

    w.script(script())


SCENARIOS = {
    "le_session": (sc_le_session, 2), "disconnect_unknown": (sc_disconnect_unknown, 2), "le_create_absent": (sc_le_create_absent, 3),
    "le_cancel_misc": (sc_le_cancel_misc, 1), "classic_absent": (sc_classic_absent, 2), "classic_session": (sc_classic_session, 4),
    "unknown_handles": (sc_unknown_handles, 1), "vanish": (sc_vanish, 6), "cis": (sc_cis, 2),
}
BASE_SCENARIOS = list(SCENARIOS)
# families with their own plan (capability sets x roles; kinds of creation command)
SCENARIOS.update({"le_second": (sc_le_second, 32), "le_roles": (sc_le_roles, 8), "classic_roles": (sc_classic_roles, 4)})
# capability sets of (central, peripheral): every set on either end against the default, and some on both ends
CAP_PAIRS = [(0, 0)] + [(i, 0) for i in range(1, len(CAPS))] + [(0, i) for i in range(1, len(CAPS))] + [(1, 1), (2, 2), (3, 3), (4, 4), (len(CAPS) - 1, 2)]


def run_proc(desc, factories=None):
    """desc: {fam: proc, name, variant, seed, delay, k}"""
    w = World(desc, factories)

    async def build():
        await SCENARIOS[desc["name"]][0](w)
        return w.stacks

    stacks = run_world(build, virtual=120.0)
    if w.errors:
        raise Harness(f"scenario {desc} raised {w.errors[0]!r}") from w.errors[0]
    desc["_scripts"] = (w.scripts, w.completed)
    return stacks


# ============================================================================= scripted controller vs the real Host
def run_puppet(desc):
    """desc: {fam: puppet, seed, delay, k, n}.  The real Host's command path against a controller that is free within
    the property: answers after arbitrary delays with Command Complete or Command Status, with or without a command
    credit (credit granted later by a Command Complete for opcode 0), and concludes what it accepted."""
    from bumble import hci

    rng = random.Random(desc["seed"])

    async def build():
        loop = asyncio.get_running_loop()
        inbox = asyncio.Queue()
        s = Stack(0, None, rng, desc["delay"], puppet=inbox.put_nowait)
        await bring_up([s])

        async def controller():
            while True:
                pkt = await inbox.get()
                if pkt[0] != 0x01:
                    continue
                op = H.opcode_of(pkt)
                await asyncio.sleep(rng.choice([0, 0, rng.uniform(0, 0.5)]))
                if rng.random() < 0.2:
                    s.tap._c2h(bytes([0x04, 0x13, 0x01, 0x00]))  # unrelated event (Number Of Completed Packets, no handles)
                n = 0 if rng.random() < 0.35 else 1
                keys = H.proc_keys(pkt)
                if keys:
                    status = rng.choice([0, 0, 0x0C])
                    s.tap._c2h(H.make_cs(op, status, n))
                else:
                    status = rng.choice([0, 0, 0x01, 0x12])
                    s.tap._c2h(H.make_cc(op, n, bytes([status])) if rng.random() < 0.8 else H.make_cs(op, status or 0x01, n))
                if n == 0:
                    await asyncio.sleep(rng.choice([0, rng.uniform(0, 1.0)]))
                    s.tap._c2h(H.make_nop(1))
                if keys and status == 0:
                    h = (pkt[4] | (pkt[5] << 8)) & 0x0FFF
                    await asyncio.sleep(rng.uniform(0, 0.5))
                    s.tap._c2h(bytes([0x04, 0x05, 0x04, 0x00, h & 0xFF, h >> 8, 0x16]))  # Disconnection Complete

        loop.create_task(controller())
        pool = [lambda: hci.HCI_Reset_Command(), lambda: hci.HCI_Set_Event_Mask_Command(event_mask=bytes(8)),
                lambda: hci.HCI_LE_Set_Scan_Enable_Command(le_scan_enable=0, filter_duplicates=0),
                lambda: hci.HCI_Write_Scan_Enable_Command(scan_enable=0),
                lambda: hci.HCI_Disconnect_Command(connection_handle=rng.choice([1, 2, 0x0EEE]), reason=0x13),
                lambda: hci.HCI_Command(bytes([rng.randrange(256)]), op_code=0xFC10),
                lambda: hci.HCI_Command(b"", op_code=0xFC11)]
        if desc.get("bads"):  # hand-over failures while the scripted controller plays its credit games
            pool += [lambda: ("sinkfail", hci.HCI_Write_Scan_Enable_Command(scan_enable=1))]  # (status-only return parameters)
            if desc["bads"][0] is not None:
                pool += [lambda: make_bad(rng.choice(desc["bads"]))]
        for _ in range(desc["k"]):
            cmds = [rng.choice(pool)() for _ in range(desc["n"])]
            loop.create_task(caller(s, cmds, rng, gap=0.4))
        return [s]

    return run_world(build, virtual=300.0)


def run_bringup(desc, factories=None):
    """desc: {fam: bringup, seed, delay, n}.  Host.reset() itself, recorded from the first packet, on n stacks of one link
    (this is also what decides when another scenario's unrecorded set-up gets stuck)."""
    from bumble.link import LocalLink

    rng = random.Random(desc["seed"])
    stacks = []

    async def build():
        link = LocalLink()
        for i in range(desc["n"]):
            stacks.append(Stack(i, link, rng, desc["delay"], **(factories or {})))
        for s in stacks:
            s.rec.on = True
        await asyncio.gather(*(bring_up([s], record=True) for s in stacks))
        return stacks

    try:
        return run_world(build, virtual=60.0, early=stacks)
    except SetupStuck:
        return stacks  # the reset sequence hangs: that is the finding; the trace shows at which command


RUNNERS = {"cat": run_cat, "proc": run_proc, "puppet": run_puppet, "bringup": run_bringup}


# ============================================================================= entry points
def plan(ctx):
    """the scenario descriptors of a tier (seeded)"""
    rng = ctx.rng
    quick = ctx.quick
    descs = []
    cat = catalogue(rng)
    by_op = {}
    for op, pkt in cat:
        by_op.setdefault(op, []).append(pkt)
    # every class / unknown opcode alone, single caller (quick: the zero filling and one other per opcode, thorough: all)
    i = 0
    for op, pkts in sorted(by_op.items()):
        pick = pkts if not quick else ([pkts[0]] + ([rng.choice(pkts[1:])] if len(pkts) > 1 else []))  # zero fill + one other
        for pkt in pick:
            i += 1
            descs.append({"fam": "cat", "name": "single", "tasks": [[pkt.hex()]], "seed": rng.randrange(1 << 30),
                          "delay": rng.choice([0.0, 0.01, 0.2]), "cap": i})
    # 1..4 concurrent callers, each a few commands drawn from the whole catalogue
    for j in range(100 if quick else 1500):
        k = 1 + j % 4
        tasks = [[rng.choice(cat)[1].hex() for _ in range(rng.randint(1, 4))] for _ in range(k)]
        descs.append({"fam": "cat", "name": f"mixed{k}", "tasks": tasks, "seed": rng.randrange(1 << 30),
                      "delay": rng.choice([0.0, 0.02, 0.3]), "cap": j})
    # callers that start exactly when a reply is delivered (1..3 per run, before or after the n-th reply)
    for j in range(60 if quick else 600):
        k = 1 + j % 2
        tasks = [[rng.choice(cat)[1].hex() for _ in range(rng.randint(2, 4))] for _ in range(k)]
        react = [{"cmd": rng.choice(cat)[1].hex(), "at": rng.randint(1, 5), "when": rng.choice(["pre", "pre", "post"])} for _ in range(1 + j % 3)]
        descs.append({"fam": "cat", "name": f"react{k}", "tasks": tasks, "react": react, "seed": rng.randrange(1 << 30),
                      "delay": rng.choice([0.0, 0.02, 0.3]), "cap": j})
    for name in BASE_SCENARIOS:
        for v in range(SCENARIOS[name][1]):
            for r in range(2 if quick else 12):
                d = {"fam": "proc", "name": name, "variant": v, "seed": rng.randrange(1 << 30),
                     "delay": rng.choice([0.0, 0.05, 0.4]), "k": 1 + (r + v) % 4}
                if r % 2:  # every other repetition on controllers with seeded capability sets
                    d["caps"] = [rng.randrange(len(CAPS)), rng.randrange(len(CAPS))]
                descs.append(d)
    # hand-over failures: a command object that cannot be serialised (one field with a value that does not fit), or a
    # transport sink that raises for one packet - issued by one of 1..4 concurrent callers, never as a caller's last command
    bads = bad_catalogue(by_op, rng, per_class=1 if quick else 3)
    # (a tree whose command classes check their values when the object is built yields none: the failing sink remains)
    good = [pkt for (_, pkt) in cat]
    fails = []
    if not quick:
        fails += [[[{"bad": b}, rng.choice(good).hex()]] for b in bads]  # every one alone, followed by one command
    for j in range(70 if quick else 700):
        k = 1 + j % 4
        tasks = [[rng.choice(good).hex() for _ in range(rng.randint(1, 3))] for _ in range(k)]
        for _ in range(1 + (j // 4) % 2):
            t = rng.randrange(k)
            use_bad, other = rng.random() < 0.6, rng.choice(good).hex()
            item = {"bad": bads[(j * 7 + len(tasks[t])) % len(bads)]} if (use_bad and bads) else {"sinkfail": other}
            tasks[t].insert(rng.randrange(len(tasks[t])), item)
        fails.append(tasks)
    for j, tasks in enumerate(fails):
        descs.append({"fam": "cat", "name": f"fail{len(tasks)}", "tasks": tasks, "seed": rng.randrange(1 << 30),
                      "delay": rng.choice([0.0, 0.02, 0.3]), "cap": j})
    # a second connection creation (legacy / extended) while one is pending, on controllers with and without the extended commands
    for v in range(SCENARIOS["le_second"][1]):
        for r in range(1 if quick else 6):
            descs.append({"fam": "proc", "name": "le_second", "variant": v, "seed": rng.randrange(1 << 30), "delay": rng.choice([0.0, 0.05, 0.4]),
                          "k": 1 + (v + r) % 3, "caps": [[3, 0, NCAPS0 + (v + r) % len(LL_FEATURES)][(v // 2 + r) % 3], 0]})
    # procedures from both roles under every capability set on either controller
    pairs = list(CAP_PAIRS) + ([] if quick else [(rng.randrange(len(CAPS)), rng.randrange(len(CAPS))) for _ in range(30)])
    for idx, (a, b) in enumerate(pairs):
        ext = 4 * ((idx // 2) % 2)
        vs = ([idx % 2] + ([2 + (idx // 4) % 2] if idx % 4 == 0 else [])) if quick else list(range(4))
        for v in vs:
            for e in ([ext] if quick else [0, 4]):
                descs.append({"fam": "proc", "name": "le_roles", "variant": v + e, "seed": rng.randrange(1 << 30), "delay": rng.choice([0.0, 0.05, 0.4]),
                              "k": 1 + (idx + v) % 3, "caps": [a, b]})
    for j in range(4 if quick else 20):
        descs.append({"fam": "bringup", "name": "reset", "seed": rng.randrange(1 << 30), "delay": rng.choice([0.0, 0.05, 0.4]), "n": 1 + j % 2})
    for j in range(30 if quick else 600):
        descs.append({"fam": "puppet", "name": "credit", "seed": rng.randrange(1 << 30), "delay": rng.choice([0.0, 0.1, 0.5]),
                      "k": 1 + j % 4, "n": rng.randint(2, 5), "bads": [rng.choice(bads or [None]) for _ in range(2)] if j % 2 else []})
    # BR/EDR page: allow_role_switch {0, 1} x role asked for by the acceptor {central, peripheral}, both ends' traces judged
    # (appended last: the descriptors above keep their seeds)
    for v in range(SCENARIOS["classic_roles"][1]):
        for r in range(1 if quick else 6):
            descs.append({"fam": "proc", "name": "classic_roles", "variant": v, "seed": rng.randrange(1 << 30),
                          "delay": [0.0, 0.05, 0.4][(v + r) % 3], "k": 1 + (v + r) % 3})
    return descs, len(by_op)


def run(ctx, rep):
    rep.rule = ("one trace per host<->controller pair per scenario, validated by CommandTrace.tla: (cat) every class of HCI_Command.command_classes "
                "and 21 unregistered opcodes alone and in seeded mixes issued by 1..4 concurrent callers, incl. commands whose hand-over fails "
                "(unserialisable field value, sink that raises once) followed by further commands; (proc) procedure scenarios with peers "
                "present / absent / vanishing, second LE connection creation (legacy / extended) while one is pending, procedures from central and "
                "peripheral under each capability set on either controller with the link left up, BR/EDR page with allow_role_switch {0,1} accepted with role "
                "{central, peripheral} (Create Connection and Accept Connection Request both owed a Connection Complete); (puppet) the real Host against a scripted controller with command-credit games; "
                "distinct = distinct event sequences")
    rep.assumptions = [
        "Command Complete or Command Status are both accepted as the one reply to any command (DESIGN Appendix D)",
        "an LE create connection towards an address nobody advertises with may stay pending until it is cancelled",
        "a successful Disconnection Complete concludes every procedure pending on that handle",
        "advertising intervals are kept >= 0x20 (the virtual controller re-arms a zero-delay timer otherwise; harness hazard)",
        "virtual-time event loop preserves asyncio callback order; tap delay lines are FIFO",
        "a call may end with an exception without a reply only if no packet of it crossed the tap and the harness knows why (bytes(command) raises, "
        "or the injected sink fault hit that call); the command slot has to be free afterwards",
    ]
    import time

    t0 = time.time()
    from lib import repotests

    with concurrent.futures.ThreadPoolExecutor(max_workers=2) as ex:
        mcf = ex.submit(model_check, ctx, rep)  # TLC runs in the background while the real code is driven
        # so does the monitor over the repository's own tests (a pytest subprocess + its TLC runs; the result is
        # cached by lib.repotests and reported below)
        rtf = ex.submit(repotests.run, ctx)
        descs, nops = plan(ctx)
        runs = []
        stuck = []
        for d in descs:
            try:
                runs.append((d, RUNNERS[d["fam"]](d)))
            except SetupStuck:
                stuck.append(d)
        t1 = time.time()
        validate(ctx, rep, runs)
        if stuck and not any(v.replay["desc"]["fam"] == "bringup" for v in rep.violations):
            raise Harness(f"the set-up of {len(stuck)} scenarios never completed, e.g. {stuck[0]}, and the recorded bring-up shows no violation")
        rep.extra["scenarios_skipped_setup_stuck"] = len(stuck)
        t2 = time.time()
        # the repository's own tests, traced at the HCI boundary of every Host / Controller they create, against the C03
        # clauses of specs/Stack/HciMonitor.tla (one command outstanding, replies name it, everything answered)
        rtf.result()
        repotests.report(ctx, rep, "C03_")
        mcf.result()
    rep.extra["phase_wall_s"] = {"drive_real_code": round(t1 - t0, 1), "validate_traces": round(t2 - t1, 1), "model_checking_total": round(time.time() - t0, 1)}
    fams = {}
    for d, _ in runs:
        fams[d["fam"] + "/" + d.get("name", "")] = fams.get(d["fam"] + "/" + d.get("name", ""), 0) + 1
    rep.extra["scenario_counts"] = fams
    rep.extra["opcodes_exercised"] = nops
    ev = {}
    for _, stacks in runs:
        for s in stacks:
            for e in s.rec.events:
                ev[e["e"]] = ev.get(e["e"], 0) + 1
    rep.extra["trace_events"] = ev
    for need in ("call", "h2c", "rcv", "c2h", "evt", "nop", "dlv", "ret", "quiesce"):
        if not ev.get(need):
            raise Harness(f"no scenario produced a single '{need}' event")
    hf = {}
    for d, stacks in runs:
        for s in stacks:
            for e in s.rec.events:
                if e["e"] == "ret" and e["hf"]:
                    hf[e["out"]] = hf.get(e["out"], 0) + 1
    rep.extra["handover_failures"] = hf
    rep.extra["unserialisable_command_objects"] = sum(1 for d in descs for task in d.get("tasks", []) for x in task if isinstance(x, dict) and "bad" in x)
    if sum(hf.values()) < 20:
        raise Harness(f"the hand-over failure scenarios produced only {hf} failed hand-overs")
    scripts = [d["_scripts"] for d, _ in runs if "_scripts" in d]
    rep.extra["proc_scripts_started_completed"] = [sum(a for a, _ in scripts), sum(b for _, b in scripts)]
    rep.exhaustive = False


def replay(ctx, rep):
    r = ctx.replay["replay"]
    desc = {k: v for k, v in r["desc"].items() if not k.startswith("_")}
    stacks = RUNNERS[desc["fam"]](desc)
    for s in stacks:
        if s.i != r.get("stack", 0):
            continue
        print(f"--- trace of stack {s.i} ({desc['fam']}/{desc.get('name', '')}); exceptions seen by the loop: {s.rec.notes[:4]}")
        for n, e in enumerate(s.rec.events, 1):
            txt = {k: v for k, v in e.items() if v not in ("", 0, [], False)}
            if e["op"]:
                txt["op"] = f"{opname(e['op'])}"
            print(f"  {n:3d} {txt}")
    validate(ctx, rep, [(desc, stacks)])
    if not rep.violations:
        print("replay: the trace is accepted now (no violation)")


# ----------------------------------------------------------------------------- binding self-test
def _shims():
    from bumble import hci
    from bumble.controller import Controller
    from bumble.host import Host

    class EarlyReleaseHost(Host):  # gives the command semaphore back as soon as the packet has left
        def send_hci_packet(self, packet):
            super().send_hci_packet(packet)
            if isinstance(packet, hci.HCI_Command) and self.ready and self.command_semaphore.locked():
                self.command_semaphore.release()

    class SilentController(Controller):  # swallows one implemented command
        def on_hci_command_packet(self, command):
            if command.op_code == hci.HCI_READ_BD_ADDR_COMMAND and getattr(self, "armed", False):
                return
            super().on_hci_command_packet(command)

    class DoubleReplyController(Controller):
        def on_hci_command_packet(self, command):
            super().on_hci_command_packet(command)
            if command.op_code == hci.HCI_LE_RAND_COMMAND:
                super().on_hci_command_packet(command)

    class ForeignOpcodeController(Controller):
        def on_hci_command_packet(self, command):
            if command.op_code == hci.HCI_READ_BD_ADDR_COMMAND and getattr(self, "armed", False):
                self.send_hci_packet(hci.HCI_Command_Complete_Event(
                    num_hci_command_packets=1, command_opcode=hci.HCI_LE_RAND_COMMAND,
                    return_parameters=hci.HCI_StatusReturnParameters(hci.HCI_ErrorCode.SUCCESS)))
                return
            super().on_hci_command_packet(command)

    class NoCompletionController(Controller):  # disconnects without telling its host
        def on_le_disconnected(self, connection, reason):
            del self.le_connections[connection.peer_address]

    class KeepSlotHost(Host):  # a failed hand-over leaves the command slot taken
        def send_hci_packet(self, packet):
            try:
                super().send_hci_packet(packet)
            except Exception:
                if isinstance(packet, hci.HCI_Command) and self.ready:
                    # the permit the caller gives back on its way out is taken again and never returned
                    asyncio.get_running_loop().create_task(self.command_semaphore.acquire())
                raise

    class AliasReplyController(Controller):  # refuses a second creation in the name of the legacy command
        def on_hci_le_extended_create_connection_command(self, command):
            if self.pending_le_connection:
                self._send_hci_command_status(hci.HCI_ErrorCode.COMMAND_DISALLOWED_ERROR, hci.HCI_LE_CREATE_CONNECTION_COMMAND)
                return None
            return super().on_hci_le_extended_create_connection_command(command)

    class DeafCentralController(Controller):  # does not answer a feature exchange started by the peripheral
        def on_ll_control_pdu(self, sender_address, packet):
            from bumble import ll

            if isinstance(packet, ll.PeripheralFeatureReq):
                return
            super().on_ll_control_pdu(sender_address, packet)

    return (EarlyReleaseHost, SilentController, DoubleReplyController, ForeignOpcodeController, NoCompletionController,
            KeepSlotHost, AliasReplyController, DeafCentralController)


def selftest(ctx, rep):
    from bumble import hci

    results = {}
    sigs = {}
    # (1) the model's own negative controls: the invariants / liveness properties have teeth
    base = dict(Tasks=[1, 2], Ops=[1, 2], ProcOps=[2], WeakOps=[], CancelOp=0, CancelTarget=2, MaxCalls=1, CreditGames=False)
    for name, bug, live, invs, expect in (
            ("early_release", {"HostBug": "early_release"}, False, ["Inv_OneOutstanding"], r"Invariant Inv_OneOutstanding is violated"),
            ("silent", {"CtrlBug": "silent"}, True, None, r"Temporal property Live_Answered was violated|Temporal properties were violated"),
            ("forget", {"CtrlBug": "forget"}, True, None, r"Temporal property Live_Concluded was violated|Temporal properties were violated"),
            # a failed hand-over that keeps the command slot: the slot invariant, and (without it) the liveness of the later callers
            ("keep_slot", {"HostBug": "keep_slot", "FailOps": [1]}, False, ["Inv_SlotFree"], r"Invariant Inv_SlotFree is violated"),
            ("keep_slot_live", {"HostBug": "keep_slot", "FailOps": [1]}, True, ["TypeOK"], r"Temporal property Live_Answered was violated|Temporal properties were violated")):
        out = _tlc_raw(ctx, "neg_" + name, {**base, **bug}, live, invs)
        results["model:" + name] = bool(re.search(expect, out))

    # (2) shims around the real Host / Controller
    EarlyReleaseHost, Silent, Double, Foreign, NoCompletion, KeepSlotHost, AliasReply, DeafCentral = _shims()
    bd = bytes(hci.HCI_Read_BD_ADDR_Command()).hex()
    rnd = bytes(hci.HCI_LE_Rand_Command()).hex()

    def arm(cls):
        def factory(*a, **kw):
            c = cls(*a, **kw)
            asyncio.get_running_loop().call_later(5.0, lambda: setattr(c, "armed", True))  # after Host.reset()
            return c
        return factory

    def check(name, runs):
        r2 = type(rep)(rep.prop, rep.level)
        validate(ctx, r2, runs, tag="selftest")
        results["shim:" + name] = len(r2.violations) > 0
        sigs["shim:" + name] = [v.sig for v in r2.violations]
        return r2

    d = {"fam": "cat", "name": "selftest", "tasks": [[bd, rnd], [rnd, bd], [bd]], "seed": 1, "delay": 0.05, "cap": 0}
    check("early_release_host", [(d, run_cat(dict(d), {"host_factory": EarlyReleaseHost}))])
    d1 = dict(d, tasks=[[rnd, bd, rnd]])
    for nm, cls in (("silent_controller", arm(Silent)), ("double_reply_controller", Double), ("foreign_opcode_controller", arm(Foreign))):
        dd = dict(d1)
        stacks = run_cat_late(dd, {"controller_factory": cls})
        check(nm, [(dd, stacks)])
    dp = {"fam": "proc", "name": "le_session", "variant": 0, "seed": 3, "delay": 0.05, "k": 2}
    check("no_completion_controller", [(dp, run_proc(dict(dp), {"controller_factory": NoCompletion}))])

    # the dimensions added after the second round of seeded changes: failed hand-over, second creation, roles x capabilities
    bad = {"bad": {"op": hci.HCI_DISCONNECT_COMMAND, "base": bytes(hci.HCI_Disconnect_Command(connection_handle=1, reason=0x13)).hex(),
                   "field": "connection_handle", "idx": -1, "value": 0x12345}}
    for nm, tasks in (("keep_slot_host_unserialisable", [[bd, bad, rnd, bd, rnd], [rnd, bd, rnd]]),
                      ("keep_slot_host_sink_raises", [[bd, {"sinkfail": rnd}, rnd, bd, rnd], [rnd, bd, rnd]])):
        df = {"fam": "cat", "name": "selftest", "tasks": tasks, "seed": 2, "delay": 0.05, "cap": 0}
        good_run = run_cat(dict(df))
        r0 = type(rep)(rep.prop, rep.level)
        validate(ctx, r0, [(df, good_run)], tag="selftest")
        results["trace:" + nm + ":unmodified_host_accepted"] = len(r0.violations) == 0 and any(e["e"] == "ret" and e["hf"] for e in good_run[0].rec.events)
        check(nm, [(df, run_cat(dict(df), {"host_factory": KeepSlotHost}))])
    d2 = {"fam": "proc", "name": "le_second", "variant": 2, "seed": 4, "delay": 0.05, "k": 2, "caps": [3, 0]}
    check("alias_reply_controller", [(d2, run_proc(dict(d2), {"controller_factory": AliasReply}))])
    d3 = {"fam": "proc", "name": "le_roles", "variant": 1, "seed": 5, "delay": 0.05, "k": 1, "caps": [0, 0]}
    check("deaf_central_controller", [(d3, run_proc(dict(d3), {"controller_factory": DeafCentral}))])

    # (3) corrupted copies of a trace recorded from the unmodified code must be rejected, the original accepted
    good = run_proc(dict(dp))
    r3 = type(rep)(rep.prop, rep.level)
    validate(ctx, r3, [(dp, good)], tag="selftest")
    results["trace:original_accepted"] = len(r3.violations) == 0
    tr = good[0].rec.events

    def idx(pred, nth=0):
        return [i for i, e in enumerate(tr) if pred(e)][nth]

    muts = {}
    i = idx(lambda e: e["e"] == "c2h")
    muts["drop_reply"] = tr[:i] + tr[i + 1:]
    muts["duplicate_reply"] = tr[:i + 1] + [tr[i]] + tr[i + 1:]
    muts["foreign_opcode_reply"] = tr[:i] + [dict(tr[i], op=tr[i]["op"] ^ 1)] + tr[i + 1:]
    i = idx(lambda e: e["e"] == "ret" and e["rop"])
    muts["caller_gets_other_opcode"] = tr[:i] + [dict(tr[i], rop=tr[i]["rop"] ^ 1)] + tr[i + 1:]
    i = idx(lambda e: e["e"] == "evt" and any(k.startswith("disc:") for k in e["keys"]))
    j = [n for n, e in enumerate(tr) if e["e"] == "dlv" and e["ty"] == "evt" and n > i][0]
    muts["drop_completion_event"] = [e for n, e in enumerate(tr) if n not in (i, j)]
    i = idx(lambda e: e["e"] == "h2c", 1)
    j = idx(lambda e: e["e"] == "c2h", 0)
    if i > j:  # move the second command in front of the first reply
        muts["second_command_before_reply"] = tr[:j] + [tr[i - 1], tr[i]] + tr[j:i - 1] + tr[i + 1:] if tr[i - 1]["e"] == "call" else tr[:j] + [tr[i]] + tr[j:i] + tr[i + 1:]
    cfg = trace_cfg(ctx)
    names = sorted(muts)
    res = tlc.trace_batch(ctx.spec("Hci", "CommandTrace.tla"), cfg, [muts[n] for n in names], tag="selftest")
    for n, (tid, v) in zip(names, sorted(res["verdicts"].items())):
        results["trace:" + n] = v[0] == "REJECT"
    print("selftest:", json.dumps(results, indent=1))
    print("selftest signatures:", json.dumps(sigs, indent=1))
    for k, ok in results.items():
        if not ok:
            rep.violation(f"selftest:{k}", f"binding self-test: {k} was not detected")


def run_cat_late(desc, factories):
    """run_cat whose callers start 10 virtual seconds after bring-up (shims arm themselves after Host.reset())"""
    from bumble import hci
    from bumble.link import LocalLink

    rng = random.Random(desc["seed"])

    async def build():
        s = Stack(0, LocalLink(), rng, desc["delay"], **factories)
        await bring_up([s])

        async def later():
            await asyncio.sleep(10.0)
            for cmds in desc["tasks"]:
                asyncio.get_running_loop().create_task(caller(s, [hci.HCI_Command.from_bytes(bytes.fromhex(h)) for h in cmds], rng))

        asyncio.get_running_loop().create_task(later())
        return [s]

    return run_world(build, virtual=60.0)
