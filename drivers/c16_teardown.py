"""C16: teardown is complete - no stale connection state, no waiter left hanging.

(M) specs/Stack/Teardown.tla model-checked by TLC: connection tables of controller / host /
    device on three stacks (link 1 under test, link 2 bystander), per-connection registries (entries
    name a connection AND its incarnation), the waiter set, procedures that complete or END IN
    FAILURE, Disconnect(side) and TransportLoss(side) enabled at every message boundary, before and
    after the procedure ended, re-establishment of a closed link (handle re-used) with a procedure on
    the new incarnation; invariants at Quiesce, incl. LiveCompletes.
(B) a catalogue of awaited procedures on real Devices (lib.c16_rig), succeeding and failing ones, incl. tasks the stack
    starts for the connection (delegate prompts) and drains of data queued with nothing in flight: each
    is run uncut to count its N message boundaries, then cut at boundary k by {local disconnect, remote
    disconnect, transport loss via Host.on_transport_lost(), transport loss signalled by a real
    StreamPacketSource the Host is attached to}, run 120 virtual seconds further; after a disconnection
    the link is established again and the same kind of procedure has to complete on it; link 1 is
    initiated by A or (flip) by B; the events est / call / ret / cut / tables / registry / quiesce are
    validated by specs/Stack/TeardownTrace.tla.
"""
from __future__ import annotations

import os
import time

from lib import tlc

LEVEL = "model_checking"

QUIESCE_INVS = ["LayersAgree", "RegClean", "WaitersEnded", "LiveCompletes"]
ALL_INVS = ["TypeOK"] + QUIESCE_INVS + ["Outcomes", "RegAlways", "TablesAlways"]
MC_ACTIONS = ["CtrlEstablish", "HostEvt", "RequestDisconnect", "Disconnect", "RefuseRequest", "PeerTerm", "TransportLoss",
              "Call", "OpSend", "RegDrop", "ProcStep", "Complete", "Fail", "Release", "Timeout", "Quiesce"]

# (named deviation of the model, invariants checked, the one it must break, constants)
_BUG_BASE = dict(conns=[1, 2], regs=["gatt_subscribers"], ops=[1], steps=2, maxest=1, maxcuts=2)
_BUG_REEST = dict(conns=[1], regs=["smp_sessions"], ops=[1, 2], steps=1, maxest=2, maxcuts=1)
BUGS = [
    ("flush_keeps_host", QUIESCE_INVS, "LayersAgree", _BUG_BASE),
    ("flush_keeps_regs", QUIESCE_INVS, "RegClean", _BUG_BASE),
    ("disc_keeps_regs", QUIESCE_INVS, "RegClean", _BUG_BASE),
    ("no_release", QUIESCE_INVS, "WaitersEnded", _BUG_BASE),
    ("late_readd", QUIESCE_INVS, "RegClean", _BUG_BASE),
    ("no_peer_event", QUIESCE_INVS, "LayersAgree", _BUG_BASE),
    # a procedure that ended in failure takes its registry entry out of the fan-out: stale at the first quiescence,
    # and (looking only at that clause) the procedure on the next incarnation of the link never completes
    ("failed_keeps_regs", QUIESCE_INVS, "RegClean", _BUG_REEST),
    ("failed_keeps_regs", ["LiveCompletes"], "LiveCompletes", _BUG_REEST),
    ("central_keeps_regs", QUIESCE_INVS, "RegClean", _BUG_BASE),
    ("loss_not_forwarded", QUIESCE_INVS, "LayersAgree", _BUG_BASE),
    ("loss_not_forwarded", ["WaitersEnded"], "WaitersEnded", _BUG_BASE),
    # a waiter that has nothing under way yet (queued data with nothing in flight, an unanswered prompt) is passed over
    ("idle_not_released", QUIESCE_INVS, "WaitersEnded", _BUG_BASE),
]


def _tick(rep, key, dt):
    t = rep.extra.setdefault("timing", {})
    t[key] = round(t.get(key, 0) + dt, 1)


def _write(ctx, name, text):
    p = os.path.join(ctx.out, name)
    with open(p, "w") as f:
        f.write(text)
    return p


def _set(xs):
    return "{" + ", ".join(xs) + "}"


def mc_cfg(conns, regs, ops, steps, maxest, maxcuts, bugs=(), invs=ALL_INVS, prop=True):
    return (
        "SPECIFICATION Spec\nCONSTANTS\n"
        f"  Conns = {_set(map(str, conns))}\n"
        f"  Regs = {_set(chr(34) + r + chr(34) for r in regs)}\n"
        f"  OpIds = {_set(map(str, ops))}\n"
        f"  Steps = {steps}\n  MaxEst = {maxest}\n  MaxCuts = {maxcuts}\n"
        f"  Bugs = {_set(chr(34) + b + chr(34) for b in bugs)}\n"
        + "".join(f"INVARIANT {i}\n" for i in invs)
        + ("PROPERTY EndsOnce\n" if prop else "")
        + "CHECK_DEADLOCK FALSE\n"
    )


def model_check_start(ctx):
    """start the TLC runs of the model (threads around subprocesses) -> handle for model_check_finish; the real-code
    scenarios run in this process meanwhile"""
    from concurrent.futures import ThreadPoolExecutor

    spec = ctx.spec("Stack", "Teardown.tla")
    if ctx.quick:
        runs = [
            # link under test + bystander, two cuts, one procedure
            ("q", dict(conns=[1, 2], regs=["gatt_subscribers"], ops=[1], steps=3, maxest=1, maxcuts=2)),
            # re-establishment: a procedure on incarnation 1 (completes, fails, is cut), one cut, the link comes back,
            # a second procedure on incarnation 2
            ("q2", dict(conns=[1], regs=["smp_sessions"], ops=[1, 2], steps=2, maxest=2, maxcuts=1)),
        ]
    else:
        runs = [
            ("t1", dict(conns=[1, 2], regs=["gatt_subscribers", "data_queue"], ops=[1], steps=3, maxest=2, maxcuts=2)),
            ("t2", dict(conns=[1, 2], regs=["smp_sessions"], ops=[1, 2], steps=2, maxest=1, maxcuts=1)),
            ("t3", dict(conns=[1], regs=["smp_sessions"], ops=[1, 2], steps=2, maxest=2, maxcuts=2)),
        ]
    ex = ThreadPoolExecutor(max_workers=2 if ctx.quick else 1)
    t0 = time.time()
    futs = []
    for tag, k in runs:
        cfg = _write(ctx, f"teardown_{tag}.cfg", mc_cfg(**k, prop=True))
        futs.append((tag, k, ex.submit(tlc.mc, spec, cfg, workers=16 if not ctx.quick else 6)))
    return ex, futs, t0


def model_check_finish(rep, handle):
    ex, futs, t0 = handle
    try:
        for tag, k, fut in futs:
            res = fut.result()
            if res["violation"]:
                raise tlc.TlcError(f"Teardown.tla violates {res['violation']} in the model itself ({tag})\n{res['out'][-2500:]}")
            tlc.require_actions(res, MC_ACTIONS, f"Teardown {tag}")
            rep.add_mc("Stack/Teardown.tla", res, k)
            _tick(rep, "model_checking_cpu_wall_s", res["wall_s"])
    finally:
        ex.shutdown(wait=True)
    _tick(rep, "model_checking_s", time.time() - t0)


# ----------------------------------------------------------------------------- (B) scenarios
def _run_one(job):
    """one scenario -> plain-data summary"""
    import logging

    from lib import c16_rig as R

    logging.disable(logging.CRITICAL)  # (worker processes do not inherit it)

    proc, kind, k, seed, max_delay = job[:5]
    flip = bool(job[6]) if len(job) > 6 else False
    try:
        sc = R.run_scenario(proc, kind, k, seed, max_delay, flip=flip)
    except Exception as e:  # a harness failure, reported by the parent as such
        import traceback

        return {"job": job, "error": f"{type(e).__name__}: {e}\n{traceback.format_exc()[-1500:]}"}
    return summarize(sc, job)


def summarize(sc, job):
    return {
        "job": job,
        "events": sc.events,
        "ops": {oid: (d[0], d[1]) for oid, d in sc.details.items()},
        "hangs": sc.hangs,
        "boundaries": sc.boundaries,
        "cut_at": sc.cut_at,
        "unhandled": sc.unhandled[:5],
        "snap": {f"{d}:{r}": v for (d, r), v in sc.snap.items()},
        "roles": {f"{d}:{c}": v for (d, c), v in sc.roles.items()},
        "reestablished": sc.reestablished,
    }


_POOL = None


def start_pool(n):
    """worker processes for the scenarios (spawned, so that they do not inherit the threads that wait for TLC; each
    imports bumble from the same tree: `check` puts VERIF_REPO on sys.path at import time)"""
    global _POOL
    if n > 1 and _POOL is None:
        import multiprocessing

        _POOL = multiprocessing.get_context("spawn").Pool(processes=n)


def stop_pool():
    global _POOL
    if _POOL is not None:
        _POOL.terminate()
        _POOL.join()
        _POOL = None


def execute(jobs, workers=1):
    """20-40 ms per scenario.  Every scenario is seeded by its job alone, so the result does not depend on which
    process runs it; the order of the results is the order of the jobs."""
    if _POOL is None or len(jobs) < 8:
        return [_run_one(j) for j in jobs]
    return _POOL.map(_run_one, jobs, chunksize=8)


def pick_ks(n, quick, rng, extra):
    """thorough: every boundary; quick: 0, 1, N-1, N and `extra` more, one drawn by the seed from each of `extra`
    equal strata of 2..N-2 (a window of boundaries at least (N-3)/extra wide is always hit)"""
    if not quick:
        return list(range(0, n + 1))
    ks = {0, 1, max(0, n - 1), n}
    mid = list(range(2, n - 1))
    if len(mid) <= extra:
        ks.update(mid)
    else:
        for i in range(extra):
            lo, hi = i * len(mid) // extra, (i + 1) * len(mid) // extra
            ks.add(mid[rng.randrange(lo, hi)])
    return sorted(k for k in ks if 0 <= k <= n)


TRACE_CFG = (
    "SPECIFICATION TraceSpec\nCONSTANTS\n  Conns = {1, 2}\n  Regs = {\"none\"}\n  OpIds = {1, 2, 3, 4, 5, 6}\n"
    "  Steps = 0\n  MaxEst = 2\n  MaxCuts = 1\n  Bugs = {}\nCHECK_DEADLOCK FALSE\n"
)


def role_of(d, job, caller):
    from lib import c16_rig as R

    proc, kind = job[0], job[1]
    cutter = caller if kind in (None, "transport_loss", "source_loss", "local_disconnect") else 1 - caller
    if d == "C":
        return "bystander"
    return "cut-side" if R.DEVS.index(d) == cutter else "peer-side"


def best_verdicts(res, n):
    """Per trace: ACCEPT if some interleaving of the unlogged steps explains it with nothing bad; otherwise the
    end-of-trace rejection with the fewest failed clauses (the interleaving that explains most); a trace that
    only ever got stuck keeps lib.tlc's verdict (deepest stuck point)."""
    from lib import tlaval

    out = dict(res["verdicts"])
    ends = {}
    for txt in tlc._split_printed(res["out"]):
        try:
            v = tlaval.parse_value(txt)
        except tlaval.ParseError:
            continue
        if v and v[0] == "REJECT" and len(v) >= 5 and v[3] == "end":
            if v[1] not in ends or len(v[4]) < len(ends[v[1]][3]):
                ends[v[1]] = ("REJECT",) + tuple(v[2:])
    for tid, v in ends.items():
        if out.get(tid, ("REJECT",))[0] != "ACCEPT":
            out[tid] = v
    assert set(out) == set(range(1, n + 1))
    return out


def verdicts_of(ctx, rep, results):
    """one TLC run over all traces -> per result the sorted list of failed clauses ([] = accepted)"""
    bad_runs = [r for r in results if "error" in r]
    if bad_runs:
        raise RuntimeError(f"{len(bad_runs)} scenario(s) crashed in the harness, first: {bad_runs[0]['job']}: {bad_runs[0]['error']}")
    cfg = _write(ctx, "teardown_trace.cfg", TRACE_CFG)
    spec = ctx.spec("Stack", "TeardownTrace.tla")
    # traces per TLC run (one JSON file, one worker each); several runs go in parallel
    chunk = max(150, min(1200, -(-len(results) // 6)))
    parts = [results[i:i + chunk] for i in range(0, len(results), chunk)]

    def one(part):
        return tlc.trace_batch(spec, cfg, [r["events"] for r in part], tag="c16")

    t0 = time.time()
    if len(parts) == 1:
        ress = [one(parts[0])]
    else:
        from concurrent.futures import ThreadPoolExecutor

        with ThreadPoolExecutor(max_workers=6) as ex:
            ress = list(ex.map(one, parts))
    if rep is not None:
        _tick(rep, "trace_validation_s", time.time() - t0)
    out = []
    for part, res in zip(parts, ress):
        if rep is not None:
            rep.extra["trace_states"] = rep.extra.get("trace_states", 0) + res["states"]
            _tick(rep, "trace_validation_tlc_s", res["wall_s"])
        for tid, v in sorted(best_verdicts(res, len(part)).items()):
            r = part[tid - 1]
            if v[0] == "ACCEPT":
                out.append([])
            elif v[2] != "end":
                raise tlc.TlcError(f"trace of {r['job']} is not a behaviour the trace spec can follow (harness or spec bug): stuck at event {v[1]}: {v[2]} state {v[3] if len(v) > 3 else ''}")
            else:
                out.append(sorted(tuple(x) for x in v[3]))
    return out


def violations_of(r, labels):
    """(sig, what) for every failed clause of one scenario"""
    from lib import c16_rig as R

    proc, kind = r["job"][0], r["job"][1]
    caller = R.PROCS[proc].caller
    kname = kind or "none"
    out = []
    for lab in labels:
        if lab[0] == "pending":
            oid = int(lab[1])
            name, frame = r["hangs"].get(oid, (r["ops"][oid][0], "?"))
            out.append((f"hang:{name}:{kname}:{frame}", f"{name} never ends: still suspended in {frame} 120 virtual seconds after the cut"))
        elif lab[0] == "stalled":
            oid = int(lab[1])
            name, frame = r["hangs"].get(oid, (r["ops"][oid][0], "?"))
            out.append((f"stall:{name}:{kname}:{frame}",
                        f"{name} never ends although its link is up at both ends and the peer is willing: still suspended in {frame} "
                        f"(on the link re-established after the cut: state of the closed connection got in its way)"))
        elif lab[0] == "outcome":
            oid = int(lab[1])
            name, o = r["ops"][oid]
            out.append((f"again:{name}:{kname}:{o[1] if o else '?'}",
                        f"{name} on the re-established link ends with {o[1] if o else '?'} instead of completing as it does on a fresh link"))
        elif lab[0] == "tables":
            out.append((f"tables:{lab[2]}:{lab[3]}:{kname}:{role_of(lab[1], r['job'], caller)}",
                        f"{lab[2]} table of stack {lab[1]} {'still lists a closed connection' if lab[3] == 'stale' else 'lacks a live connection'}"))
        else:
            # link-layer role of that stack on the connection(s) the stale entries name
            stale = sorted(tuple(x) for x in lab[3]) if len(lab) > 3 else []
            ll = "+".join(sorted({r.get("roles", {}).get(f"{lab[1]}:{x[0]}", "unknown") for x in stale})) or "?"
            out.append((f"registry:{lab[2]}:{kname}:{role_of(lab[1], r['job'], caller)}:{ll}",
                        f"registry {lab[2]} of stack {lab[1]} (link-layer {ll} there) still names a closed connection: [connection, incarnation] = "
                        f"{[list(x) for x in stale]}"))
    return out


def judge(ctx, rep, results):
    """validate every trace with TeardownTrace.tla and turn the verdicts into violations"""
    nviol = 0
    for r, labels in zip(results, verdicts_of(ctx, rep, results)):
        proc, kind, k, seed, max_delay, n_uncut = r["job"][:6]
        flip = bool(r["job"][6]) if len(r["job"]) > 6 else False
        rep.traces += 1
        outcomes = tuple(sorted((n, o[0] if o else "pending") for n, o in r["ops"].values()))
        rep.case((proc, kind, k, seed, max_delay, flip), nontrivial=kind is not None,
                 sample={"proc": proc, "cut": kind, "k": k, "N": n_uncut, "flip": flip, "outcomes": outcomes} if (kind and k == 1) else None)
        if r.get("reestablished"):
            rep.extra["reestablished"] = rep.extra.get("reestablished", 0) + 1
        st = rep.extra.setdefault("outcomes", {})
        for n, o in r["ops"].values():
            key = f"{n}:{(o[0] + ('/' + o[1] if o[1] else '')) if o else 'pending'}"
            st[key] = st.get(key, 0) + 1
        for sig, what in violations_of(r, labels):
            nviol += 1
            rep.violation(
                sig,
                f"{proc} cut by {kind or 'none'} at boundary {k} of {n_uncut} (seed {seed}, delay {max_delay}{', link 1 initiated by B' if flip else ''}): {what}",
                {"proc": proc, "kind": kind, "k": k, "n": n_uncut, "seed": seed, "max_delay": max_delay, "flip": flip, "labels": [list(x) for x in labels],
                 "ops": {str(i): list(map(str, o)) for i, o in r["ops"].items()}, "trace": r["events"]},
            )
    return nviol


def plan_and_run(ctx, rep, procs, cfgs, workers=1):
    """cfgs: dicts seed / delay / flip / strata {cut kind: number of strata} - a kind that is not named is not run
    with that configuration; the number of strata only matters in the quick tier; flip: only the procedures that
    can run with the caller's stack as the link-layer peripheral"""
    from lib import c16_rig as R

    # 1. uncut runs: N per (procedure, configuration)
    t0 = time.time()
    base_jobs = []
    for ci, c in enumerate(cfgs):
        for p in procs:
            if c["flip"] and not R.PROCS[p].flippable:
                continue
            base_jobs.append((p, None, None, c["seed"], c["delay"], 0, c["flip"], ci))
    base = execute(base_jobs, workers)
    for r in base:
        if "error" in r:
            raise RuntimeError(f"uncut run crashed {r['job']}: {r['error']}")
        if any(o is None for _, o in r["ops"].values()):
            raise RuntimeError(f"uncut run of {r['job'][0]} does not complete: the catalogue entry is broken ({r['hangs']})")
        got = r["ops"][1][1][0]
        if got != ("error" if R.PROCS[r["job"][0]].fails else "result"):
            raise RuntimeError(f"uncut run of {r['job'][0]} ends with {r['ops'][1][1]}: the catalogue entry is broken")
    ncount = rep.extra.setdefault("boundaries", {})
    jobs = []
    for r in base:
        p, _, _, seed, md, _, flip, ci = r["job"]
        n = r["boundaries"]
        ncount[f"{p}/{seed}/{md}{'/flip' if flip else ''}"] = n
        for kind in R.KINDS:
            if kind not in cfgs[ci]["strata"]:
                continue
            for k in pick_ks(n, ctx.quick, ctx.rng, 0 if R.PROCS[p].window else cfgs[ci]["strata"][kind]):
                jobs.append((p, kind, k, seed, md, n, flip))
    results = execute(jobs, workers)
    _tick(rep, "scenarios_s", time.time() - t0)
    return base, results


def run(ctx, rep):
    from lib import c16_rig as R

    rep.rule = ("(M) Teardown.tla exhaustively within the constants; (B) every procedure of the catalogue (completing and failing ones) x cut kind in "
                "{local disconnect, remote disconnect, transport loss by direct call, transport loss through a StreamPacketSource} x boundary k "
                "(thorough: every k in 0..N; quick: 0, 1, N-1, N and one seeded k per stratum - none for a procedure that waits in one state whatever k is: "
                "delegate prompts, drain of a starved queue) x delay configuration x link 1 initiated by A / by B "
                "(thorough: none / 2 ms / 50 ms, B-initiated 2 ms; quick: 2 ms with 8 strata (source loss 2), none with 3 (no source loss), B-initiated 2 ms with 1 (disconnections and source loss)); "
                "after a disconnection cut the link is re-established and the procedure run again; one trace per scenario validated by "
                "TeardownTrace.tla; distinct = distinct (procedure, cut, k, delays, initiator)")
    rep.assumptions = [
        "a message boundary is an HCI packet at the taps of the two stacks of the link under test; the cut is made from the event loop after boundary k",
        "a lost transport delivers nothing that was in flight in either direction; the controller of the lost side is left alone",
        "an operation that ends by a protocol time-out firing within 120 virtual seconds ended with an error (DESIGN Appendix D)",
        "a result returned after the cut is accepted (the exchange had completed); only not ending is a violation",
        "on the re-established link the harness' peer is willing: the procedure that completes on a fresh link has to complete there",
        "a registry entry is attributed to the incarnation of the Connection object it hangs on; where no object can be reached, to the latest connection with that handle",
        "virtual-time event loop preserves asyncio callback order; delays are order-preserving per direction",
    ]
    start_pool(5)
    mc = model_check_start(ctx)
    try:
        procs = list(R.PROCS)
        dis = ("local_disconnect", "remote_disconnect")
        if ctx.quick:
            cfgs = [
                # 2 ms delays
                dict(seed=ctx.seed + 1, delay=0.002, flip=False, strata={**{k: 8 for k in dis}, "transport_loss": 8, "source_loss": 2}),
                # no delays (everything of one exchange in one loop iteration)
                dict(seed=ctx.seed + 1, delay=0.0, flip=False, strata={**{k: 3 for k in dis}, "transport_loss": 3}),
                # link 1 initiated by B: the caller's stack is the peripheral
                dict(seed=ctx.seed + 2, delay=0.002, flip=True, strata={**{k: 1 for k in dis}, "source_loss": 1}),
            ]
        else:
            every = {k: 0 for k in R.KINDS}
            cfgs = [
                dict(seed=ctx.seed + 1, delay=0.0, flip=False, strata=every),
                dict(seed=ctx.seed + 1, delay=0.002, flip=False, strata=every),
                dict(seed=ctx.seed + 2, delay=0.05, flip=False, strata={k: 0 for k in R.KINDS if k != "source_loss"}),
                dict(seed=ctx.seed + 2, delay=0.002, flip=True, strata=every),
            ]
        base, results = plan_and_run(ctx, rep, procs, cfgs)
    finally:
        stop_pool()
        model_check_finish(rep, mc)
    judge(ctx, rep, base + results)  # the uncut runs are traces too (no cut: everything stays live, every call returns)
    rep.extra["scenarios"] = len(results)
    print("C16 timing:", rep.extra.get("timing"), "trace_states:", rep.extra.get("trace_states"), "re-established:", rep.extra.get("reestablished"))
    rep.exhaustive = not ctx.quick
    if not ctx.quick:
        selftest(ctx, rep)


def replay(ctx, rep):
    from lib import c16_rig as R

    r = ctx.replay["replay"]
    sc = R.run_scenario(r["proc"], r["kind"], r["k"], r["seed"], r["max_delay"], flip=bool(r.get("flip")))
    for e in sc.events:
        print({k: v for k, v in e.items() if v not in ("", 0, [])} if e["e"] not in ("tables", "registry", "quiesce") else e)
    print("operations:", {oid: (d[0], d[1]) for oid, d in sc.details.items()})
    print("still pending after 120 virtual seconds:", sc.hangs)
    print("boundaries seen:", sc.boundaries, "cut made at:", sc.cut_at, "unhandled loop exceptions:", sc.unhandled[:3])
    print("link 1 re-established:", sc.reestablished)
    judge(ctx, rep, [summarize(sc, (r["proc"], r["kind"], r["k"], r["seed"], r["max_delay"], r.get("n", 0), bool(r.get("flip"))))])


def _sigs_of(ctx, results):
    """per result: the signatures the check would report for it (one TLC run for all)"""
    return [[sig for sig, _ in violations_of(r, labels)] for r, labels in zip(results, verdicts_of(ctx, None, results))]


def selftest(ctx, rep):
    """Binding self-test (nothing under /repo is touched):
    1. every named deviation of Teardown.tla must break the invariant it is documented to break;
    2. recorded traces of the real stack, corrupted in one place, must be rejected with the right clause;
    3. real objects wrapped so that they misbehave in one documented way must be flagged."""
    import asyncio
    import copy

    from lib import c16_rig as R

    results = {}
    spec = ctx.spec("Stack", "Teardown.tla")
    # 1. model deviations (several TLC runs at a time)
    from concurrent.futures import ThreadPoolExecutor

    def one_bug(item):
        i, (bug, invs, inv, k) = item
        cfg = _write(ctx, f"teardown_bug_{i}_{bug}.cfg", mc_cfg(**k, bugs=[bug], invs=invs, prop=False))
        res = tlc.mc(spec, cfg, workers=4, coverage=False)
        return f"model:{bug}:{inv}", res["violation"] == f"invariant {inv}"

    with ThreadPoolExecutor(max_workers=4) as ex:
        results.update(dict(ex.map(one_bug, enumerate(BUGS))))
    # 2. corrupted traces
    job = ("gatt_read", "remote_disconnect", 2, ctx.seed + 1, 0.002, 6, False)
    good = summarize(R.run_scenario(*job[:5]), job)
    if not good["reestablished"]:
        raise RuntimeError("self-test scenario did not re-establish link 1")
    base_sigs = _sigs_of(ctx, [good])[0]  # whatever the tree itself does wrong in this scenario

    def corrupt(fn):
        r = copy.deepcopy(good)
        fn(r["events"])
        return r

    def drop_ret(ev):
        i = next(i for i, e in enumerate(ev) if e["e"] == "ret" and e["o"] == 1)
        del ev[i]
        for e in ev:
            if e["e"] == "quiesce":
                e["S"] = [1]

    def last(ev, kind, d, key, val):
        return [e for e in ev if e["e"] == kind and e["d"] == d and e[key] == val][-1]

    def first(ev, kind, d, key, val):
        """the observation of the first check-point (before the link is re-established); [0] of the tables is the one
        taken before the call"""
        xs = [e for e in ev if e["e"] == kind and e["d"] == d and e[key] == val]
        return xs[1] if kind == "tables" else xs[0]

    def reg(ev, which, d, name):
        """the entry list of registry `name` of stack d at the first / last check-point"""
        xs = [e for e in ev if e["e"] == "registry" and e["d"] == d]
        return next(row for row in xs[0 if which == "first" else -1]["R"] if row["r"] == name)["S"]

    def again_fails(ev):
        o = [e for e in ev if e["e"] == "call"][-1]["o"]
        next(e for e in ev if e["e"] == "ret" and e["o"] == o)["out"] = "error"

    def again_stalls(ev):
        o = [e for e in ev if e["e"] == "call"][-1]["o"]
        ev.remove(next(e for e in ev if e["e"] == "ret" and e["o"] == o))
        [e for e in ev if e["e"] == "quiesce"][-1]["S"] = [o]

    cases = {
        # first check-point (link closed)
        "trace:first-registry-stale": (lambda ev: reg(ev, "first", "A", "smp_sessions").append([1, 1]), "registry:smp_sessions:remote_disconnect:peer-side"),
        "trace:first-host-table-stale": (lambda ev: first(ev, "tables", "B", "layer", "host")["S"].append(1), "tables:host:stale:remote_disconnect:cut-side"),
        # second check-point (link re-established, procedure run again)
        "trace:old-incarnation-in-registry": (lambda ev: reg(ev, "last", "B", "smp_sessions").append([1, 1]), "registry:smp_sessions:remote_disconnect:cut-side"),
        "trace:again-ends-in-error": (again_fails, "again:gatt_read.again:remote_disconnect"),
        "trace:again-never-ends": (again_stalls, "stall:gatt_read.again:remote_disconnect"),
        "trace:ret-dropped": (drop_ret, "hang:gatt_read:remote_disconnect"),
        "trace:host-table-stale": (lambda ev: last(ev, "tables", "A", "layer", "host")["S"].append(9), "tables:host:stale:remote_disconnect:peer-side"),
        "trace:device-table-missing": (lambda ev: last(ev, "tables", "A", "layer", "device")["S"].remove(2), "tables:device:missing:remote_disconnect:peer-side"),
        "trace:bystander-table-missing": (lambda ev: last(ev, "tables", "C", "layer", "ctrl")["S"].remove(2), "tables:ctrl:missing:remote_disconnect:bystander"),
        "trace:registry-stale": (lambda ev: reg(ev, "last", "C", "smp_sessions").append([1, 2]), "registry:smp_sessions:remote_disconnect:bystander"),
        "trace:unknown-handle": (lambda ev: reg(ev, "last", "A", "l2cap_channels").append([9, 0]), "registry:l2cap_channels:remote_disconnect:peer-side"),
    }
    names = list(cases)
    # the cut event dropped (from a trace without re-establishment: the spec could not follow a second `est` of a link
    # it believes up)
    once = summarize(R.run_scenario(*job[:5], again=False), job)
    once["events"].remove(next(e for e in once["events"] if e["e"] == "cut"))
    cases["trace:cut-dropped"] = (None, "tables:")
    for name, sigs in zip(names + ["trace:cut-dropped"], _sigs_of(ctx, [corrupt(cases[n][0]) for n in names] + [once])):
        results[name] = any(x.startswith(cases[name][1]) for x in sigs if x not in base_sigs)

    # 3. shims on the real objects
    def shim_no_gatt_cleanup(net):
        net[1].gatt_server.on_disconnection = lambda bearer: None

    def shim_host_keeps_connection(net):
        host = net.stacks[0].host
        orig = host.on_hci_disconnection_complete_event

        def keep(event):
            c = host.connections.get(event.connection_handle)
            orig(event)
            if c is not None:
                host.connections[event.connection_handle] = c

        host.on_hci_disconnection_complete_event = keep

    def shim_no_queue_flush(net):
        host = net.stacks[0].host
        for q in (host.acl_packet_queue, host.le_acl_packet_queue):
            if q is not None:
                q.flush = lambda handle: None

    def shim_smp_session_kept(net):
        net[0].smp_manager.on_session_end = lambda session: None

    def shim_failed_session_detaches(net):
        # a pairing session that failed stops listening to its connection (so it never hears the disconnection)
        for dev in (net[0], net[1]):
            m = dev.smp_manager

            def failed(session, reason, orig=m.on_pairing_failure):
                session.connection.remove_listener(session.connection.EVENT_DISCONNECTION, session.on_disconnection)
                orig(session, reason)

            m.on_pairing_failure = failed

    def shim_source_keeps_loss_to_itself(net):
        for src in net.sources:
            src.sink = None  # BaseSource.on_transport_lost() has nobody to tell

    def shim_gatt_cleanup_as_peripheral_only(net):
        from bumble import hci

        for dev in net.devices:
            gs = dev.gatt_server

            def on_disconnection(bearer, orig=gs.on_disconnection):
                if getattr(bearer, "role", None) == hci.Role.PERIPHERAL:
                    orig(bearer)

            gs.on_disconnection = on_disconnection

    shims = {
        "shim:failed-session-detaches": (shim_failed_session_detaches, ("pair_rejected", "remote_disconnect", 50), "registry:smp_sessions:"),
        "shim:failed-session-captures-next-pairing": (shim_failed_session_detaches, ("pair_rejected", "local_disconnect", 50),
                                                      # (captured the next pairing until a Pairing Request after a finished pairing was made to start a new session)
                                                      ("stall:pair_rejected.again:", "registry:smp_sessions:local_disconnect:")),
        "shim:source-keeps-loss-to-itself": (shim_source_keeps_loss_to_itself, ("gatt_read", "source_loss", 2), ("tables:host:stale:source_loss", "hang:gatt_read:source_loss")),
        "shim:gatt-cleanup-as-peripheral-only": (shim_gatt_cleanup_as_peripheral_only, ("hci_command", "remote_disconnect", 1), "registry:gatt_subscribers:remote_disconnect:peer-side:central"),
        "shim:device-forgets-gatt-server": (shim_no_gatt_cleanup, ("gatt_indicate", "remote_disconnect", 3), "registry:gatt_subscribers:"),
        "shim:host-keeps-connection": (shim_host_keeps_connection, ("gatt_write", "remote_disconnect", 2), "tables:host:stale:"),
        "shim:queue-not-flushed": (shim_no_queue_flush, ("data_queue_drain", "remote_disconnect", 8), ("registry:data_queue:", "hang:data_queue_drain:")),
        "shim:smp-session-kept": (shim_smp_session_kept, ("pair_legacy", "local_disconnect", 9), "registry:smp_sessions:"),
        # a drain waiter on a connection with data queued in the host and nothing in flight (the bystander holds the buffers)
        "shim:starved-queue-not-flushed": (shim_no_queue_flush, ("data_queue_drain_starved", "remote_disconnect", 1), "hang:data_queue_drain_starved:"),
    }
    shim_runs = []
    for name, (patch, (proc, kind, k), want) in shims.items():
        j = (proc, kind, k, ctx.seed + 1, 0.002, 0)
        shim_runs.append(summarize(R.run_scenario(proc, kind, k, ctx.seed + 1, 0.002, device_patch=patch), j))

    # a waiter that nobody cancels: Connection.cancel_on_disconnection made a no-op
    from bumble import device as bdevice

    orig = bdevice.Connection.cancel_on_disconnection
    bdevice.Connection.cancel_on_disconnection = lambda self, awaitable: asyncio.ensure_future(awaitable)
    try:
        j = ("pair_legacy", "remote_disconnect", 9, ctx.seed + 1, 0.002, 0)
        shim_runs.append(summarize(R.run_scenario(*j[:5]), j))
        # ... and the task the stack itself started for the connection (the passkey prompt of the keyboard side)
        j = ("pair_passkey_prompt_sc", "remote_disconnect", 1, ctx.seed + 1, 0.002, 0)
        shim_runs.append(summarize(R.run_scenario(*j[:5]), j))
    finally:
        bdevice.Connection.cancel_on_disconnection = orig
    wants = [w for (_, _, w) in shims.values()] + ["hang:pair_legacy:", "hang:passkey_prompt:"]
    for name, want, sigs in zip(list(shims) + ["shim:waiter-not-cancelled", "shim:prompt-not-cancelled"], wants, _sigs_of(ctx, shim_runs)):
        results[name] = any(x.startswith(want) for x in sigs)

    print("selftest:", results)
    rep.extra["selftest"] = results
    for k, ok in results.items():
        if not ok:
            rep.violation(f"selftest:{k}", f"binding self-test: {k} was not detected")
