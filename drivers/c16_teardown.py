"""C16: teardown is complete - no stale connection state, no waiter left hanging.

(M) specs/Stack/Teardown.tla model-checked by TLC: connection tables of controller / host /
    device on three stacks (link 1 under test, link 2 bystander), per-connection registries, the
    waiter set, Disconnect(side) and TransportLoss(side) enabled at every message boundary of a
    multi-step procedure; invariants at Quiesce.
(B) a catalogue of awaited procedures on real Devices (lib.c16_rig): each is run uncut to count its
    N message boundaries, then cut at boundary k by {local disconnect, remote disconnect,
    transport loss via Host.on_transport_lost()}, run 120 virtual seconds further, and the events
    call / ret / cut / tables / registry / quiesce are validated by specs/Stack/TeardownTrace.tla.
"""
from __future__ import annotations

import os
import time

from lib import tlc

LEVEL = "model_checking"

QUIESCE_INVS = ["LayersAgree", "RegClean", "WaitersEnded"]
ALL_INVS = ["TypeOK"] + QUIESCE_INVS + ["Outcomes", "RegAlways", "TablesAlways"]
MC_ACTIONS = ["CtrlEstablish", "HostEvt", "RequestDisconnect", "Disconnect", "RefuseRequest", "PeerTerm", "TransportLoss",
              "Call", "OpSend", "RegDrop", "ProcStep", "Complete", "Release", "Timeout", "Quiesce"]

# named deviation of the model -> the quiescence invariant it must break
BUGS = {
    "flush_keeps_host": "LayersAgree",
    "flush_keeps_regs": "RegClean",
    "disc_keeps_regs": "RegClean",
    "no_release": "WaitersEnded",
    "late_readd": "RegClean",
    "no_peer_event": "LayersAgree",
}


def _tick(rep, key, dt):
    t = rep.extra.setdefault("timing", {})
    t[key] = round(t.get(key, 0) + dt, 1)


def _write(ctx, name, text):
    p = os.path.join(ctx.out, name)
    with open(p, "w") as f:
        f.write(text)
    return p


def _set(xs):
    return "{" + ", ".join(xs) + "}"


def mc_cfg(conns, regs, ops, steps, maxest, maxcuts, bugs=(), invs=ALL_INVS, prop=True):
    return (
        "SPECIFICATION Spec\nCONSTANTS\n"
        f"  Conns = {_set(map(str, conns))}\n"
        f"  Regs = {_set(chr(34) + r + chr(34) for r in regs)}\n"
        f"  OpIds = {_set(map(str, ops))}\n"
        f"  Steps = {steps}\n  MaxEst = {maxest}\n  MaxCuts = {maxcuts}\n"
        f"  Bugs = {_set(chr(34) + b + chr(34) for b in bugs)}\n"
        + "".join(f"INVARIANT {i}\n" for i in invs)
        + ("PROPERTY EndsOnce\n" if prop else "")
        + "CHECK_DEADLOCK FALSE\n"
    )


def model_check(ctx, rep):
    spec = ctx.spec("Stack", "Teardown.tla")
    if ctx.quick:
        runs = [("q", dict(conns=[1, 2], regs=["gatt_subscribers"], ops=[1], steps=3, maxest=1, maxcuts=2))]
    else:
        runs = [
            ("t1", dict(conns=[1, 2], regs=["gatt_subscribers", "data_queue"], ops=[1], steps=3, maxest=2, maxcuts=2)),
            ("t2", dict(conns=[1, 2], regs=["smp_sessions"], ops=[1, 2], steps=2, maxest=1, maxcuts=1)),
        ]
    for tag, k in runs:
        cfg = _write(ctx, f"teardown_{tag}.cfg", mc_cfg(**k, prop=True))
        res = tlc.mc(spec, cfg, workers=16 if not ctx.quick else 8)
        if res["violation"]:
            raise tlc.TlcError(f"Teardown.tla violates {res['violation']} in the model itself ({tag})\n{res['out'][-2500:]}")
        tlc.require_actions(res, MC_ACTIONS, f"Teardown {tag}")
        rep.add_mc("Stack/Teardown.tla", res, k)
        _tick(rep, "model_checking_s", res["wall_s"])


# ----------------------------------------------------------------------------- (B) scenarios
def _run_one(job):
    """one scenario -> plain-data summary"""
    from lib import c16_rig as R

    proc, kind, k, seed, max_delay = job[:5]
    try:
        sc = R.run_scenario(proc, kind, k, seed, max_delay)
    except Exception as e:  # a harness failure, reported by the parent as such
        import traceback

        return {"job": job, "error": f"{type(e).__name__}: {e}\n{traceback.format_exc()[-1500:]}"}
    return summarize(sc, job)


def summarize(sc, job):
    return {
        "job": job,
        "events": sc.events,
        "ops": {oid: (d[0], d[1]) for oid, d in sc.details.items()},
        "hangs": sc.hangs,
        "boundaries": sc.boundaries,
        "cut_at": sc.cut_at,
        "unhandled": sc.unhandled[:5],
        "snap": {f"{d}:{r}": v for (d, r), v in sc.snap.items()},
    }


def execute(jobs, workers=1):
    """~20 ms per scenario; run in-process (a process pool was measured slower on a busy machine)"""
    return [_run_one(j) for j in jobs]


def pick_ks(n, quick, rng, extra):
    """thorough: every boundary; quick: 0, 1, N-1, N and `extra` more, one drawn by the seed from each of `extra`
    equal strata of 2..N-2 (a window of boundaries at least (N-3)/extra wide is always hit)"""
    if not quick:
        return list(range(0, n + 1))
    ks = {0, 1, max(0, n - 1), n}
    mid = list(range(2, n - 1))
    if len(mid) <= extra:
        ks.update(mid)
    else:
        for i in range(extra):
            lo, hi = i * len(mid) // extra, (i + 1) * len(mid) // extra
            ks.add(mid[rng.randrange(lo, hi)])
    return sorted(k for k in ks if 0 <= k <= n)


TRACE_CFG = (
    "SPECIFICATION TraceSpec\nCONSTANTS\n  Conns = {1, 2}\n  Regs = {\"none\"}\n  OpIds = {1, 2, 3}\n"
    "  Steps = 0\n  MaxEst = 1\n  MaxCuts = 1\n  Bugs = {}\nCHECK_DEADLOCK FALSE\n"
)


def role_of(d, job, caller):
    from lib import c16_rig as R

    proc, kind = job[0], job[1]
    cutter = caller if kind in (None, "transport_loss", "local_disconnect") else 1 - caller
    if d == "C":
        return "bystander"
    return "cut-side" if R.DEVS.index(d) == cutter else "peer-side"


def best_verdicts(res, n):
    """Per trace: ACCEPT if some interleaving of the unlogged steps explains it with nothing bad; otherwise the
    end-of-trace rejection with the fewest failed clauses (the interleaving that explains most); a trace that
    only ever got stuck keeps lib.tlc's verdict (deepest stuck point)."""
    from lib import tlaval

    out = dict(res["verdicts"])
    ends = {}
    for txt in tlc._split_printed(res["out"]):
        try:
            v = tlaval.parse_value(txt)
        except tlaval.ParseError:
            continue
        if v and v[0] == "REJECT" and len(v) >= 5 and v[3] == "end":
            if v[1] not in ends or len(v[4]) < len(ends[v[1]][3]):
                ends[v[1]] = ("REJECT",) + tuple(v[2:])
    for tid, v in ends.items():
        if out.get(tid, ("REJECT",))[0] != "ACCEPT":
            out[tid] = v
    assert set(out) == set(range(1, n + 1))
    return out


def verdicts_of(ctx, rep, results):
    """one TLC run over all traces -> per result the sorted list of failed clauses ([] = accepted)"""
    bad_runs = [r for r in results if "error" in r]
    if bad_runs:
        raise RuntimeError(f"{len(bad_runs)} scenario(s) crashed in the harness, first: {bad_runs[0]['job']}: {bad_runs[0]['error']}")
    cfg = _write(ctx, "teardown_trace.cfg", TRACE_CFG)
    spec = ctx.spec("Stack", "TeardownTrace.tla")
    chunk = 1200  # traces per TLC run (one JSON file each); several runs go in parallel
    parts = [results[i:i + chunk] for i in range(0, len(results), chunk)]

    def one(part):
        return tlc.trace_batch(spec, cfg, [r["events"] for r in part], tag="c16")

    if len(parts) == 1:
        ress = [one(parts[0])]
    else:
        from concurrent.futures import ThreadPoolExecutor

        with ThreadPoolExecutor(max_workers=4) as ex:
            ress = list(ex.map(one, parts))
    out = []
    for part, res in zip(parts, ress):
        if rep is not None:
            rep.extra["trace_states"] = rep.extra.get("trace_states", 0) + res["states"]
            _tick(rep, "trace_validation_s", res["wall_s"])
        for tid, v in sorted(best_verdicts(res, len(part)).items()):
            r = part[tid - 1]
            if v[0] == "ACCEPT":
                out.append([])
            elif v[2] != "end":
                raise tlc.TlcError(f"trace of {r['job']} is not a behaviour the trace spec can follow (harness or spec bug): stuck at event {v[1]}: {v[2]} state {v[3] if len(v) > 3 else ''}")
            else:
                out.append(sorted(tuple(x) for x in v[3]))
    return out


def violations_of(r, labels):
    """(sig, what) for every failed clause of one scenario"""
    from lib import c16_rig as R

    proc, kind = r["job"][0], r["job"][1]
    caller = R.PROCS[proc].caller
    kname = kind or "none"
    out = []
    for lab in labels:
        if lab[0] == "pending":
            oid = int(lab[1])
            name, frame = r["hangs"].get(oid, (r["ops"][oid][0], "?"))
            out.append((f"hang:{name}:{kname}:{frame}", f"{name} never ends: still suspended in {frame} 120 virtual seconds after the cut"))
        elif lab[0] == "tables":
            out.append((f"tables:{lab[2]}:{lab[3]}:{kname}:{role_of(lab[1], r['job'], caller)}",
                        f"{lab[2]} table of stack {lab[1]} {'still lists a closed connection' if lab[3] == 'stale' else 'lacks a live connection'}"))
        else:
            out.append((f"registry:{lab[2]}:{kname}:{role_of(lab[1], r['job'], caller)}",
                        f"registry {lab[2]} of stack {lab[1]} still names a closed connection: {r['snap'].get(lab[1] + ':' + lab[2])}"))
    return out


def judge(ctx, rep, results):
    """validate every trace with TeardownTrace.tla and turn the verdicts into violations"""
    nviol = 0
    for r, labels in zip(results, verdicts_of(ctx, rep, results)):
        proc, kind, k, seed, max_delay, n_uncut = r["job"]
        rep.traces += 1
        outcomes = tuple(sorted((n, o[0] if o else "pending") for n, o in r["ops"].values()))
        rep.case((proc, kind, k, seed, max_delay), nontrivial=kind is not None,
                 sample={"proc": proc, "cut": kind, "k": k, "N": n_uncut, "outcomes": outcomes} if (kind and k == 1) else None)
        st = rep.extra.setdefault("outcomes", {})
        for n, o in r["ops"].values():
            key = f"{n}:{(o[0] + ('/' + o[1] if o[1] else '')) if o else 'pending'}"
            st[key] = st.get(key, 0) + 1
        for sig, what in violations_of(r, labels):
            nviol += 1
            rep.violation(
                sig,
                f"{proc} cut by {kind or 'none'} at boundary {k} of {n_uncut} (seed {seed}, delay {max_delay}): {what}",
                {"proc": proc, "kind": kind, "k": k, "n": n_uncut, "seed": seed, "max_delay": max_delay, "labels": [list(x) for x in labels],
                 "ops": {str(i): list(map(str, o)) for i, o in r["ops"].items()}, "trace": r["events"]},
            )
    return nviol


def plan_and_run(ctx, rep, procs, delay_cfgs, workers=1):
    """delay_cfgs: (seed, max_delay, strata) - strata only matters in the quick tier"""
    from lib import c16_rig as R

    # 1. uncut runs: N per (procedure, delay configuration)
    strata = {(seed, md): ex for (seed, md, ex) in delay_cfgs}
    base_jobs = [(p, None, None, seed, md, 0) for p in procs for (seed, md, _) in delay_cfgs]
    t0 = time.time()
    base = execute(base_jobs, workers)
    for r in base:
        if "error" in r:
            raise RuntimeError(f"uncut run crashed {r['job']}: {r['error']}")
        if any(o is None for _, o in r["ops"].values()):
            raise RuntimeError(f"uncut run of {r['job'][0]} does not complete: the catalogue entry is broken ({r['hangs']})")
    ncount = rep.extra.setdefault("boundaries", {})
    jobs = []
    for r in base:
        p, _, _, seed, md, _ = r["job"]
        n = r["boundaries"]
        ncount[f"{p}/{seed}/{md}"] = n
        for kind in R.KINDS:
            for k in pick_ks(n, ctx.quick, ctx.rng, strata[(seed, md)]):
                jobs.append((p, kind, k, seed, md, n))
    results = execute(jobs, workers)
    _tick(rep, "scenarios_s", time.time() - t0)
    judge(ctx, rep, base + results)  # the uncut runs are traces too (no cut: everything stays live, every call returns)
    return len(jobs)


def run(ctx, rep):
    from lib import c16_rig as R

    rep.rule = ("(M) Teardown.tla exhaustively within the constants; (B) every procedure of the catalogue x cut kind in {local disconnect, remote "
                "disconnect, transport loss} x boundary k (thorough: every k in 0..N; quick: 0, 1, N-1, N and one seeded k per stratum) x delay configuration "
                "(thorough: none / 2 ms / 50 ms; quick: 2 ms with 8 strata, none with 3); "
                "one trace per scenario validated by TeardownTrace.tla; distinct = distinct (procedure, cut, k, delays)")
    rep.assumptions = [
        "a message boundary is an HCI packet at the taps of the two stacks of the link under test; the cut is made from the event loop after boundary k",
        "a lost transport delivers nothing that was in flight in either direction; the controller of the lost side is left alone",
        "an operation that ends by a protocol time-out firing within 120 virtual seconds ended with an error (DESIGN Appendix D)",
        "a result returned after the cut is accepted (the exchange had completed); only not ending is a violation",
        "virtual-time event loop preserves asyncio callback order; delays are order-preserving per direction",
    ]
    model_check(ctx, rep)
    procs = list(R.PROCS)
    if ctx.quick:
        # 2 ms delays: 8 strata of cut points; no delays (everything in one loop iteration): 3 strata
        n = plan_and_run(ctx, rep, procs, [(ctx.seed + 1, 0.002, 8), (ctx.seed + 1, 0.0, 3)])
    else:
        n = plan_and_run(ctx, rep, procs, [(ctx.seed + 1, 0.0, 0), (ctx.seed + 1, 0.002, 0), (ctx.seed + 2, 0.05, 0)])
    rep.extra["scenarios"] = n
    rep.exhaustive = not ctx.quick
    if not ctx.quick:
        selftest(ctx, rep)


def replay(ctx, rep):
    from lib import c16_rig as R

    r = ctx.replay["replay"]
    sc = R.run_scenario(r["proc"], r["kind"], r["k"], r["seed"], r["max_delay"])
    for e in sc.events:
        print({k: v for k, v in e.items() if v not in ("", 0, [])} if e["e"] not in ("tables", "registry", "quiesce") else e)
    print("operations:", {oid: (d[0], d[1]) for oid, d in sc.details.items()})
    print("still pending after 120 virtual seconds:", sc.hangs)
    print("boundaries seen:", sc.boundaries, "cut made at:", sc.cut_at, "unhandled loop exceptions:", sc.unhandled[:3])
    judge(ctx, rep, [summarize(sc, (r["proc"], r["kind"], r["k"], r["seed"], r["max_delay"], r.get("n", 0)))])


def _sigs_of(ctx, results):
    """per result: the signatures the check would report for it (one TLC run for all)"""
    return [[sig for sig, _ in violations_of(r, labels)] for r, labels in zip(results, verdicts_of(ctx, None, results))]


def selftest(ctx, rep):
    """Binding self-test (nothing under /repo is touched):
    1. every named deviation of Teardown.tla must break the invariant it is documented to break;
    2. recorded traces of the real stack, corrupted in one place, must be rejected with the right clause;
    3. real objects wrapped so that they misbehave in one documented way must be flagged."""
    import asyncio
    import copy

    from lib import c16_rig as R

    results = {}
    spec = ctx.spec("Stack", "Teardown.tla")
    # 1. model deviations
    for bug, inv in BUGS.items():
        cfg = _write(ctx, f"teardown_bug_{bug}.cfg", mc_cfg([1, 2], ["gatt_subscribers"], [1], 2, 1, 2, bugs=[bug], invs=QUIESCE_INVS, prop=False))
        res = tlc.mc(spec, cfg, workers=4, coverage=False)
        results[f"model:{bug}"] = res["violation"] == f"invariant {inv}"
    # 2. corrupted traces
    job = ("gatt_read", "remote_disconnect", 2, ctx.seed + 1, 0.002, 6)
    good = summarize(R.run_scenario(*job[:5]), job)
    base_sigs = _sigs_of(ctx, [good])[0]  # whatever the tree itself does wrong in this scenario

    def corrupt(fn):
        r = copy.deepcopy(good)
        fn(r["events"])
        return r

    def drop_ret(ev):
        i = next(i for i, e in enumerate(ev) if e["e"] == "ret" and e["o"] == 1)
        del ev[i]
        next(e for e in ev if e["e"] == "quiesce")["S"] = [1]

    def last(ev, kind, d, key, val):
        return [e for e in ev if e["e"] == kind and e["d"] == d and e[key] == val][-1]

    cases = {
        "trace:ret-dropped": (drop_ret, "hang:gatt_read:remote_disconnect"),
        "trace:host-table-stale": (lambda ev: last(ev, "tables", "A", "layer", "host")["S"].append(1), "tables:host:stale:remote_disconnect:peer-side"),
        "trace:device-table-missing": (lambda ev: last(ev, "tables", "A", "layer", "device")["S"].remove(2), "tables:device:missing:remote_disconnect:peer-side"),
        "trace:bystander-table-missing": (lambda ev: last(ev, "tables", "C", "layer", "ctrl")["S"].remove(2), "tables:ctrl:missing:remote_disconnect:bystander"),
        "trace:registry-stale": (lambda ev: last(ev, "registry", "B", "r", "smp_sessions")["S"].append(1), "registry:smp_sessions:remote_disconnect:cut-side"),
        "trace:unknown-handle": (lambda ev: last(ev, "registry", "A", "r", "l2cap_channels")["S"].append(9), "registry:l2cap_channels:remote_disconnect:peer-side"),
        "trace:cut-dropped": (lambda ev: ev.remove(next(e for e in ev if e["e"] == "cut")), "tables:"),
    }
    names = list(cases)
    for name, sigs in zip(names, _sigs_of(ctx, [corrupt(cases[n][0]) for n in names])):
        results[name] = any(x.startswith(cases[name][1]) for x in sigs if x not in base_sigs)

    # 3. shims on the real objects
    def shim_no_gatt_cleanup(net):
        net[1].gatt_server.on_disconnection = lambda bearer: None

    def shim_host_keeps_connection(net):
        host = net.stacks[0].host
        orig = host.on_hci_disconnection_complete_event

        def keep(event):
            c = host.connections.get(event.connection_handle)
            orig(event)
            if c is not None:
                host.connections[event.connection_handle] = c

        host.on_hci_disconnection_complete_event = keep

    def shim_no_queue_flush(net):
        host = net.stacks[0].host
        for q in (host.acl_packet_queue, host.le_acl_packet_queue):
            if q is not None:
                q.flush = lambda handle: None

    def shim_smp_session_kept(net):
        net[0].smp_manager.on_session_end = lambda session: None

    shims = {
        "shim:device-forgets-gatt-server": (shim_no_gatt_cleanup, ("gatt_indicate", "remote_disconnect", 3), "registry:gatt_subscribers:"),
        "shim:host-keeps-connection": (shim_host_keeps_connection, ("gatt_write", "remote_disconnect", 2), "tables:host:stale:"),
        "shim:queue-not-flushed": (shim_no_queue_flush, ("data_queue_drain", "remote_disconnect", 8), ("registry:data_queue:", "hang:data_queue_drain:")),
        "shim:smp-session-kept": (shim_smp_session_kept, ("pair_legacy", "local_disconnect", 9), "registry:smp_sessions:"),
    }
    shim_runs = []
    for name, (patch, (proc, kind, k), want) in shims.items():
        j = (proc, kind, k, ctx.seed + 1, 0.002, 0)
        shim_runs.append(summarize(R.run_scenario(proc, kind, k, ctx.seed + 1, 0.002, device_patch=patch), j))

    # a waiter that nobody cancels: Connection.cancel_on_disconnection made a no-op
    from bumble import device as bdevice

    orig = bdevice.Connection.cancel_on_disconnection
    bdevice.Connection.cancel_on_disconnection = lambda self, awaitable: asyncio.ensure_future(awaitable)
    try:
        j = ("pair_legacy", "remote_disconnect", 9, ctx.seed + 1, 0.002, 0)
        shim_runs.append(summarize(R.run_scenario(*j[:5]), j))
    finally:
        bdevice.Connection.cancel_on_disconnection = orig
    wants = [w for (_, _, w) in shims.values()] + ["hang:pair_legacy:"]
    for name, want, sigs in zip(list(shims) + ["shim:waiter-not-cancelled"], wants, _sigs_of(ctx, shim_runs)):
        results[name] = any(x.startswith(want) for x in sigs)

    print("selftest:", results)
    rep.extra["selftest"] = results
    for k, ok in results.items():
        if not ok:
            rep.violation(f"selftest:{k}", f"binding self-test: {k} was not detected")
