"""C05: L2CAP PDUs of any size cross the ACL link intact for any buffer geometry; ISO SDU fragments.

(M) specs/Hci/AclFrag.tla (sender split, malformed fragments from the peer, the assembler) and IsoFrag.tla
    model-checked by TLC.
(A) every edge of the bounded state graph of AclFrag.tla (genuine and malformed fragments) replayed byte for
    byte into the real HCI_AclDataPacketAssembler.feed_packet and into a real Host.on_packet path.
(B) real two-device networks (lib.rig.Net) with per-controller ACL geometries on LE and BR/EDR, PDUs of
    boundary lengths up to 65535 in both directions, observed at both HCI taps with the harness' own
    decoder and at the receiver's 'l2cap_pdu' event; a real Host fed with arbitrarily split PDUs and
    malformed fragments at real sizes; a real Host with CIS / BIS links for send_iso_sdu.  All traces are
    decided by TLC on AclFragTrace.tla / IsoFragTrace.tla.
"""
from __future__ import annotations

import concurrent.futures as cf
import os
import random

from lib import c05_replay as rp
from lib import c05_scen as scen
from lib import c05_wire as w
from lib import tlc, tour, vt

LEVEL = "model_checking"

ACL_ACTIONS = ["SendPdu", "EmitFrag", "InsertCont", "InsertJunk", "InsertExcess", "InsertTinyStart", "InsertShortStart", "DuplicateStart"]
ACL_INVS = ["TypeOK", "Inv_Size", "Inv_Flags", "Inv_Exact", "Inv_NoFault", "Inv_Recover", "Inv_DirtyBound", "Inv_Idle", "Inv_Run"]


# ----------------------------------------------------------------------------- (M)
def _write(ctx, name, text):
    p = os.path.join(ctx.out, name)
    with open(p, "w") as f:
        f.write(text)
    return p


def acl_cfg(ctx, f, maxl, npdus, maxfaults, junk, sticky=False):
    text = ("SPECIFICATION Spec\nCONSTANTS\n"
            f"  F = {f}\n  MaxL = {maxl}\n  NPdus = {npdus}\n  MaxFaults = {maxfaults}\n  JunkLens = {{{', '.join(map(str, junk))}}}\n"
            f"  Sticky = {'TRUE' if sticky else 'FALSE'}\n"
            + "".join(f"INVARIANT {i}\n" for i in ACL_INVS) + "CHECK_DEADLOCK FALSE\n")
    return _write(ctx, f"aclfrag_{f}_{maxl}_{npdus}_{maxfaults}{'_sticky' if sticky else ''}.cfg", text)


def mc_control(ctx):
    """negative control: with an assembler that does not start over on START, TLC must find the property violated"""
    res = tlc.mc(ctx.spec("Hci", "AclFrag.tla"), acl_cfg(ctx, 4, 9, 2, 1, [0, 5], sticky=True), workers=2, coverage=False)
    if res["violation"] not in ("invariant Inv_Exact", "invariant Inv_Recover"):
        raise tlc.TlcError(f"negative control: the sticky-START assembler was not rejected by the model checker ({res['violation']})")
    return res["violation"]


def iso_cfg(ctx, fi, maxs, nsdus, m, psn0):
    text = ("SPECIFICATION Spec\nCONSTANTS\n"
            f"  Fi = {fi}\n  MaxS = {maxs}\n  NSdus = {nsdus}\n  M = {m}\n  Psn0 = {psn0}\n"
            "INVARIANT Iso_Size\nINVARIANT Iso_Flags\nINVARIANT Iso_Header\nINVARIANT Iso_Exact\nCHECK_DEADLOCK FALSE\n")
    return _write(ctx, f"isofrag_{fi}_{maxs}_{nsdus}_{m}_{psn0}.cfg", text)


def mc_acl(ctx, f, maxl, npdus, maxfaults, junk, dump=False):
    cfg = acl_cfg(ctx, f, maxl, npdus, maxfaults, junk)
    dot = os.path.join(ctx.out, f"graph_{f}_{maxl}_{npdus}_{maxfaults}.dot") if dump else None
    res = tlc.mc(ctx.spec("Hci", "AclFrag.tla"), cfg, workers=4, dump=dot)
    if res["violation"]:
        raise tlc.TlcError(f"AclFrag.tla (F={f}) violates {res['violation']} in the model itself:\n{res['out'][-2500:]}")
    need = list(ACL_ACTIONS) + (["InsertStart"] if f >= 4 else [])
    tlc.require_actions(res, need, f"AclFrag F={f}")
    g = None
    if dump:
        g = tlc.load_graph(dot)
        os.remove(dot)
    return res, {"F": f, "MaxL": maxl, "NPdus": npdus, "MaxFaults": maxfaults, "JunkLens": junk}, g


def mc_iso(ctx, fi, maxs, nsdus, m, psn0):
    res = tlc.mc(ctx.spec("Hci", "IsoFrag.tla"), iso_cfg(ctx, fi, maxs, nsdus, m, psn0), workers=2)
    if res["violation"]:
        raise tlc.TlcError(f"IsoFrag.tla violates {res['violation']} in the model itself:\n{res['out'][-2500:]}")
    tlc.require_actions(res, ["SendSdu", "EmitIso"], "IsoFrag")
    return res, {"Fi": fi, "MaxS": maxs, "NSdus": nsdus, "M": m, "Psn0": psn0}


# ----------------------------------------------------------------------------- (A)
def replay_graph(ctx, rep, g, f, limit=None, asm_factory=None, targets=("asm", "host"), seed=0, host_patch=None):
    """one replay per edge (shortest path from Init + the edge) on each target"""
    paths = list(tour.edge_paths(g))
    if limit and len(paths) > limit:
        random.Random(f"{ctx.seed}/paths/{f}").shuffle(paths)
        paths = paths[:limit]
    conc = rp.Concrete(f, seed)
    covered = set()

    def report(tname, ops, bad, log):
        name, clause, detail = bad
        rep.violation(f"{tname}:{name}:{clause}",
                      f"{'HCI_AclDataPacketAssembler' if tname == 'asm' else 'Host.on_packet'} after {ops} (F={f}): {detail}",
                      {"part": "replay", "target": tname, "F": f, "ops": ops, "log": log})

    async def main():
        hr = None
        if "host" in targets:
            hr = scen.HostRig()
            await hr.start()
            if host_patch:
                host_patch(hr)
        for n, path in enumerate(paths):
            ops = None
            for tname in targets:
                if tname == "asm":
                    t = rp.AsmTarget(asm_factory)
                    start_pb = w.PB_START_HOST if n % 2 else w.PB_START_CTRL
                else:
                    t = rp.HostTarget(hr, "le" if n % 2 else "classic")
                    start_pb = w.PB_START_CTRL
                try:
                    ops, bad, log = rp.run_path(t, conc, g, path, start_pb)
                finally:
                    t.close()
                if bad:
                    report(tname, ops, bad, log)
            covered.update(path)
            rep.traces += 1
            faulty = any(o[0] not in ("SendPdu", "EmitFrag") for o in ops)
            rep.case(("replay", f, tuple((o[0], tuple(o[1])) for o in ops)), nontrivial=len(ops) > 2,
                     sample={"replay_F": f, "ops": ops} if (faulty and n % 997 == 0) else None)

    vt.run(main())
    return len(covered), len(g.edges)


# ----------------------------------------------------------------------------- (B) scenario sets
def geometry(transport, f, count, other_f):
    """controller attributes so that the pool used by `transport` has (f, count) and the other pool differs"""
    if transport == "le":
        return {"le_acl_data_packet_length": f, "total_num_le_acl_data_packets": count,
                "acl_data_packet_length": other_f, "total_num_acl_data_packets": 3}
    return {"acl_data_packet_length": f, "total_num_acl_data_packets": count,
            "le_acl_data_packet_length": other_f, "total_num_le_acl_data_packets": 3}


def link_scenarios(ctx):
    rng = random.Random(f"{ctx.seed}/link")
    fs = scen.ACL_LENGTHS
    out = []
    rounds = 1 if ctx.quick else 3
    for r in range(rounds):
        for transport in ("le", "bredr"):
            pairs = [(fa, fs[(i + 1 + r) % 6]) for i, fa in enumerate(fs)] if ctx.quick else [(fa, fb) for fa in fs for fb in fs]
            for fa, fb in pairs:
                ca, cb = rng.choice(scen.ACL_COUNTS), rng.choice(scen.ACL_COUNTS)
                lens = []
                for f in (fa, fb):
                    ls = scen.pdu_lengths(f)
                    if rng.random() < 0.5:
                        rng.shuffle(ls)
                    lens.append(ls)
                out.append({"transport": transport, "seed": rng.randrange(1 << 30), "central": rng.choice([0, 1]),
                            "cfg": [geometry(transport, fa, ca, rng.choice([x for x in fs if x != fa])),
                                    geometry(transport, fb, cb, rng.choice([x for x in fs if x != fb]))],
                            "f": [fa, fb], "lens": lens, "pace": rng.choice(["burst", "paced"]),
                            "max_delay": rng.choice([0.0, 0.002, 0.05])})
    # another link of the sending device is disconnected (by either side) while its fragments wait for controller
    # buffers: the disconnection makes the host go over its queues; order and content of what waits must not change
    for transport in ("le", "bredr"):
        for side in (0, 1):
            for f, count in ((27, 1), (27, 2), (64, 2)) if ctx.quick else ((27, 1), (27, 2), (28, 3), (64, 2), (251, 1), (251, 3)):
                out.append({"transport": transport, "seed": rng.randrange(1 << 30), "central": 0,
                            "cfg": [geometry(transport, f, count, 1021), geometry(transport, 1021, 64, 27)],
                            "f": [f, 1021], "lens": [[5 * f + 3, 2 * f, 7 * f - 1, 1], [3]], "pace": "burst", "shuffle": False,
                            "max_delay": rng.choice([0.0, 0.002]), "bystander": {"side": side, "after": rng.choice([0.0, 0.001, 0.01])}})
    # LE over the shared BR/EDR pool: no dedicated LE buffers (length 0, or count 0)
    for k, (fa, fb) in enumerate([(64, 27), (1021, 251)] if ctx.quick else [(27, 64), (64, 27), (251, 1021), (1021, 251), (65535, 28), (28, 65535)]):
        cfgs = []
        for j, f in enumerate((fa, fb)):
            c = {"acl_data_packet_length": f, "total_num_acl_data_packets": rng.choice(scen.ACL_COUNTS)}
            if (k + j) % 2:
                c.update({"le_acl_data_packet_length": 0, "total_num_le_acl_data_packets": 0})
            else:
                c.update({"le_acl_data_packet_length": 0, "total_num_le_acl_data_packets": 5})
            cfgs.append(c)
        out.append({"transport": "le", "seed": rng.randrange(1 << 30), "central": k % 2, "cfg": cfgs, "f": [fa, fb],
                    "lens": [scen.pdu_lengths(fa, big=[65535]), scen.pdu_lengths(fb, big=[65535])], "pace": "burst", "max_delay": 0.002})
    return out


def iso_scenarios(ctx):
    rng = random.Random(f"{ctx.seed}/iso")
    out = []
    fis = [5, 6, 8, 16, 27, 64, 251, 960, 4095, 16383]
    for fi in fis:
        for link in ("cis", "bis"):
            ss = [1, 2]
            for k in range(0, 4):
                base = (fi - 4) + k * fi
                for v in (base - 1, base, base + 1, (k + 1) * fi - 1, (k + 1) * fi, (k + 1) * fi + 1):
                    if 1 <= v <= 4095 and v not in ss:
                        ss.append(v)
            ss += [4094, 4095]
            if not ctx.quick or fi >= 16:
                pass
            if ctx.quick and fi < 16:
                ss = [s for s in ss if s <= 200]  # 4095 bytes through 5-byte packets: thorough tier
            rng.shuffle(ss)
            if link == "bis":
                ss.insert(rng.randrange(len(ss)), 0)  # an empty SDU (free: no packet, or one complete empty one)
            out.append({"fi": fi, "link": link, "count": rng.choice([1, 2, 64]), "sdus": ss, "seed": rng.randrange(1 << 30),
                        "psn0": rng.choice([None, 65536 - rng.randint(1, len(ss) - 1)])})
    # a real CIS between two real devices (LE connection, CIG set-up, CIS request / accept), SDUs from both ends
    for fa, fb in ([(27, 64)] if ctx.quick else [(27, 64), (5, 960), (251, 16), (4095, 8)]):
        ss = [1, fa - 5, fa - 4, fa - 3, fb - 5, fb - 4, fb - 3, 2 * fa - 4, 2 * fb - 4, 2 * fa - 3, 2 * fb - 3, 700]
        out.append({"fi": [fa, fb], "link": "real-cis", "seed": rng.randrange(1 << 30), "sdus": [s for s in ss if 1 <= s <= 4095], "psn0": None})
    if not ctx.quick:
        # the sequence number really wraps: more than 65536 SDUs on one link
        out.append({"fi": 27, "link": "cis", "count": 64, "sdus": [rng.choice([1, 22, 23, 24, 50]) for _ in range(66000)], "seed": 7, "psn0": None})
    return out


# ----------------------------------------------------------------------------- verdicts
def _first_false(why):
    if isinstance(why, dict):
        for k in ("geometry", "known", "in_sequence", "run", "nonempty", "size", "lenfield", "header", "marker", "last_marker", "bytes", "within",
                  "sdu_length", "seq_number", "identified", "digest", "once_order", "complete", "none_lost", "h2c_complete", "c2h_complete",
                  "all_sent", "numbering", "exact", "event"):
            if k in why and why[k] is False:
                return k
    return "unexplained"


def _size_class(tr, info):
    """does the PDU the rejection is about need more than one 16-bit length (L + 4 > 65535)?"""
    lens = [e["L"] for e in tr if e["e"] == "pdu_out"]
    cand = []
    if isinstance(info, dict):
        for key in ("lastIn", "nsent", "hdone"):
            v = info.get(key)
            if isinstance(v, int) and v < len(lens):
                cand.append(lens[v])
                break
    return ":L>65531" if cand and cand[0] > 65531 else ""


def judge_acl(rep, family, items, res):
    """items[i] = (trace, side, replay dict, case key)"""
    for tid, v in res["verdicts"].items():
        tr, side, rd, key = items[tid - 1]
        rep.traces += 1
        rep.case(key, nontrivial=len(tr) > 3, sample={"family": family, "side": side, "events": tr[:4]} if tid == 1 else None)
        if v[0] == "REJECT":
            line = v[1]
            e = tr[line - 1] if 0 < line <= len(tr) else {"e": "none"}
            info = v[3] if len(v) > 3 else {}
            clause = _first_false(info.get("why") if isinstance(info, dict) else None)
            cls = _size_class(tr, info) if e["e"] == "quiesce" else ""
            rep.violation(f"{family}:{side}:{e['e']}:{clause}{cls}",
                          f"{family} trace ({side}, {rd.get('what', '')}) rejected at event {line}: {e}; spec state: {info}"
                          + (f"; exceptions in event-loop callbacks: {rd['excs']}" if rd.get("excs") else ""),
                          dict(rd, side=side, line=line, trace=tr if len(tr) < 400 else tr[: line + 2]))


def judge_iso(rep, items, res):
    for tid, v in res["verdicts"].items():
        tr, rd, key = items[tid - 1]
        rep.traces += 1
        rep.case(key, nontrivial=len(tr) > 3, sample={"family": "iso", "events": tr[:4]} if tid == 1 else None)
        if v[0] == "REJECT":
            line = v[1]
            e = tr[line - 1] if 0 < line <= len(tr) else {"e": "none"}
            info = v[3] if len(v) > 3 else {}
            clause = _first_false(info.get("why") if isinstance(info, dict) else None)
            rep.violation(f"iso:{e['e']}:{clause}",
                          f"ISO trace (Fi={rd['sc']['fi']}, {rd['sc']['link']}{' end ' + str(rd['end']) if 'end' in rd else ''}) rejected at event {line}: {e}; spec state: {info}",
                          dict(rd, line=line, trace=tr if len(tr) < 400 else tr[max(0, line - 6): line + 2]))


def chunks(items, n):
    n = max(1, min(n, len(items)))
    size = (len(items) + n - 1) // n
    return [items[i : i + size] for i in range(0, len(items), size)]


# ----------------------------------------------------------------------------- the families of (B)
def run_links(ctx, scs, patch=None):
    items = []
    problems = []
    for sc in scs:
        try:
            r = scen.link_scenario(sc, patch)
        except vt.Quiescent as e:
            problems.append((sc, f"connection set-up never completes: {e}"))
            continue
        what = f"{sc['transport']} F={sc['f']} counts={[c.get('total_num_le_acl_data_packets' if sc['transport'] == 'le' else 'total_num_acl_data_packets') for c in sc['cfg']]} {sc['pace']}"
        for k, tr in enumerate(r["traces"]):
            d, side = divmod(k, 2)
            items.append((tr, "tx" if side == 0 else "rx",
                          {"part": "link", "sc": sc, "dir": d, "what": what + f" dir={d}", "excs": r["excs"]},
                          ("link", sc["transport"], sc["f"][d], sc["f"][1 - d], tuple(sc["lens"][d]), side, sc["pace"], str(sc["cfg"]))))
    return items, problems


def run_host_traces(ctx, n, fault_rate=0.5, patch=None, base=0):
    items = []

    async def main():
        hr = scen.HostRig()
        await hr.start()
        if patch:
            patch(hr)
        for i in range(base, base + n):
            rng = random.Random(f"{ctx.seed}/host/{i}")
            tr, script = scen.host_trace(hr, rng, ctx.seed * 100003 + i, rng.randint(2, 9), fault_rate, kind="le" if i % 2 else "classic")
            items.append((tr, "rx", {"part": "hosttrace", "i": i, "fault_rate": fault_rate, "what": f"host trace {i}"},
                          ("host", tuple((e["e"], e["kind2"], e["pb"], e["n"], e["rep"], e["L"]) for e in tr))))

    vt.run(main())
    return items


def run_iso(ctx, scs, patch=None):
    items = []
    for sc in scs:
        if sc["link"] == "real-cis":
            r = scen.iso_real_cis(sc, patch)
            for end, tr in enumerate(r["events"]):
                items.append((tr, {"part": "iso", "sc": sc, "end": end}, ("iso", sc["fi"][end], "real-cis", end, tuple(sc["sdus"][:60]))))
            continue
        r = scen.iso_scenario(sc, patch)
        items.append((r["events"], {"part": "iso", "sc": sc}, ("iso", sc["fi"], sc["link"], tuple(sc["sdus"][:60]), len(sc["sdus"]), sc["psn0"])))
    return items


# ----------------------------------------------------------------------------- entry points
def run(ctx, rep):
    rep.rule = ("(A) one replay per edge of the TLC state graph of AclFrag.tla (shortest path from Init + the edge), each on the bare assembler and "
                "through Host.on_packet; (B) one trace per (scenario, direction, observation side) of two-device networks, one per connection of the "
                "fed Host, one per ISO link; distinct = distinct operation / event sequences longer than the set-up")
    rep.assumptions = ["a PDU is affected by a malformed fragment iff the fragment arrives between its first and its last fragment (DESIGN Appendix D)",
                       "the fragment size a host must respect is what its controller answers to (LE) Read Buffer Size; LE falls back to the BR/EDR pool when the LE length or count is 0",
                       "an SDU of length 0 may be sent as one empty complete ISO packet or not at all",
                       "virtual-time event loop preserves asyncio callback order"]
    pool = cf.ThreadPoolExecutor(max_workers=6)
    spec_t = ctx.spec("Hci", "AclFragTrace.tla")
    cfg_t = ctx.spec("Hci", "AclFragTrace.cfg")
    ispec_t = ctx.spec("Hci", "IsoFragTrace.tla")
    icfg_t = ctx.spec("Hci", "IsoFragTrace.cfg")

    # (M): started first, TLC runs beside the scenario runs below
    if ctx.quick:
        mcs = [pool.submit(mc_acl, ctx, 5, 16, 3, 1, [0, 3], True),
               pool.submit(mc_acl, ctx, 4, 13, 2, 2, [0, 5], False),
               pool.submit(mc_acl, ctx, 2, 7, 3, 1, [0, 1], False)]
        isos = [pool.submit(mc_iso, ctx, 6, 19, 4, 3, 1)]
    else:
        mcs = [pool.submit(mc_acl, ctx, 5, 16, 3, 2, [0, 3], True),
               pool.submit(mc_acl, ctx, 3, 10, 3, 2, [0, 2], True)]
        mcs += [pool.submit(mc_acl, ctx, f, 3 * f + 1, 3, 2, [0, f - 2 if f > 2 else 1], False) for f in (2, 4, 6, 7, 8)]
        isos = [pool.submit(mc_iso, ctx, 6, 19, 4, 3, 1), pool.submit(mc_iso, ctx, 5, 16, 5, 4, 2), pool.submit(mc_iso, ctx, 9, 28, 3, 2, 0)]

    control = pool.submit(mc_control, ctx)

    # (B) two-device networks
    items, problems = run_links(ctx, link_scenarios(ctx))
    for sc, msg in problems:
        rep.violation("link:setup:never-completes", f"{msg} for {sc['transport']} {sc['cfg']}", {"part": "link", "sc": sc})
    link_jobs = [(c, pool.submit(tlc.trace_batch, spec_t, cfg_t, [x[0] for x in c], tag="c05link")) for c in chunks(items, 2 if ctx.quick else 6)]
    # (B) the fed Host at real sizes with malformed fragments
    hitems = run_host_traces(ctx, 400 if ctx.quick else 6000)
    host_jobs = [(c, pool.submit(tlc.trace_batch, spec_t, cfg_t, [x[0] for x in c], tag="c05host")) for c in chunks(hitems, 1 if ctx.quick else 4)]
    # (B) ISO
    iitems = run_iso(ctx, iso_scenarios(ctx))
    iso_jobs = [(c, pool.submit(tlc.trace_batch, ispec_t, icfg_t, [x[0] for x in c], tag="c05iso")) for c in chunks(iitems, 1 if ctx.quick else 3)]

    # (M) results, (A) replay
    for fut in mcs:
        res, consts, g = fut.result()
        rep.add_mc("Hci/AclFrag.tla", res, consts)
        if g is not None:
            cov, tot = replay_graph(ctx, rep, g, consts["F"], limit=None if not ctx.quick else 20000)
            rep.extra.setdefault("replay_edges", []).append({"F": consts["F"], "MaxFaults": consts["MaxFaults"], "edges": tot, "covered": cov})
    for fut in isos:
        res, consts = fut.result()
        rep.add_mc("Hci/IsoFrag.tla", res, consts)

    rep.extra["negative_control"] = f"sticky-START assembler: TLC reports {control.result()}"

    tstates = 0
    for c, fut in link_jobs:
        res = fut.result()
        tstates += res["states"]
        judge_acl(rep, "link", c, res)
    for c, fut in host_jobs:
        res = fut.result()
        tstates += res["states"]
        judge_acl(rep, "hosttrace", c, res)
    for c, fut in iso_jobs:
        res = fut.result()
        tstates += res["states"]
        judge_iso(rep, c, res)
    pool.shutdown()
    rep.extra["trace_states"] = tstates
    rep.extra["link_scenarios"] = len(items) // 4
    rep.extra["host_traces"] = len(hitems)
    rep.extra["iso_links"] = len(iitems)
    # the repository's own tests, traced at the HCI boundary, against the C05 clauses of specs/Stack/HciMonitor.tla
    # (fragment size within the advertised data length, start / continuation markers against the announced L2CAP length)
    from lib import repotests

    repotests.report(ctx, rep, "C05_")
    rep.exhaustive = False
    if not ctx.quick:
        selftest(ctx, rep)  # DESIGN 3.6: the binding self-test is part of the thorough tier


def replay(ctx, rep):
    """re-run the recorded case against the tree under test; re-report it if it still fails"""
    r = ctx.replay["replay"]
    part = r.get("part")
    still = False
    spec_t, cfg_t = ctx.spec("Hci", "AclFragTrace.tla"), ctx.spec("Hci", "AclFragTrace.cfg")
    if part == "replay":
        async def main():
            nonlocal still
            if r["target"] == "asm":
                t = rp.AsmTarget()
            else:
                hr = scen.HostRig()
                await hr.start()
                t = rp.HostTarget(hr)
            for rec in r["log"]:
                bad = rp.check_packet(t, rec)
                print(f"{rec['op']}: pb={rec['pb']} data={rec['data'][:40]}({len(rec['data']) // 2}) model delivers {[x[:24] for x in rec['deliver']]} busy={rec['on']} -> {'OK' if not bad else bad}")
                if bad:
                    still = True
                    break
        vt.run(main())
    elif part == "link":
        res = scen.link_scenario(r["sc"])
        out = tlc.trace_batch(spec_t, cfg_t, res["traces"])
        for tid, v in sorted(out["verdicts"].items()):
            d, side = divmod(tid - 1, 2)
            print(f"dir {d} {'tx' if side == 0 else 'rx'}:", v if v[0] == "ACCEPT" else (v[0], v[1], res["traces"][tid - 1][v[1] - 1], v[3]))
            still = still or v[0] == "REJECT"
        print("exceptions in loop callbacks:", res["excs"])
    elif part == "hosttrace":
        items = run_host_traces(ctx, 1, r["fault_rate"], base=r["i"])
        out = tlc.trace_batch(spec_t, cfg_t, [items[0][0]])
        v = out["verdicts"][1]
        print(v if v[0] == "ACCEPT" else (v[0], v[1], items[0][0][v[1] - 1], v[3]))
        still = v[0] == "REJECT"
    elif part == "iso":
        if r["sc"]["link"] == "real-cis":
            res = {"events": scen.iso_real_cis(r["sc"])["events"][r.get("end", 0)]}
        else:
            res = scen.iso_scenario(r["sc"])
        out = tlc.trace_batch(ctx.spec("Hci", "IsoFragTrace.tla"), ctx.spec("Hci", "IsoFragTrace.cfg"), [res["events"]])
        v = out["verdicts"][1]
        print(v if v[0] == "ACCEPT" else (v[0], v[1], res["events"][v[1] - 1], v[3]))
        still = v[0] == "REJECT"
    else:
        raise ValueError(f"unknown replay part {part}")
    if still:
        rep.violation(ctx.replay["sig"], ctx.replay["summary"], r)
    else:
        print("the recorded case no longer fails on this tree")


def selftest(ctx, rep):
    from lib import c05_selftest

    c05_selftest.run(ctx, rep)
