"""C07 scenarios: build a real LE connection (lib.rig.Net), put bumble's real L2CAP on endpoint 0 and a
puppet (lib.c07_puppet) or a second real bumble on endpoint 1, run a scripted transfer in both
directions under order-preserving HCI delays until the event loop is quiescent, and return one trace per
(channel, direction) for LeCocTrace.tla.

A scenario is a JSON-able dict (so that it can be stored in a replay file and re-run).
"""
from __future__ import annotations

import asyncio
import functools
import os
import random
import traceback

from lib import c07_wire as w
from lib import rig, vt
from lib.c07_puppet import Puppet

PSM = 0x0085
QUIESCE_HORIZON = 2_000_000.0  # virtual seconds; far beyond any transfer here


class HarnessError(Exception):
    pass


def _bumble_dir():
    import bumble

    return os.path.dirname(os.path.abspath(bumble.__file__)) + os.sep


def raised_in_bumble(exc):
    """True if the innermost frame of the exception is bumble code (otherwise it is the harness' own bug)."""
    tb = traceback.extract_tb(exc.__traceback__)
    if not tb:
        return False
    return os.path.abspath(tb[-1].filename).startswith(_bumble_dir())


def _fragmenting_on_link_acl_data(controller, sender_address, transport, data, chunk=16384):
    """Stand-in for the virtual controller's receive path: same as Controller.on_link_acl_data, but an L2CAP PDU is
    handed to the host in several HCI ACL packets when it does not fit one (the unmodified controller packs any
    PDU into a single ACL packet, whose 16-bit length cannot hold a K-frame of the maximal MPS; that is C05's
    subject, not C07's)."""
    from bumble import hci
    from bumble.core import PhysicalTransport

    if transport == PhysicalTransport.LE:
        connection = controller.le_connections.get(sender_address)
    else:
        connection = controller.classic_connections.get(sender_address)
    if connection is None:
        return
    for off in range(0, len(data), chunk):
        piece = data[off : off + chunk]
        controller.send_hci_packet(hci.HCI_AclDataPacket(connection.handle, 2 if off == 0 else 1, 0, len(piece), piece))


def stream_bytes(seed, chan, d, n):
    return random.Random(f"{seed}/{chan}/{d}/{n}").randbytes(n)


# ----------------------------------------------------------------------------- bumble endpoint application
class BumbleApp:
    """The application on top of a real bumble Device: opens / accepts channels through the public API, installs
    sinks, writes, drains."""

    def __init__(self, ep, device, wire, spec_params, channel_factory=None, return_each=False):
        self.ep = ep
        self.device = device
        self.wire = wire
        self.mtu, self.mps, self.credits = spec_params
        self.channels = {}  # local (source) cid -> bumble channel
        self.drains = {}  # local cid -> [tasks]
        self.connect_error = None
        self.channel_factory = channel_factory
        self.return_each = return_each

    def _spec(self, psm):
        from bumble import l2cap

        return l2cap.LeCreditBasedChannelSpec(psm=psm, mtu=self.mtu, mps=self.mps, max_credits=self.credits)

    def _adopt(self, channel):
        self.channels[channel.source_cid] = channel
        channel.sink = functools.partial(self._on_sink, channel)
        if self.return_each and hasattr(channel, "peer_credits_threshold") and hasattr(channel, "peer_max_credits"):
            # receiver policy "one credit back per frame" (the policy is free: DESIGN Appendix D); only the refill
            # threshold of the RECEIVING side is moved, the receiving code is the stack's own
            channel.peer_credits_threshold = channel.peer_max_credits - 1

    def _on_sink(self, channel, data):
        ch = self.wire.by_cid[self.ep].get(channel.source_cid)
        if ch is None:
            raise HarnessError(f"sink of a channel the wire does not know (cid {channel.source_cid})")
        self.wire.sink(self.ep, ch, data)

    def listen(self, psm):
        self.device.create_l2cap_server(spec=self._spec(psm), handler=self._adopt)

    async def connect(self, connection, mode, psm, count):
        if mode == "le":
            chans = [await connection.create_l2cap_channel(spec=self._spec(psm))]
        else:
            chans = await self.device.l2cap_channel_manager.create_enhanced_credit_based_channels(connection, self._spec(psm), count)
        for c in chans:
            self._adopt(c)

    def channel_for(self, ch):
        return self.channels.get(ch.cid[self.ep])

    def write(self, ch, data):
        channel = self.channel_for(ch)
        if channel is None:
            raise HarnessError("no bumble channel object for an open wire channel")
        self.wire.write(self.ep, ch, data)
        try:
            channel.write(data)
        except Exception as e:  # the public API raised on a legal call: an event the specification refuses
            if not raised_in_bumble(e):
                raise
            self.wire.raised(self.ep, ch, f"write({len(data)} bytes) raised {type(e).__name__}: {e}", type(e).__name__)

    def start_drain(self, ch):
        channel = self.channel_for(ch)
        t = asyncio.get_running_loop().create_task(channel.drain())
        self.drains.setdefault(ch.idx, []).append(t)

    def pending_drains(self, ch):
        return sum(1 for t in self.drains.get(ch.idx, []) if not t.done())


# ----------------------------------------------------------------------------- running one scenario
class Result:
    def __init__(self):
        self.traces = []  # (chan idx, direction, events)
        self.chans = []  # per channel: dict(cids, params, mode)
        self.anomalies = []
        self.strays = []
        self.refused = []
        self.puppet_rejects = []
        self.quiescent = True
        self.info = {}


def _attach_tap(wire, ep, stack, on_raise):
    def out_start(cid, length, head):
        if cid >= 0x40:
            wire.kframe_out(ep, cid, length, head)

    def out(cid, payload):
        if cid == w.SIG_CID:
            wire.sig_out(ep, payload)

    def inn(cid, payload):
        if cid == w.SIG_CID:
            wire.sig_in(ep, payload)
        elif cid >= 0x40:
            wire.kframe_in(ep, cid, payload)

    w.L2capTap(stack, on_out_start=out_start, on_out=out, on_in=inn)
    # exceptions escaping the host's receive path (the transport would log and drop them)
    line = stack.tap.line_c2h
    inner = line.deliver

    def deliver(packet):
        try:
            inner(packet)
        except HarnessError:
            raise
        except Exception as e:
            on_raise(ep, e)

    line.deliver = deliver


def run_scenario(sc, channel_patch=None):
    """Execute scenario `sc`; returns Result.  channel_patch(bumble_channel) is applied to every channel object of
    endpoint 0 right after it is adopted (self-test shims)."""
    res = Result()
    wire = w.Wire()
    loop = vt.new_loop()
    rng = random.Random(f"c07/{sc['seed']}")
    state = {"phase": "setup", "apps": [None, None], "puppet": None, "harness_exc": None}

    def on_raise(ep, e):
        if not raised_in_bumble(e):
            state["harness_exc"] = e
            return
        tb = traceback.extract_tb(e.__traceback__)[-1]
        wire.raised(ep, None, f"receive path raised {type(e).__name__}: {e} ({os.path.basename(tb.filename)}:{tb.name})", type(e).__name__)

    def loop_exc(lp, context):
        e = context.get("exception")
        if e is None:
            return
        if isinstance(e, HarnessError) or not raised_in_bumble(e):
            state["harness_exc"] = e
        else:
            tb = traceback.extract_tb(e.__traceback__)[-1]
            wire.raised(0, None, f"event loop callback raised {type(e).__name__}: {e} ({os.path.basename(tb.filename)}:{tb.name})", type(e).__name__)

    loop.set_exception_handler(loop_exc)

    async def main():
        ccfg = {"le_acl_data_packet_length": sc.get("acl_len", 27), "total_num_le_acl_data_packets": sc.get("acl_bufs", 64)}
        net = rig.Net(2, seed=sc["seed"], max_delay=sc.get("hci_delay", 0.0), controller_cfg=ccfg)
        for s in net.stacks:
            s.controller.on_link_acl_data = functools.partial(_fragmenting_on_link_acl_data, s.controller)
        await net.power_on()
        central = sc.get("central", 0)
        cc, pc = await net.connect_le(central, 1 - central)
        conn = [None, None]
        conn[central], conn[1 - central] = cc, pc
        for ep in (0, 1):
            _attach_tap(wire, ep, net.stacks[ep], on_raise)
        p0 = (sc["p0"]["mtu"], sc["p0"]["mps"], sc["p0"]["credits"])
        p1 = (sc["p1"]["mtu"], sc["p1"]["mps"], sc["p1"]["credits"])
        nch = sc.get("nch", 1)
        mode = sc["mode"]
        app0 = BumbleApp(0, net[0], wire, p0, return_each=sc.get("rx_each", False))
        if channel_patch:
            adopt0 = app0._adopt

            def adopt(channel):
                adopt0(channel)
                channel_patch(channel)

            app0._adopt = adopt
        state["apps"][0] = app0
        cfgs = [{"grant": sc["grant"][i], "seg": sc["seg"][i]} for i in range(nch)]
        puppet = None
        if sc["peer"] == "puppet":
            puppet = Puppet(1, net.stacks[1], wire, rng)
            puppet.handle = conn[1].handle
            state["puppet"] = puppet
        else:
            app1 = BumbleApp(1, net[1], wire, p1, return_each=sc.get("rx_each", False))
            state["apps"][1] = app1

        state["phase"] = "open"
        if sc["role"] == "server":  # endpoint 0 accepts
            app0.listen(PSM)
            if puppet:
                puppet.connect(mode, PSM, p1, sc["cids"][:nch], cfgs)
            else:
                await state["apps"][1].connect(conn[1], mode, PSM, nch)
        else:
            if puppet:
                puppet.listen(PSM, p1, sc["cids"][:nch], cfgs, early_grant=sc.get("early_grant", 0))
            else:
                state["apps"][1].listen(PSM)
            await app0.connect(conn[0], mode, PSM, nch)
        # wait until both ends have their channel objects (a few HCI hops)
        for _ in range(2000):
            ready = len(wire.chans) >= nch and len(app0.channels) >= nch
            if puppet:
                ready = ready and len(puppet.chans) >= nch
            else:
                ready = ready and len(state["apps"][1].channels) >= nch
            if ready:
                break
            await asyncio.sleep(0.05)
        else:
            raise HarnessError(f"channels did not open: wire={len(wire.chans)} app0={len(app0.channels)} refused={wire.refused} "
                               f"puppet_rejects={puppet.rejects if puppet else None}")
        if puppet:
            for pch in puppet.chans.values():
                pch.wire_chan = wire.by_cid[1].get(pch.lcid)
                if pch.wire_chan is None:
                    raise HarnessError("puppet channel unknown to the wire")

        state["phase"] = "transfer"

        def writer(ep, ch):
            if ep == 1 and puppet:
                pch = puppet.chans[ch.cid[1]]
                return lambda data: puppet.write(pch, data)
            return lambda data: state["apps"][ep].write(ch, data)

        async def run_plan(ep, ch, plan):
            wr = writer(ep, ch)
            for delay, size in plan:
                if delay:
                    await asyncio.sleep(delay)
                wr(stream_bytes(sc["seed"], ch.idx, ep, size))
            app = state["apps"][ep]
            if app is not None:
                app.start_drain(ch)

        jobs = []
        for ch in wire.chans[:nch]:
            plans = sc["writes"][ch.idx]
            for ep in (0, 1):
                if plans[ep]:
                    jobs.append(run_plan(ep, ch, plans[ep]))
        async def close_job(c):
            # the bumble side closes one (idle) channel while its siblings keep transferring: the credit routing and
            # the byte streams of the other channels must not notice
            await asyncio.sleep(c["at"])
            ch = wire.chans[c["ch"]]
            if any(sc["writes"][ch.idx]):
                raise HarnessError("close of a channel that carries data in this scenario")
            wire.app_close(0, ch)
            await app0.channel_for(ch).disconnect()

        async def drain_close_job(c):
            # the documented way to finish a transfer: write, await drain(), disconnect.  Whatever was written before
            # the drain must reach the peer although the channel is closed right after drain() returns
            ch = wire.chans[c["ch"]]
            if sc["writes"][ch.idx][1]:
                raise HarnessError("drain-close on a channel whose peer writes too")
            wr = writer(0, ch)
            for delay, size in c["plan"]:
                if delay:
                    await asyncio.sleep(delay)
                wr(stream_bytes(sc["seed"], ch.idx, 0, size))
            channel = app0.channel_for(ch)
            await channel.drain()
            wire.app_close(0, ch)
            await channel.disconnect()

        for c in sc.get("close", []):
            jobs.append(close_job(c))
        for c in sc.get("drain_close", []):
            jobs.append(drain_close_job(c))
        await asyncio.gather(*jobs)
        state["phase"] = "settle"

    task = loop.create_task(main())
    try:
        quiescent = loop.run_until_quiescent(max_virtual=QUIESCE_HORIZON)
        if state["harness_exc"] is not None:
            raise HarnessError(f"harness exception during scenario: {state['harness_exc']!r}") from state["harness_exc"]
        if task.done() and task.exception() is not None:
            e = task.exception()
            if isinstance(e, HarnessError) or not raised_in_bumble(e):
                raise e
            # bumble's public API raised out of connect()/...: nothing of C07 can be judged
            raise HarnessError(f"bumble raised while opening the channels: {type(e).__name__}: {e}") from e
        if not task.done():
            if state["phase"] in ("setup", "open"):
                raise HarnessError(f"scenario stuck in phase {state['phase']} (refused={wire.refused})")
            # a writer job can only be stuck in sleep -> impossible at quiescence
            raise HarnessError(f"scenario script not finished at quiescence (phase {state['phase']})")
        res.quiescent = bool(quiescent)
        drains = {}
        for ch in wire.chans:
            for ep in (0, 1):
                app = state["apps"][ep]
                if app is not None:
                    drains[(ch.idx, ep)] = app.pending_drains(ch)
        wire.quiesce(drains)
        puppet = state["puppet"]
        for ch in wire.chans:
            res.chans.append({"cids": list(ch.cid), "params": [list(p) for p in ch.params], "mode": ch.mode, "frames": list(ch.frames)})
            for d in (0, 1):
                res.traces.append((ch.idx, d, ch.trace[d]))
        if puppet:
            res.puppet_rejects = list(puppet.rejects)
            # the puppet itself must have nothing left that it could still send (it holds credits only if idle)
            for pch in puppet.chans.values():
                if puppet.unsent(pch) and pch.tx_credits > 0:
                    raise HarnessError("puppet holds credits and data at quiescence")
        res.anomalies = list(wire.anomalies)
        res.strays = list(wire.strays)
        res.refused = list(wire.refused)
        res.info = {"virtual_time": round(loop.time(), 3)}
        return res
    finally:
        if not task.done():
            task.cancel()
        vt.close_loop(loop)
