"""C19 (a): SDP scenarios on a real sdp.Server and 1..3 real sdp.Clients (lib.rig.Net, real classic
connections), traced for SdpTrace.tla.

Records are generated as the harness's OWN abstract trees (tuples), converted to bumble DataElements only
to be handed to the server; the UUID sets and attribute ids logged in the `records` event come from the
harness's own walk over those trees.  UUID identities are indices into a universe; a 16-bit UUID, its
32-bit and its 128-bit form are the same identity (Core spec Vol 3 Part B 2.7.1)."""
from __future__ import annotations

import asyncio
import random
import struct

from lib import rig, vt

BASE_SUFFIX = "00001000800000805F9B34FB"
MTUS = (48, 49, 64, 672, 65535)
N_UUIDS = 40  # identities 1..N_UUIDS; the last few never occur in records


# ----------------------------------------------------------------------------- abstract elements
def uuid_obj(idx, form):
    """bumble UUID for identity idx in a given width ('16' | '32' | '128'); identities > 30 are full 128-bit."""
    from bumble.core import UUID

    if idx > 30:
        return UUID("%08X" % (0xE6D55600 + idx) + "C8B44B8596BBB1143AF6D3AE")
    v = 0x1100 + idx
    if form == "16":
        return UUID.from_16_bits(v)
    if form == "32":
        return UUID.from_32_bits(v)
    return UUID("%08X" % v + BASE_SUFFIX)


def to_element(t):
    from bumble.sdp import DataElement as DE

    k = t[0]
    if k == "uuid":
        return DE.uuid(uuid_obj(t[1], t[2]))
    if k == "u8":
        return DE.unsigned_integer_8(t[1])
    if k == "u16":
        return DE.unsigned_integer_16(t[1])
    if k == "u32":
        return DE.unsigned_integer_32(t[1])
    if k == "text":
        return DE.text_string(t[1])
    if k == "bool":
        return DE.boolean(t[1])
    if k == "seq":
        return DE.sequence([to_element(x) for x in t[1]])
    if k == "alt":
        return DE.alternative([to_element(x) for x in t[1]])
    raise ValueError(k)


def uuids_in(t):
    """Own walk: identities of the UUIDs contained in an abstract element (sequences, any depth)."""
    if t[0] == "uuid":
        return {t[1]}
    if t[0] == "seq":
        s = set()
        for x in t[1]:
            s |= uuids_in(x)
        return s
    return set()


def gen_value(rng, depth, pool, marker):
    """A nested value; UUIDs drawn from pool; marker makes leaf integers record-specific."""
    r = rng.random()
    if depth <= 0 or r < 0.35:
        c = rng.random()
        if c < 0.45 and pool:
            return ("uuid", rng.choice(pool), rng.choice(["16", "32", "128"]))
        if c < 0.6:
            return ("u16", (marker * 7 + rng.randrange(100)) & 0xFFFF)
        if c < 0.7:
            return ("u8", rng.randrange(256))
        if c < 0.8:
            # an integer that LOOKS like a UUID value must not match
            return ("u16", 0x1100 + rng.randrange(1, 30))
        if c < 0.9:
            return ("text", b"r%d-%d" % (marker, rng.randrange(1000)))
        return ("bool", rng.random() < 0.5)
    n = rng.randrange(0, 4)
    return ("seq", tuple(gen_value(rng, depth - 1, pool, marker) for _ in range(n)))


def gen_record(rng, idx, pool, rich=False):
    """Abstract record idx (1-based): {attribute id: abstract element}."""
    handle = 0x10000 + idx
    attrs = {0x0000: ("u32", handle)}
    k = rng.randrange(1, 4)
    classes = rng.sample(pool, min(k, len(pool)))
    attrs[0x0001] = ("seq", tuple(("uuid", u, rng.choice(["16", "32", "128"])) for u in classes))
    if rng.random() < 0.8:
        protos = rng.sample(pool, min(2, len(pool)))
        attrs[0x0004] = ("seq", tuple(("seq", (("uuid", u, rng.choice(["16", "128"])), ("u16", idx * 2 + j))) for j, u in enumerate(protos)))
    if rng.random() < 0.5:
        attrs[0x0005] = ("seq", (("uuid", rng.choice(pool), "16"),))
    if rng.random() < 0.5:
        attrs[0x0009] = ("seq", (("seq", (("uuid", rng.choice(pool), "16"), ("u16", 0x0100 + idx))),))
    if rng.random() < 0.6:
        attrs[0x0100] = ("text", b"service %d" % idx)
    for _ in range(rng.randrange(0, 4) + (6 if rich else 0)):
        aid = rng.choice([0x0006, 0x0008, 0x000A, 0x0101, 0x0102, 0x0200, 0x0201, 0x0311, 0x7FFF, 0x8000, 0xFFFE, 0xFFFF])
        attrs[aid] = gen_value(rng, 3, pool, idx)
    if rng.random() < 0.3:
        attrs[0x0202] = ("alt", (("u8", idx & 0xFF), ("text", b"x%d" % idx)))
    return attrs


def record_uuids(attrs):
    s = set()
    for v in attrs.values():
        s |= uuids_in(v)
    return s


def select(attrs, ids):
    return sorted(a for a in attrs if any(lo <= a <= hi for lo, hi in ids))


def gen_ids(rng, attrs_all):
    """Attribute id list: ascending, non-overlapping singles and ranges."""
    c = rng.random()
    if c < 0.3:
        return [(0, 0xFFFF)]
    present = sorted(attrs_all)
    pts = set(rng.sample(present, min(len(present), rng.randrange(1, 5))))
    pts |= {rng.randrange(0x10000) for _ in range(rng.randrange(0, 3))}
    pts = sorted(pts)
    out = []
    i = 0
    while i < len(pts):
        if rng.random() < 0.35 and i + 1 < len(pts):
            out.append((pts[i], pts[i + 1]))
            i += 2
        else:
            out.append((pts[i], pts[i]))
            i += 1
    return out


def gen_pattern(rng, recs_uuids, used):
    """Pattern of 1..12 UUID identities: all from one record / plus one from elsewhere / plus an absent one."""
    target = rng.randrange(len(recs_uuids))
    have = sorted(recs_uuids[target])
    k = min(len(have), rng.choice([1, 1, 2, 2, 3, 4, 6, 9, 12]))
    pat = rng.sample(have, k) if have else []
    c = rng.random()
    absent = [u for u in range(1, N_UUIDS + 1) if u not in used]
    elsewhere = [u for u in used if u not in recs_uuids[target]]
    if c < 0.25 and absent and len(pat) < 12:
        pat.insert(rng.randrange(len(pat) + 1), rng.choice(absent))
    elif c < 0.55 and elsewhere and len(pat) < 12:
        pat.insert(rng.randrange(len(pat) + 1), rng.choice(elsewhere))
    elif c < 0.6 and absent:
        pat = [rng.choice(absent)]
    if not pat:
        pat = [rng.choice(absent or [1])]
    return [(u, rng.choice(["16", "32", "128"])) for u in pat]


# ----------------------------------------------------------------------------- expected answers
def answer_bytes(kind, q, recs, elems):
    """Reference answer bytes (bumble's serializer applied to the HARNESS's selection, see notes) for the
    attribute transactions; None for search."""
    from bumble.sdp import DataElement as DE

    def one(i):
        sel = select(recs[i], q["ids"])
        items = []
        for a in sel:
            items.append(DE.unsigned_integer_16(a))
            items.append(elems[i][a])
        return DE.sequence(items)

    if kind == "attr":
        if not (1 <= q["h"] <= len(recs)):
            return b""
        return bytes(one(q["h"] - 1))
    if kind == "sattr":
        pat = {u for u, _ in q["pat"]}
        lists = []
        for i, r in enumerate(recs):
            if pat <= record_uuids(r) and select(r, q["ids"]):
                lists.append(one(i))
        return bytes(DE.sequence(lists))
    return None


def expected_handles(q, recs):
    pat = {u for u, _ in q["pat"]}
    return [i + 1 for i, r in enumerate(recs) if pat <= record_uuids(r)]


# ----------------------------------------------------------------------------- scenario generation
def gen_scenario(seed, shape=None):
    """Deterministic scenario from a seed: records, clients (mtu), queries; one query's answer is tuned to a
    multiple of the response capacity +-1."""
    rng = random.Random(seed)
    shape = shape or {}
    nclients = shape.get("nclients") or rng.choice([1, 1, 2, 2, 3])
    mtus = [shape.get("mtu") or rng.choice([48, 48, 49, 64, 64, 672, 672, 65535]) for _ in range(nclients)]
    pool = list(range(1, 31 + 4))  # identities that may occur in records (incl. some 128-bit only)
    pool = rng.sample(pool, rng.randrange(6, 20))
    nrec = shape.get("nrec") or rng.choice([1, 2, 3, 3, 4, 5, 6, 8])
    recs = [gen_record(rng, i + 1, pool, rich=(rng.random() < 0.3)) for i in range(nrec)]
    tune = shape.get("tune") or rng.choice(["attr", "sattr", "search", "none", "attr", "sattr"])
    target_client = rng.randrange(nclients)
    cap_bytes = mtus[target_client] - 9
    cap_handles = (mtus[target_client] - 11) // 4
    k = shape.get("k") or rng.choice([1, 1, 2, 2, 3])
    delta = shape.get("delta", rng.choice([-1, 0, 0, 1]))
    tuned_q = None
    if tune == "search" and cap_handles * k + delta <= (60 if not shape.get("big") else 400) and cap_handles * k + delta >= 1:
        want = cap_handles * k + delta
        common = rng.choice(pool)
        recs = []
        for i in range(want):
            r = {0x0000: ("u32", 0x10001 + i), 0x0001: ("seq", (("uuid", common, rng.choice(["16", "128"])),))}
            if rng.random() < 0.3:
                r[0x0100] = ("text", b"s%d" % i)
            recs.append(r)
        for i in range(rng.randrange(0, 3)):
            others = [u for u in pool if u != common]
            if others:
                recs.insert(rng.randrange(len(recs) + 1), {0x0000: ("u32", 0x20000 + i), 0x0001: ("seq", (("uuid", rng.choice(others), "16"),))})
        tuned_q = {"kind": "search", "pat": [(common, rng.choice(["16", "32", "128"]))], "h": 0, "ids": []}
    used = set()
    for r in recs:
        used |= record_uuids(r)
    recs_uuids = [record_uuids(r) for r in recs]
    all_attr_ids = set()
    for r in recs:
        all_attr_ids |= set(r)

    def gen_query(kind=None):
        kind = kind or rng.choice(["search", "attr", "sattr", "sattr"])
        q = {"kind": kind, "pat": [], "h": 0, "ids": []}
        if kind in ("search", "sattr"):
            q["pat"] = gen_pattern(rng, recs_uuids, used)
        if kind in ("attr", "sattr"):
            q["ids"] = gen_ids(rng, all_attr_ids)
        if kind == "attr":
            q["h"] = rng.randrange(1, len(recs) + 1) if rng.random() < 0.93 else len(recs) + 7
        return q

    queries = [[gen_query() for _ in range(rng.randrange(1, 4))] for _ in range(nclients)]
    if tune in ("attr", "sattr") and not shape.get("no_tune"):
        # tune the answer of one attribute transaction to k * capacity + delta with a padding text attribute
        i = rng.randrange(len(recs))
        if tune == "attr":
            tq = {"kind": "attr", "pat": [], "h": i + 1, "ids": [(0, 0xFFFF)] if rng.random() < 0.5 else sorted({(0, 1), (0x0300, 0x0300), (0x8000, 0xFFFF)})}
        else:
            have = sorted(recs_uuids[i])
            pat = rng.sample(have, min(len(have), rng.choice([1, 2, 3]))) if have else [pool[0]]
            tq = {"kind": "sattr", "pat": [(u, rng.choice(["16", "32", "128"])) for u in pat], "h": 0, "ids": [(0, 0xFFFF)]}
            if not have:
                tq = None
        if tq:
            kk = shape.get("k") or (rng.choice([1, 1, 2, 3]) if cap_bytes < 1000 else 1)
            if shape.get("watchdog"):
                kk = shape["watchdog"]
            want = cap_bytes * kk + delta
            if cap_bytes > 60000 and not shape.get("big_ok"):
                # the link of this tree does not carry L2CAP PDUs above 65531 bytes (see link_carries):
                # the largest response that still arrives, no continuation
                want = 65531 - 9 - rng.randrange(3)
            if want <= 70000 + 66000 * bool(shape.get("big")):
                _tune_padding(recs, i, tq, want)
                tuned_q = tq
    if tuned_q:
        pos = rng.randrange(len(queries[target_client]) + 1)
        queries[target_client].insert(pos, tuned_q)
    if not shape.get("big_ok") and any(m - 9 > 65522 for m in mtus):
        # no other answer may need a response PDU the link cannot carry (the padding grows every answer that
        # selects it)
        elems = [{a: to_element(v) for a, v in r.items()} for r in recs]
        for c, qs in enumerate(queries):
            if mtus[c] - 9 <= 65522:
                continue
            for q in qs:
                if q["kind"] in ("attr", "sattr") and len(answer_bytes(q["kind"], q, recs, elems)) > 65522:
                    q["ids"] = [(0, 1)]
    sc = {"seed": seed, "nclients": nclients, "mtus": mtus, "recs": recs, "queries": queries,
          "max_delay": rng.choice([0.0, 0.002, 0.01]), "net_seed": rng.randrange(1 << 30)}
    if shape.get("leaver") and nclients >= 2:
        # one client only connects, and closes its SDP channel when the k-th response of the tuned transaction of
        # another client has arrived (between two of that client's continuation requests); it connected last or first
        lv = [c for c in range(nclients) if c != target_client][-1 if shape["leaver"] > 0 else 0]
        queries[lv] = []
        sc["leaver"] = {"c": lv + 1, "target": target_client + 1, "after": abs(shape["leaver"])}
    return sc


def _tune_padding(recs, i, q, want):
    """Give record i a text attribute 0x0300 such that the answer to q has `want` bytes (as close as the
    size descriptors allow)."""
    def size(padlen):
        r = dict(recs[i])
        if padlen >= 0:
            r[0x0300] = ("text", bytes((j * 7 + 33) & 0x7F or 33 for j in range(padlen)))
        rr = list(recs)
        rr[i] = r
        elems = [{a: to_element(v) for a, v in x.items()} for x in rr]
        return len(answer_bytes(q["kind"], q, rr, elems)), r

    base, _ = size(-1)
    if want <= base:
        return
    lo = max(0, want - base - 12)
    best = None
    for padlen in range(lo, want - base + 1):
        s, r = size(padlen)
        if s == want:
            best = r
            break
        if s > want:
            break
        best = r
    if best is not None:
        recs[i] = best


# ----------------------------------------------------------------------------- running a scenario
def _parse_rsp(pdu):
    """Own parse of an SDP response PDU: (pdu_id, tid, fields...)."""
    pid = pdu[0]
    tid, plen = struct.unpack_from(">HH", pdu, 1)
    body = pdu[5:5 + plen]
    if pid == 0x01:
        return {"id": pid, "tid": tid, "err": struct.unpack_from(">H", body, 0)[0]}
    if pid == 0x03:
        total, cur = struct.unpack_from(">HH", body, 0)
        handles = [struct.unpack_from(">I", body, 4 + 4 * j)[0] for j in range(cur)]
        cs = body[4 + 4 * cur:]
        return {"id": pid, "tid": tid, "handles": handles, "cont": cs[0] != 0, "units": cur}
    if pid in (0x05, 0x07):
        n = struct.unpack_from(">H", body, 0)[0]
        data = body[2:2 + n]
        cs = body[2 + n:]
        return {"id": pid, "tid": tid, "data": data, "cont": cs[0] != 0, "units": n}
    return {"id": pid, "tid": tid}


KIND_OF_RSP = {0x03: "search", 0x05: "attr", 0x07: "sattr"}


def blank(e, **kw):
    ev = {"e": e, "c": 0, "kind": "", "pat": [], "h": 0, "ids": [], "total": 0, "cap": 0, "mtu": 0, "n": 0, "cont": False,
          "plen": 0, "own": False, "outcome": "", "res": [], "ok": False, "uu": [], "at": []}
    ev.update(kw)
    return ev


class ScenarioRun:
    def __init__(self, sc, server_patch=None, client_patch=None):
        self.sc = sc
        self.events = []
        self.server_patch = server_patch
        self.client_patch = client_patch
        self.tx = {}  # client -> current transaction bookkeeping
        self.notes = []

    async def main(self):
        from bumble import sdp
        from bumble.sdp import ServiceAttribute

        sc = self.sc
        n = sc["nclients"]
        self.net = rig.Net(1 + n, seed=sc["net_seed"], max_delay=sc["max_delay"])
        rig.enable_classic(self.net)
        await self.net.power_on()
        recs = sc["recs"]
        self.elems = [{a: to_element(v) for a, v in r.items()} for r in recs]
        server = self.net[0].sdp_server
        for i, r in enumerate(recs):
            server.service_records[0x10001 + i] = [ServiceAttribute(a, self.elems[i][a]) for a in r]
        if self.server_patch:
            self.server_patch(server)
        self.valbytes = [{a: bytes(e) for a, e in el.items()} for el in self.elems]
        self.events.append(blank("records", uu=[sorted(record_uuids(r)) for r in recs], at=[sorted(r) for r in recs]))
        conns = []
        for c in range(1, n + 1):
            conn, _ = await self.net.connect_classic(c, 0)
            conns.append(conn)
        self.clients = []
        for c in range(1, n + 1):
            cl = sdp.Client(conns[c - 1], mtu=sc["mtus"][c - 1])
            await cl.connect()
            if self.client_patch:
                self.client_patch(cl)
            self._tap(c, cl)
            self.clients.append(cl)
            self.events.append(blank("connect", c=c, mtu=sc["mtus"][c - 1]))
        self.running = {c: None for c in range(1, n + 1)}
        self.leave_task = None
        self.rsp_seen = {c: 0 for c in range(1, n + 1)}
        await asyncio.gather(*[self._client_task(c) for c in range(1, n + 1)])
        if self.leave_task is not None:
            await self.leave_task

    async def _leave(self, c):
        await self.clients[c - 1].disconnect()
        self.events.append(blank("disconnect", c=c))

    def _tap(self, c, cl):
        orig_sink = cl.channel.sink
        orig_write = cl.channel.write

        def sink(pdu):
            self._on_rsp(c, bytes(pdu))
            orig_sink(pdu)

        def write(pdu):
            b = bytes(pdu)
            t = self.tx.get(c)
            if t is not None and len(b) >= 3:
                t["tid"] = struct.unpack_from(">H", b, 1)[0]
            return orig_write(pdu)

        cl.channel.sink = sink
        cl.channel.write = write

    def _on_rsp(self, c, pdu):
        mtu = self.sc["mtus"][c - 1]
        try:
            p = _parse_rsp(pdu)
        except Exception:
            self.events.append(blank("rsp", c=c, kind="garbled", plen=len(pdu)))
            return
        t = self.tx.get(c)
        if p["id"] == 0x01:
            self.events.append(blank("err", c=c, n=p.get("err", 0)))
            return
        lv = self.sc.get("leaver")
        if lv and c == lv["target"] and p.get("cont"):
            self.rsp_seen[c] += 1
            if self.rsp_seen[c] == lv["after"] and self.leave_task is None:
                self.leave_task = asyncio.get_running_loop().create_task(self._leave(lv["c"]))
        kind = KIND_OF_RSP.get(p["id"], "other")
        cap = (mtu - 10) // 4 if kind == "search" else mtu - 8
        ev = blank("rsp", c=c, kind=kind, n=p.get("units", 0), cont=bool(p.get("cont")), plen=len(pdu), cap=cap)
        self.events.append(ev)
        if t is None or t.get("done"):
            return
        # the units are this client's own iff the response answers the request this client sent last
        ev["own"] = bool(t.get("tid") == p["tid"] and kind == t["kind"])
        t["units"] += ev["n"]
        t["more"] = ev["cont"]

    async def _client_task(self, c):
        sc = self.sc
        cl = self.clients[c - 1]
        recs = sc["recs"]
        for q in sc["queries"][c - 1]:
            kind = q["kind"]
            qev = blank("query", c=c, kind=kind, pat=[u for u, _ in q["pat"]], h=q["h"] if q["h"] <= len(recs) else 0,
                        ids=[list(x) for x in q["ids"]], total=0)
            self.tx[c] = {"kind": kind, "q": q, "tid": None, "units": 0, "qev": qev}
            self.events.append(qev)
            self.running[c] = q
            uu = [uuid_obj(u, f) for u, f in q["pat"]]
            ids = [(lo if lo == hi else (lo, hi)) for lo, hi in q["ids"]]
            outcome = "ok"
            res = []
            ok = True
            try:
                if kind == "search":
                    r = await cl.search_services(uu)
                    res = [{"h": (h - 0x10000) if 0x10000 < h <= 0x10000 + len(recs) else 0, "ids": []} for h in r]
                elif kind == "attr":
                    r = await cl.get_attributes(0x10000 + q["h"], ids)
                    if 1 <= q["h"] <= len(recs):
                        entry, ok = self._identify([(a.id, bytes(a.value)) for a in r], only=q["h"])
                        res = [entry]
                    else:
                        res = [{"h": 0, "ids": [a.id for a in r]}] if r else []
                else:
                    r = await cl.search_attributes(uu, ids)
                    used = set()
                    # lists with identical content cannot be told apart by any client: among the records a list
                    # may come from, one the answer should contain is taken first
                    prefer = [h for h in expected_handles(q, recs) if select(recs[h - 1], q["ids"])]
                    for lst in r:
                        if not lst:
                            continue
                        entry, k = self._identify([(a.id, bytes(a.value)) for a in lst], exclude=used, prefer=prefer)
                        used.add(entry["h"])
                        ok = ok and k
                        res.append(entry)
            except Exception as e:
                outcome = "exc:" + type(e).__name__
            self.tx[c]["done"] = True
            # `total` of the query event = what the server delivered for this transaction (known only now); the
            # content is judged at `result`, the continuation discipline against this total
            # (a transaction the client ended while a continuation state was outstanding - its limit - has more)
            qev["total"] = self.tx[c]["units"] + (1 if self.tx[c].get("more") else 0)
            self.running[c] = None
            self.events.append(blank("result", c=c, kind=kind, outcome=outcome, res=res, ok=bool(ok)))

    def _identify(self, attrs, only=None, exclude=(), prefer=()):
        """Which record do these (id, value bytes) come from?  -> ({h, ids}, all values byte-identical)."""
        cands = [only - 1] if only else [i for i in range(len(self.valbytes)) if (i + 1) not in exclude]
        cands.sort(key=lambda i: (i + 1) not in prefer)
        for i in cands:
            vb = self.valbytes[i]
            if all(a in vb and vb[a] == b for a, b in attrs):
                return {"h": i + 1, "ids": [a for a, _ in attrs]}, True
        # not byte-identical to any record: attribute the list by ids only
        for i in cands:
            if all(a in self.valbytes[i] for a, _ in attrs):
                return {"h": i + 1, "ids": [a for a, _ in attrs]}, False
        return {"h": 0, "ids": [a for a, _ in attrs]}, False


def run_scenario(sc, server_patch=None, client_patch=None, max_virtual=900.0):
    """Returns (events, info).  A call that never returns is logged as hang(c)."""
    run = ScenarioRun(sc, server_patch, client_patch)
    loop = vt.new_loop()
    info = {"crash": None}
    try:
        task = loop.create_task(run.main())
        loop.run_until_quiescent(max_virtual=max_virtual)
        if not task.done():
            running = getattr(run, "running", None)
            if running is None:
                raise RuntimeError("SDP scenario set-up did not complete (connections / channels)")
            for c, q in sorted(running.items()):
                if q is not None:
                    run.tx[c]["qev"]["total"] = run.tx[c]["units"] + (1 if run.tx[c].get("more") else 0)
                    run.events.append(blank("hang", c=c, kind=q["kind"]))
            task.cancel()
            try:
                loop.run_until_quiescent(max_virtual=1.0)
            except Exception:
                pass
        else:
            if task.exception() is not None:
                raise task.exception()
    finally:
        vt.close_loop(loop)
    info["notes"] = run.notes
    return run.events, info


# ----------------------------------------------------------------------------- transport capability probe
def link_carries(nbytes):
    """Does the rig's link carry an L2CAP SDU of nbytes on a Basic-mode classic channel?  (Independent of
    SDP: on trees where the virtual controller cannot deliver L2CAP PDUs above 65531 bytes - C05's
    subject - responses that fill a 65535-byte MTU never arrive, whatever the SDP server does.)"""
    got = []

    async def main():
        from bumble import l2cap

        net = rig.Net(2, seed=1)
        rig.enable_classic(net)
        await net.power_on()
        chans = []
        net[0].create_l2cap_server(l2cap.ClassicChannelSpec(psm=0x1001, mtu=65535), handler=chans.append)
        conn, _ = await net.connect_classic(1, 0)
        ch = await conn.create_l2cap_channel(l2cap.ClassicChannelSpec(psm=0x1001, mtu=65535))
        ch.sink = lambda pdu: got.append(len(pdu))
        await asyncio.sleep(1.0)
        chans[0].write(bytes(nbytes))
        await asyncio.sleep(5.0)

    loop = vt.new_loop()
    try:
        task = loop.create_task(main())
        loop.run_until_quiescent(max_virtual=60.0)
        if task.done() and task.exception() is not None:
            return False
        if not task.done():
            task.cancel()
    except Exception:
        return False
    finally:
        vt.close_loop(loop)
    return got == [nbytes]
