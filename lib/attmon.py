"""Passive ATT-bearer monitor for the repository's own tests (pytest plugin, `-p lib.attmon`).

For every (Device, connection) the tests create it records what crosses the unenhanced ATT bearer
(fixed channel 0x0004): PDUs handed to Device.on_gatt_pdu and PDUs the device sends with
Connection.send_l2cap_pdu(ATT_CID, ...).  From the point of view of that device's SERVER role this is
exactly what specs/Att/ServerTrace.tla judges: req (a PDU of the peer's client role arrives), srv (a
server-role PDU leaves), mtu (an Exchange MTU transaction completed).  The safety clauses of C10 are
evaluated at every step of every test: a response without a request, a response to the wrong request,
a server PDU longer than the bearer's ATT_MTU, a reply to a server-role PDU.

Deliberately NOT judged here (a test may end anywhere, with its own time-outs and mocks): requests left
unanswered when the test ends (no `quiesce` event), the one-indication rule (tests patch the time-out).
A device whose own client role exchanges the MTU on the bearer is dropped (the monitor only follows
exchanges answered by the monitored server).
"""
from __future__ import annotations

import json
import os
import struct

ATT_CID = 4
_traces = {}
_current_test = ["(none)"]
_installed = []


def _ev(e, b=1, op=0, len=0, rie=0, n=0, cls=""):  # noqa: A002
    return {"e": e, "b": b, "op": op, "len": len, "rie": rie, "n": n, "cls": cls}


def _trace(dev, handle):
    key = (id(dev), handle, _current_test[0])
    t = _traces.get(key)
    if t is None or t["dev"] is not dev:
        t = _traces[key] = {"dev": dev, "test": _current_test[0], "handle": handle, "events": [_ev("open", n=23)], "mtu": 23,
                            "last_req": None, "client_mtu_req": None, "dropped": ""}
    return t


def _incoming(dev, handle, pdu):
    if not pdu:
        return
    t = _trace(dev, handle)
    op = pdu[0]
    if op % 2 == 1 and op not in (0x1B, 0x1D, 0x23) and not (op & 0x40):
        # a response for this device's client role
        if op == 0x03 and t["client_mtu_req"] is not None:
            t["dropped"] = "own client exchanged the MTU"
        return
    if op in (0x1B, 0x1D, 0x23):
        # a notification / indication for this device's client role: still a PDU arriving at the device; the server
        # must not answer it
        t["events"].append(_ev("req", op=op, len=len(pdu)))
        return
    t["events"].append(_ev("req", op=op, len=len(pdu)))
    if not (op & 0x40) and op != 0x1E:
        t["last_req"] = bytes(pdu)


def _outgoing(dev, handle, pdu):
    if not pdu:
        return
    t = _trace(dev, handle)
    op = pdu[0]
    if op % 2 == 0 or (op & 0x40):
        if op == 0x02:
            t["client_mtu_req"] = bytes(pdu)
        return  # client-role PDU (request, command, confirmation) of this device
    rie = pdu[1] if (op == 0x01 and len(pdu) >= 2) else 0
    t["events"].append(_ev("srv", op=op, len=len(pdu), rie=rie))
    if op == 0x03 and t["last_req"] is not None and t["last_req"][:1] == b"\x02":
        req = t["last_req"]
        client_rx = struct.unpack_from("<H", req, 1)[0] if len(req) >= 3 else 23
        server_rx = struct.unpack_from("<H", pdu, 1)[0] if len(pdu) >= 3 else 23
        n = max(23, min(client_rx, server_rx))
        if t["mtu"] != 23:
            n = max(n, t["mtu"])  # a repeated exchange is outside the protocol: most permissive reading
        t["mtu"] = n
        t["events"].append(_ev("mtu", n=n))
    if op not in (0x1B, 0x1D, 0x23):
        t["last_req"] = None


def install():
    if _installed:
        return
    from bumble import device as _device

    o_on = _device.Device.on_gatt_pdu
    o_send = _device.Connection.send_l2cap_pdu

    def on_gatt_pdu(self, connection_handle, pdu, *a, **kw):
        try:
            _incoming(self, connection_handle, bytes(pdu))
        except Exception:  # tracing must never disturb the run
            pass
        return o_on(self, connection_handle, pdu, *a, **kw)

    def send_l2cap_pdu(self, cid, pdu, *a, **kw):
        try:
            if cid == ATT_CID:
                _outgoing(self.device, self.handle, bytes(pdu))
        except Exception:
            pass
        return o_send(self, cid, pdu, *a, **kw)

    _device.Device.on_gatt_pdu = on_gatt_pdu
    _device.Connection.send_l2cap_pdu = send_l2cap_pdu
    _installed.append((_device, o_on, o_send))


def take():
    out = []
    for t in _traces.values():
        if t["dropped"] or len(t["events"]) < 2:
            continue
        out.append({"test": t["test"], "handle": t["handle"], "events": t["events"]})
    _traces.clear()
    return out


def pytest_configure(config):
    install()


def pytest_runtest_setup(item):
    _current_test[0] = item.nodeid


def pytest_sessionfinish(session, exitstatus):
    path = os.environ.get("ATTMON_OUT")
    if path:
        with open(path, "w") as f:
            json.dump(take(), f)
