"""C02 helpers: concrete byte mapping of Framer.tla behaviours and one adapter per real framer.

Every adapter exposes the same surface, driven by the actions of specs/Hci/Framer.tla:
    connect()            a (new) client connects            -> Connect(ps)
    feed(data)           one call with well-formed bytes    -> FeedChunk(n)
    feed_bad(data)       one call ending in a bad type byte -> FeedBadType(n); returns True if reported
    disconnect()         the client goes away               -> Disconnect
    delivered            packets handed to the sink for the current client (list of bytes)
    supports             subset of {"bad", "reconnect", "disconnect"}
An adapter never decides a verdict; the driver compares `delivered` with the spec state.
"""
from __future__ import annotations

import asyncio
import io
import random

TYPE_BYTE = {"cmd": 0x01, "acl": 0x02, "sco": 0x03, "evt": 0x04, "iso": 0x05}
HDR = {"cmd": 3, "acl": 4, "sco": 3, "evt": 2, "iso": 4}  # bytes after the type byte up to and incl. the length
LEN16 = {"acl", "iso"}
MAXLEN = {"cmd": 255, "sco": 255, "evt": 255, "acl": 65535, "iso": 0x3FFF}  # ISO_Data_Load_Length is 14 bits
BAD_TYPES = (0x00, 0x06, 0xFF)
MODES = ("unit", "max", "edge", "mid")


def body_length(t, b, mode):
    """Concrete body length of a packet of type t whose abstract body is b units."""
    if b == 0:
        return 0
    if mode == "unit":
        return b
    if mode == "max":
        return MAXLEN[t]
    if mode == "edge":  # 16-bit: low length byte 0; 8-bit: top bit set
        return 256 if t in LEN16 else 128
    if mode == "mid":  # 255 in a 16-bit field (high byte 0) / 255 = max of 8 bit
        return 255
    raise ValueError(mode)


class Concrete:
    """Concrete bytes of one client stream + the monotone map abstract offset -> byte offset."""

    def __init__(self, pkts, mode, content_seed, rfu=None):
        """rfu: {packet index: bits} ORed into the 16-bit length field of that packet on the wire (reserved bits of the
        ISO Data_Total_Length) without changing the body"""
        rng = random.Random(f"{content_seed}/{mode}/{pkts!r}")
        rfu = rfu or {}
        self.pkts = pkts
        self.mode = mode
        self.packets = []  # concrete packets (with type byte)
        self.cmap = [0]  # cmap[abstract offset] = concrete offset
        self.body_lengths = []
        buf = bytearray()
        for idx, (t, b) in enumerate(pkts):
            L = body_length(t, b, mode)
            self.body_lengths.append(L)
            head = bytearray([TYPE_BYTE[t]])
            head += rng.randbytes(HDR[t] - (2 if t in LEN16 else 1))
            if t == "iso":
                head[2] &= 0x3F  # handle is 12 bits + PB/TS flags; keep it plausible
            head += (L | rfu.get(idx, 0)).to_bytes(2 if t in LEN16 else 1, "little")
            body = rng.randbytes(L)
            pkt = bytes(head) + body
            base = len(buf)
            buf += pkt
            self.packets.append(pkt)
            for i in range(1, len(head) + 1):
                self.cmap.append(base + i)
            # body units: unit j covers a contiguous byte range, each at least one byte
            if b:
                big = b - 1 if (mode != "edge") else 0  # which unit takes the remainder
                o = base + len(head)
                for j in range(b):
                    o += (L - (b - 1)) if j == big else 1
                    self.cmap.append(o)
        self.stream = bytes(buf)
        assert self.cmap[-1] == len(self.stream), (self.cmap[-1], len(self.stream))

    def chunk(self, pos, n):
        return self.stream[self.cmap[pos] : self.cmap[pos + n]]

    def span(self, off, length):
        return self.stream[self.cmap[off] : self.cmap[off + length]]

    def typeless_chunk(self, pos, n):
        """The same chunk as a USB endpoint carries it: no H4 type bytes."""
        lo, hi = self.cmap[pos], self.cmap[pos + n]
        out = bytearray()
        base = 0
        for pkt in self.packets:
            a, b = max(lo, base + 1), min(hi, base + len(pkt))
            if a < b:
                out += self.stream[a:b]
            base += len(pkt)
        return bytes(out)


class _Sink:
    def __init__(self):
        self.packets = []

    def on_packet(self, packet):
        self.packets.append(bytes(packet))


# ----------------------------------------------------------------------------- push parser
class ParserAdapter:
    name = "parser"
    supports = {"bad", "reconnect", "disconnect"}
    typeless = False

    def __init__(self, env, factory=None):
        from bumble.transport import common

        self.sink = _Sink()
        self.parser = (factory or common.PacketParser)(self.sink)
        self.first = True

    @property
    def delivered(self):
        return self.sink.packets

    def connect(self):
        if not self.first:
            # a bare parser has no notion of clients: its owner calls reset() (public API)
            self.parser.reset()
            self.sink.packets = []
        self.first = False

    def feed(self, data):
        self.parser.feed_data(data)

    def feed_bad(self, data):
        try:
            self.parser.feed_data(data)
        except Exception:  # any exception raised to the caller is a report
            return True
        return False

    def disconnect(self):
        pass

    def close(self):
        pass


# ----------------------------------------------------------------------------- blocking reader
class _RawChunks(io.RawIOBase):
    """Raw stream that returns at most up to the next chunk boundary per read; EOF after the last."""

    def __init__(self, chunks):
        self.chunks = chunks
        self.i = 0  # chunks completely or partly handed out
        self.o = 0  # offset inside chunks[i - 1]
        self.cur = b""

    def readable(self):
        return True

    def readinto(self, b):
        while self.o >= len(self.cur):
            if self.i >= len(self.chunks):
                return 0
            self.cur = self.chunks[self.i]
            self.i += 1
            self.o = 0
        n = min(len(b), len(self.cur) - self.o)
        b[:n] = self.cur[self.o : self.o + n]
        self.o += n
        return n


class ReaderAdapter:
    """PacketReader pulls: the chunks are queued and the reader runs when the behaviour ends
    (EOF after the last queued chunk).  `timeline` = (chunks pulled when returned, packet)."""

    name = "reader"
    supports = {"bad", "disconnect"}
    typeless = False
    deferred = True

    def __init__(self, env, factory=None):
        self.chunks = []
        self.factory = factory
        self.delivered = []
        self.timeline = []
        self.outcome = None

    def connect(self):
        pass

    def feed(self, data):
        self.chunks.append(data)

    def feed_bad(self, data):
        self.chunks.append(data)
        return None  # decided in finish()

    def disconnect(self):
        pass

    def finish(self):
        from bumble.transport import common

        raw = _RawChunks(self.chunks)
        reader = (self.factory or common.PacketReader)(io.BufferedReader(raw))
        while True:
            try:
                p = reader.next_packet()
            except Exception as e:
                self.outcome = ("raise", type(e).__name__, raw.i)
                return
            if p is None:
                self.outcome = ("eof", None, raw.i)
                return
            self.timeline.append((raw.i, bytes(p)))
            self.delivered.append(bytes(p))

    def close(self):
        pass


# ----------------------------------------------------------------------------- async reader
class AsyncReaderAdapter:
    name = "async-reader"
    supports = {"bad", "disconnect"}
    typeless = False

    def __init__(self, env, factory=None):
        from bumble.transport import common

        self.loop = env.loop
        self.delivered = []
        self.error = None
        self.stream = asyncio.StreamReader(loop=self.loop)
        self.reader = (factory or common.AsyncPacketReader)(self.stream)
        self.task = self.loop.create_task(self._pump())

    async def _pump(self):
        while True:
            try:
                p = await self.reader.next_packet()
            except asyncio.CancelledError:
                raise
            except Exception as e:
                self.error = e
                return
            self.delivered.append(bytes(p))

    def connect(self):
        pass

    def feed(self, data):
        self.stream.feed_data(data)
        self.loop.settle()

    def feed_bad(self, data):
        self.stream.feed_data(data)
        self.loop.settle()
        return self.error is not None

    def disconnect(self):
        self.stream.feed_eof()
        self.loop.settle()

    def close(self):
        if not self.task.done():
            self.task.cancel()
            self.loop.settle()


# ----------------------------------------------------------------------------- USB splitters
class SplitterAdapter:
    supports = set()
    typeless = True

    def __init__(self, env, ptype, factory=None):
        from bumble.transport import usb

        self.ptype = ptype
        self.name = "usb-" + ptype
        cls = {"evt": usb.EventPacketSplitter, "acl": usb.AclPacketSplitter, "sco": usb.ScoPacketSplitter}[ptype]
        self.delivered = []
        tb = bytes([TYPE_BYTE[ptype]])
        # UsbPacketSource.queue_packet prepends the endpoint's packet type
        self.splitter = (factory or cls)(lambda p: self.delivered.append(tb + bytes(p)))

    def connect(self):
        pass

    def feed(self, data):
        self.splitter.feed(data)

    def close(self):
        pass


# ----------------------------------------------------------------------------- server transports
class _FakeServer:
    sockets = ()

    def close(self):
        pass

    async def wait_closed(self):
        pass


class _FakeTransport:
    def __init__(self):
        self.written = []
        self.closed = False

    def get_extra_info(self, name, default=None):
        return ("fake-peer", 0)

    def write(self, data):
        self.written.append(data)

    def close(self):
        self.closed = True

    def is_closing(self):
        return self.closed


class StreamServerAdapter:
    """tcp_server / unix server: the real protocol objects made by the factory handed to
    create_server / create_unix_server (stubbed on the loop: no socket is opened)."""

    supports = {"bad", "reconnect", "disconnect"}
    typeless = False

    def __init__(self, env, kind, patch=None):
        self.kind = kind
        self.name = kind + "-server"
        self.loop = env.loop
        self.sink = _Sink()
        captured = []

        async def fake_create(factory, *a, **kw):
            captured.append(factory)
            return _FakeServer()

        attr = "create_server" if kind == "tcp" else "create_unix_server"
        setattr(self.loop, attr, fake_create)
        try:
            if kind == "tcp":
                from bumble.transport import tcp_server

                self.transport = self.loop.run_until_complete(tcp_server.open_tcp_server_transport("_:9"))
            else:
                from bumble.transport import unix

                self.transport = self.loop.run_until_complete(unix.open_unix_server_transport("@c02-no-such-socket"))
        finally:
            delattr(self.loop, attr)
        assert len(captured) == 1, "server transport did not call the stubbed " + attr
        self.factory = captured[0]
        if patch:
            patch(self)  # self-test shim: may wrap self.factory / self.transport
        self.transport.source.set_packet_sink(self.sink)
        self.proto = None
        self.eof_first = False

    @property
    def delivered(self):
        return self.sink.packets

    def connect(self):
        self.proto = self.factory()  # asyncio makes one protocol per accepted connection
        self.sink.packets = []
        self.proto.connection_made(_FakeTransport())

    def feed(self, data):
        self.proto.data_received(data)

    def feed_bad(self, data):
        self.proto.data_received(data)  # StreamPacketSource logs; nothing public to observe
        return None

    def disconnect(self):
        if self.eof_first and hasattr(self.proto, "eof_received"):
            self.proto.eof_received()
        self.proto.connection_lost(None)
        self.proto = None

    def close(self):
        pass


class _FakeWsConnection:
    local_address = ("fake-local", 0)
    remote_address = ("fake-remote", 0)

    def __init__(self):
        self.q = asyncio.Queue()
        self.sent = []

    def __aiter__(self):
        return self

    async def __anext__(self):
        item = await self.q.get()
        if isinstance(item, BaseException):
            raise item
        return item

    async def send(self, data):
        self.sent.append(data)


class WsServerAdapter:
    """ws_server: the real WsServerTransport.on_connection handler run on a fake connection
    object (websockets.asyncio.server.serve is stubbed: no socket is opened)."""

    name = "ws-server"
    supports = {"bad", "reconnect", "disconnect"}
    typeless = False

    def __init__(self, env, patch=None):
        import websockets.asyncio.server as wss

        from bumble.transport import ws_server

        self.loop = env.loop
        self.sink = _Sink()
        captured = []

        async def fake_serve(handler=None, *a, **kw):
            captured.append(handler)
            return _FakeServer()

        real = wss.serve
        wss.serve = fake_serve
        try:
            self.transport = self.loop.run_until_complete(ws_server.open_ws_server_transport("_:9"))
        finally:
            wss.serve = real
        assert len(captured) == 1 and captured[0] is not None, "ws server transport did not call the stubbed serve()"
        self.handler = captured[0]
        if patch:
            patch(self)  # self-test shim: may wrap self.handler / self.transport
        self.transport.source.set_packet_sink(self.sink)
        self.conn = None
        self.task = None
        self.error_close = False

    @property
    def delivered(self):
        return self.sink.packets

    def connect(self):
        self.conn = _FakeWsConnection()
        self.sink.packets = []
        self.task = self.loop.create_task(self.handler(self.conn))
        self.loop.settle()

    def handler_gone(self):
        return self.task is None or self.task.done()

    def feed(self, data):
        self.conn.q.put_nowait(data)  # one BINARY message = one call of feed_data
        self.loop.settle()

    def feed_bad(self, data):
        self.conn.q.put_nowait(data)
        self.loop.settle()
        if self.task.done() and not self.task.cancelled() and self.task.exception() is not None:
            return True  # the handler ended with the parser's exception: websockets closes that client (1011)
        return None

    def disconnect(self):
        if self.task is not None and not self.task.done():
            if self.error_close:
                import websockets

                self.conn.q.put_nowait(websockets.ConnectionClosedError(None, None))
            else:
                self.conn.q.put_nowait(StopAsyncIteration())
            self.loop.settle()
        if self.task is not None and self.task.done() and not self.task.cancelled():
            self.task.exception()  # retrieved: no "never retrieved" noise
        self.conn = None

    def close(self):
        if self.task is not None and not self.task.done():
            self.task.cancel()
        try:
            self.transport.sink.close()
        finally:
            self.loop.settle()
        if self.task is not None and self.task.done() and not self.task.cancelled():
            self.task.exception()
