"""Shared helpers for C10 / C11: a raw ATT puppet client over a real LE connection.

Two real stacks (lib.rig.Net): device 1 runs Bumble's real gatt_server.Server with a generated
database; on device 0 the ATT fixed channel (CID 4) is taken over through the public
`ChannelManager.register_fixed_channel`, so device 0's own GATT client / server never see or answer
anything (no automatic confirmations).  Everything below ATT (L2CAP, ACL, HCI, controllers, link) is
real.  Enhanced bearers are real enhanced-credit-based L2CAP channels to PSM 0x27 whose sink / write
are used raw.

The opcode tables below are the puppet's own (written from Core Vol 3 Part F 3.4.8), not Bumble's;
ServerTrace.tla cross-checks them against the spec's Class operator.
"""
from __future__ import annotations

import asyncio
import hashlib
import struct

from lib import rig as _rig
from lib import vt

ATT_CID = 4
EATT_PSM = 0x27
ATT_TIMEOUT = 30.0  # ATT transaction time-out (Core Vol 3 Part F 3.3.3)
SETTLE = 40.0  # virtual seconds run after every stimulus: beyond the transaction time-out

# ----------------------------------------------------------------------------- opcode tables
REQ_NAMES = {
    0x02: "exchange_mtu", 0x04: "find_information", 0x06: "find_by_type_value", 0x08: "read_by_type",
    0x0A: "read", 0x0C: "read_blob", 0x0E: "read_multiple", 0x10: "read_by_group_type", 0x12: "write",
    0x16: "prepare_write", 0x18: "execute_write", 0x20: "read_multiple_variable",
}
CMD_NAMES = {0x52: "write_command", 0xD2: "signed_write_command"}
S2C = {0x01, 0x03, 0x05, 0x07, 0x09, 0x0B, 0x0D, 0x0F, 0x11, 0x13, 0x17, 0x19, 0x21, 0x1B, 0x1D, 0x23}
CONF = 0x1E
# minimal parameter length (bytes after the opcode) of each defined request / command
MIN_LEN = {0x02: 2, 0x04: 4, 0x06: 6, 0x08: 6, 0x0A: 2, 0x0C: 4, 0x0E: 4, 0x10: 6, 0x12: 2, 0x16: 4, 0x18: 1,
           0x20: 4, 0x52: 2, 0xD2: 14}


def classify(op):
    if op in REQ_NAMES:
        return "req"
    if op in CMD_NAMES:
        return "cmd"
    if op == CONF:
        return "conf"
    if op in S2C:
        return "s2c"
    if op & 0x40:
        return "unkcmd"
    return "unkreq"


def op_label(op):
    c = classify(op)
    if c == "req":
        return REQ_NAMES[op]
    if c == "cmd":
        return CMD_NAMES[op]
    if c == "conf":
        return "confirmation"
    if c == "s2c":
        return "server-to-client-pdu"
    if c == "unkcmd":
        return "unknown-command"
    return "unknown-request-even" if op % 2 == 0 else "unknown-request-odd"


def malformed(op, params):
    """Is `params` not a well-formed parameter block for the defined request `op`?"""
    n = len(params)
    if op not in MIN_LEN:
        return False
    if n < MIN_LEN[op]:
        return True
    if op in (0x08, 0x10) and n not in (6, 20):
        return True
    if op in (0x0E, 0x20) and n % 2:
        return True
    return False


def ev(e, b=1, op=0, len=0, rie=0, n=0, cls=""):  # noqa: A002
    return {"e": e, "b": b, "op": op, "len": len, "rie": rie, "n": n, "cls": cls}


# ----------------------------------------------------------------------------- rig
class AttRig:
    """Server under test + raw puppet.  All methods are synchronous: they schedule work on the
    virtual-time loop and run it."""

    def __init__(self, seed=0, max_delay=0.0, build_db=None, eatt=False, server_patch=None):
        self.loop = vt.new_loop()
        self.loop_errors = []  # exceptions that escaped into the event loop (diagnosis only)
        self.loop.set_exception_handler(lambda loop, ctx: self.loop_errors.append(repr(ctx.get("exception") or ctx.get("message"))))
        self.log = []  # (t, "tx"|"rx", bearer, bytes)
        self.bearers = {1: None}  # bearer id -> client-side channel (None = fixed)
        self.closed = False
        try:
            self.loop.run_until_complete(self._setup(seed, max_delay, build_db, eatt, server_patch))
        except BaseException:
            self.close()
            raise

    async def _setup(self, seed, max_delay, build_db, eatt, server_patch):
        self.net = _rig.Net(2, seed=seed, max_delay=max_delay)
        await self.net.power_on()
        self.server_device = self.net[1]
        self.server = self.server_device.gatt_server
        self.db = build_db(self.server_device) if build_db else None
        if eatt:
            self.server.register_eatt()
        if server_patch:
            server_patch(self.server)
        self.cc, self.pc = await self.net.connect_le(0, 1)
        self.net[0].l2cap_channel_manager.register_fixed_channel(ATT_CID, self._on_fixed)

    def _on_fixed(self, _handle, pdu):
        self.log.append((self.loop.time(), "rx", 1, bytes(pdu)))

    def close(self):
        if not self.closed:
            self.closed = True
            vt.close_loop(self.loop)

    # -- loop helpers
    def run(self, seconds=SETTLE):
        self.loop.run_until_quiescent(max_virtual=seconds)

    def call(self, fn, *args):
        """Run fn(*args) inside the loop (next iteration); exceptions propagate to the caller."""
        box = {}

        def wrapper():
            try:
                box["r"] = fn(*args)
            except BaseException as e:  # noqa: BLE001
                box["e"] = e

        self.loop.call_soon(wrapper)
        self.loop.run_until_quiescent(max_virtual=0.0)
        if "e" in box:
            raise box["e"]
        return box.get("r")

    def spawn(self, coro_fn, *args):
        """Start a coroutine function as a task inside the loop; returns the task."""
        return self.call(lambda: asyncio.ensure_future(coro_fn(*args)))

    def await_(self, coro_fn, *args, limit=SETTLE):
        t = self.spawn(coro_fn, *args)
        self.run(limit)
        if not t.done():
            t.cancel()
            raise RuntimeError("harness coroutine did not complete")
        return t.result()

    # -- bearers
    def _on_l2cap_pdu(self, _handle, cid, pdu):
        """Own reassembly of the K-frames arriving on the puppet's enhanced-bearer CIDs (Core Vol 3 Part A 3.4.3:
        the first frame of an SDU starts with the 2-byte SDU length), so that the true length of what the server
        sent is observed even where the receiving L2CAP entity would balk at it."""
        b = self.cids.get(cid)
        if b is None:
            return
        pdu = bytes(pdu)
        st = self.sdu.get(cid)
        if st is None:
            if len(pdu) < 2:
                return
            st = self.sdu[cid] = [struct.unpack_from("<H", pdu, 0)[0], b""]
            pdu = pdu[2:]
        st[1] += pdu
        if len(st[1]) >= st[0]:
            del self.sdu[cid]
            self.log.append((self.loop.time(), "rx", b, st[1]))

    def open_eatt(self, mtu, count=1):
        """Open `count` enhanced bearers (L2CAP MTU `mtu` on the puppet's side)."""
        from bumble import l2cap

        if not hasattr(self, "cids"):
            self.cids = {}
            self.sdu = {}
            self.net.stacks[0].host.on("l2cap_pdu", self._on_l2cap_pdu)
        chans = self.await_(
            lambda: self.net[0].l2cap_channel_manager.create_enhanced_credit_based_channels(
                self.cc, l2cap.LeCreditBasedChannelSpec(psm=EATT_PSM, mtu=mtu), count))
        ids = []
        for ch in chans:
            b = max(self.bearers) + 1
            self.bearers[b] = ch
            self.cids[ch.source_cid] = b
            ch.sink = lambda pdu: None  # observed through _on_l2cap_pdu
            ids.append(b)
        return ids

    def eatt_mtu(self, b):
        ch = self.bearers[b]
        return min(ch.mtu, ch.peer_mtu)  # Core Vol 3 Part F 3.2.8: minimum of the two L2CAP MTUs

    def server_bearer(self, b):
        """The server-side bearer object for puppet bearer b (what the application API takes)."""
        if b == 1:
            return self.pc
        ch = self.bearers[b]
        chans = self.server_device.l2cap_channel_manager.le_coc_channels.get(self.pc.handle, {})
        for sch in chans.values():
            if sch.source_cid == ch.destination_cid:
                return sch
        raise RuntimeError("server-side EATT channel not found")

    def send(self, b, pdu):
        pdu = bytes(pdu)

        def do():
            self.log.append((self.loop.time(), "tx", b, pdu))
            if b == 1:
                self.cc.send_l2cap_pdu(ATT_CID, pdu)
            else:
                self.bearers[b].write(pdu)

        self.call(do)


class Puppet:
    """Turns the rig's time-stamped bearer log into Server.tla monitor events."""

    def __init__(self, rig, slack=0.5):
        self.rig = rig
        self.mtu = {1: 23}
        self.exchanged = set()
        self.mark = 0
        self.out = {}  # bearer -> outstanding request pdu (puppet's own bookkeeping for MTU tracking)
        self.ind_since = {}  # bearer -> time of the indication still unconfirmed
        self.slack = slack

    def add_bearer(self, b, mtu):
        self.mtu[b] = mtu

    def opens(self):
        return [ev("open", b=b, n=m) for b, m in sorted(self.mtu.items())]

    def _timeouts(self, now, events):
        for b, since in sorted(self.ind_since.items()):
            if now >= since + ATT_TIMEOUT - self.slack:
                events.append(ev("indto", b=b))
                del self.ind_since[b]

    def drain(self):
        """Events for everything logged since the last call."""
        events = []
        log = self.rig.log
        for t, kind, b, pdu in log[self.mark:]:
            self._timeouts(t, events)
            if kind == "tx":
                op = pdu[0] if pdu else 0
                events.append(ev("req", b=b, op=op, len=len(pdu)))
                if classify(op) in ("req", "unkreq"):
                    self.out[b] = pdu
                if op == CONF:
                    self.ind_since.pop(b, None)
                continue
            if not pdu:
                events.append(ev("srv", b=b, op=0, len=0))
                continue
            op = pdu[0]
            if op % 2 == 0:
                continue  # client-role PDU of the server device (e.g. its GATT client confirming): not the server's
            rie = pdu[1] if (op == 0x01 and len(pdu) >= 2) else 0
            events.append(ev("srv", b=b, op=op, len=len(pdu), rie=rie))
            if op == 0x1D and b not in self.ind_since:
                self.ind_since[b] = t
            if op == 0x03 and b == 1 and self.out.get(b, b"")[:1] == b"\x02":
                req = self.out[b]
                client_rx = struct.unpack_from("<H", req, 1)[0] if len(req) >= 3 else 23
                server_rx = struct.unpack_from("<H", pdu, 1)[0] if len(pdu) >= 3 else 23
                n = max(23, min(client_rx, server_rx))
                if b in self.exchanged:
                    n = max(n, self.mtu[b])  # a repeated exchange is outside the protocol: most permissive reading
                self.exchanged.add(b)
                self.mtu[b] = n
                events.append(ev("mtu", b=b, n=n))
            if op % 2 == 1 and op not in (0x1B, 0x1D, 0x23):
                self.out.pop(b, None)
        self.mark = len(log)
        return events

    def expire(self):
        """indto events for indications that have been unconfirmed for the transaction time-out by now."""
        events = []
        self._timeouts(self.rig.loop.time(), events)
        return events

    def confirmable(self, b):
        """'confirm' = an indication is outstanding on b and a confirmation sent now is clearly in time;
        'stray' = nothing outstanding; 'wait' = too close to the 30 s time-out to say which it would be."""
        if b not in self.ind_since:
            return "stray"
        return "confirm" if self.rig.loop.time() - self.ind_since[b] <= ATT_TIMEOUT - 1.0 else "wait"

    def quiesce(self):
        events = self.drain()
        self._timeouts(self.rig.loop.time(), events)
        events.append(ev("quiesce"))
        self.out.clear()
        return events

    def transact(self, b, pdu, wait=SETTLE):
        """One stimulus in isolation: [open*, req, srv*, (mtu), quiesce]."""
        self.drain()
        head = self.opens()
        self.rig.send(b, pdu)
        self.rig.run(wait)
        return head + self.quiesce()

    def set_mtu(self, m):
        """Exchange MTU on the fixed bearer (puppet offers m; the server under test offers its own)."""
        tr = self.transact(1, b"\x02" + struct.pack("<H", m))
        if self.mtu[1] != m:
            raise RuntimeError(f"could not bring the fixed bearer to MTU {m}: {tr}")
        return tr

    def received(self, since):
        return [(b, p) for (_t, k, b, p) in self.rig.log[since:] if k == "rx"]


# ----------------------------------------------------------------------------- databases
def canary(tag, n):
    out = b""
    i = 0
    while len(out) < n:
        out += hashlib.sha256(f"{tag}/{i}".encode()).digest()
        i += 1
    return out[:n]


U_EQ, U_TWIN = 0xC0E0, 0xA0AA
U_SAME = 0xC001
U_LONG = 0xC002
U_MIX = 0xC003
U_PROT = 0xC010
U_DYN = 0xC020
U128_A = "3A12C182-4AB6-4C8D-8A5B-0F2C1B7E0001"
U128_B = "3A12C182-4AB6-4C8D-8A5B-0F2C1B7E0002"
U128_S = "3A12C182-4AB6-4C8D-8A5B-0F2C1B7E00AA"

SIZES_QUICK = [0, 1, 2, 7, 19, 20, 21, 22, 23, 24, 60, 61, 62, 63, 64, 100, 181, 182, 183, 184, 185, 251, 252, 253, 254, 300, 512]
PROT_QUICK = [0x01, 0x02, 0x03, 0x00, 0x05, 0x11, 0x41, 0x0B, 0x23, 0x83, 0xFF, 0x15]


class Db:
    pass


def build_c10_db(device, full=False):
    """Generated database for C10: values of 0..512 bytes, 16- and 128-bit types, equal-size runs for the
    list builders, protected attributes (a class of permission bytes, all 256 when full), values whose
    application callbacks raise, services that are secondary / included / protected."""
    from bumble import att as _att
    from bumble.att import Attribute, AttributeValue
    from bumble.core import UUID
    from bumble.gatt import Characteristic, Descriptor, Service

    P = Characteristic.Properties
    RW = Attribute.READABLE | Attribute.WRITEABLE
    db = Db()
    db.h = {}
    server = device.gatt_server

    def u16(x):
        return UUID.from_16_bits(x)

    sizes = list(range(0, 40)) + SIZES_QUICK if full else SIZES_QUICK
    size_chars = [Characteristic(u16(0xB000 + i), P.READ | P.WRITE, RW, canary(f"size{n}", n)) for i, n in enumerate(sizes)]
    same = [Characteristic(u16(U_SAME), P.READ, RW, canary(f"same{i}", 7)) for i in range(8)]
    longs = [Characteristic(u16(U_LONG), P.READ | P.WRITE, RW, canary(f"long{i}", 300 + i)) for i in range(3)]
    mix = [Characteristic(u16(U_MIX), P.READ, RW, canary(f"mix{i}", n)) for i, n in enumerate([5, 5, 9, 5, 40])]
    notif = Characteristic(u16(0xC030), P.READ | P.NOTIFY | P.INDICATE, RW, canary("notif", 300))
    svc_a = Service(u16(0xA000), size_chars + same + longs + mix + [notif])

    d_user = Descriptor(u16(0x2901), RW, canary("descr", 40))
    c128 = [Characteristic(UUID(U128_A), P.READ | P.WRITE, RW, canary(f"c128-{i}", n), descriptors=[d_user] if i == 0 else [])
            for i, n in enumerate([3, 3, 120])]
    c128b = Characteristic(UUID(U128_B), P.READ | P.NOTIFY, RW, canary("c128b", 64))
    svc_b = Service(UUID(U128_S), c128 + [c128b])

    perms = list(range(256)) if full else PROT_QUICK
    prot = [Characteristic(u16(U_PROT), P.READ | P.WRITE, Attribute.Permissions(p), canary(f"prot{p}", 10)) for p in perms]
    svc_c = Service(u16(0xA001), prot)

    def raiser(exc):
        def f(*_a):
            raise exc
        return f

    async def aread(_c):
        await asyncio.sleep(0.5)
        return canary("async", 50)

    store = {}
    dyn = [
        ("dyn_ok", AttributeValue(read=lambda c: store.get("ok", canary("dynok", 50)), write=lambda c, v: store.__setitem__("ok", v))),
        ("dyn_async", AttributeValue(read=aread, write=lambda c, v: None)),
        ("dyn_atterr", AttributeValue(read=raiser(_att.ATT_Error(0x80)), write=raiser(_att.ATT_Error(0x81)))),
        ("dyn_exc", AttributeValue(read=raiser(RuntimeError("boom")), write=raiser(RuntimeError("boom")))),
        ("dyn_big", AttributeValue(read=lambda c: canary("big", 600), write=lambda c, v: None)),
    ]
    dyn_chars = [Characteristic(u16(U_DYN), P.READ | P.WRITE, RW, v) for _n, v in dyn]
    svc_d = Service(u16(0xA002), dyn_chars)

    sec_inner = Service(u16(0xA003), [Characteristic(u16(0xC040), P.READ, RW, canary("inner", 4))], primary=False)
    svc_e = Service(u16(0xA004), [Characteristic(u16(0xC041), P.READ, RW, canary("outer", 4))], included_services=[sec_inner])
    svc_p = Service(UUID("3A12C182-4AB6-4C8D-8A5B-0F2C1B7E00BB"), [Characteristic(u16(0xC042), P.READ, RW, b"p")])
    svc_last = Service(u16(0xA005), [Characteristic(u16(0xC043), P.READ | P.WRITE, RW, canary("last", 25))])

    # many attributes of one type with one and the same value: Find By Type Value must stop filling at ATT_MTU
    eq = [Characteristic(u16(U_EQ), P.READ, RW, canary("eq", 5)) for _ in range(14)]
    svc_eq = Service(u16(0xA006), eq)
    twins = [Service(u16(U_TWIN), [Characteristic(u16(0xC050 + i), P.READ, RW, canary(f"twin{i}", 2))]) for i in range(14)]

    for s in (svc_a, svc_b, svc_c, svc_d, svc_e, svc_p, svc_eq, *twins, svc_last):
        device.add_service(s)
    # a service declaration that needs encryption (declarations are attributes like any other)
    svc_p.permissions = Attribute.READABLE | Attribute.READ_REQUIRES_ENCRYPTION

    h = db.h
    h["last"] = server.attributes[-1].handle
    h["small"] = same[0].handle
    h["small2"] = same[1].handle
    h["long"] = longs[0].handle
    h["long_len"] = 300
    h["s512"] = size_chars[sizes.index(512)].handle
    h["s22"] = size_chars[sizes.index(22)].handle
    h["s20"] = size_chars[sizes.index(20)].handle
    h["s0"] = size_chars[sizes.index(0)].handle
    h["prot_enc"] = prot[perms.index(0x05)].handle
    h["writeonly"] = prot[perms.index(0x02)].handle
    h["readonly"] = prot[perms.index(0x01)].handle
    h["noperm"] = prot[perms.index(0x00)].handle
    h["w_enc"] = prot[perms.index(0x0B)].handle
    h["prot_first"] = prot[0].handle
    h["prot_last"] = prot[-1].handle
    for (name, _v), c in zip(dyn, dyn_chars):
        h[name] = c.handle
    h["cccd"] = notif.handle + 1
    h["notif"] = notif.handle
    h["c128"] = c128[0].handle
    h["svc_a"] = svc_a.handle
    h["svc_b"] = svc_b.handle
    h["svc_prot"] = svc_p.handle
    db.svc_a_uuid = bytes(svc_a.uuid.to_pdu_bytes())
    db.svc_b_uuid = bytes(svc_b.uuid.to_pdu_bytes())
    db.svc_p_uuid = bytes(svc_p.uuid.to_pdu_bytes())
    db.u128 = bytes(UUID(U128_A).to_pdu_bytes())
    db.notif = notif
    db.c128b = c128b
    db.longs = longs
    db.initial = [(a, a.value) for a in server.attributes]
    special = {id(dyn[2][1]): "callback-att-error", id(dyn[3][1]): "callback-raises"}
    db.classes = {}
    db.types = {}
    for a in server.attributes:
        p = int(a.permissions)
        r = special.get(id(a.value)) or ("open" if (p & 0x55) == 0x01 else "protected")
        w = special.get(id(a.value)) or ("open" if (p & 0xAA) == 0x02 else "protected")
        db.classes[a.handle] = (r, w)
        db.types[a.handle] = bytes(a.type.to_pdu_bytes())
    db.store = store
    assert server.get_attribute(h["cccd"]).type == u16(0x2902), "CCCD not where expected"
    return db


def restore_db(db):
    """Undo writes (values are plain attributes of the attribute objects: public state)."""
    for a, v in db.initial:
        if a.value is not v:
            a.value = v
    db.store.clear()


def H(x):
    return struct.pack("<H", x & 0xFFFF)


def shapes(db, mtu):
    """Parameter blocks sent after every opcode: (name, cause, bytes).  `cause` names the input class for
    violation signatures."""
    h = db.h
    last = h["last"]
    out = []

    def add(name, cause, b):
        out.append((name, cause, bytes(b)))

    add("empty", "empty", b"")
    add("one-byte", "one-byte", b"\x01")
    for name, x in (("h0", 0), ("h1", 1), ("hlast", last), ("hlast+1", last + 1), ("hffff", 0xFFFF), ("hsmall", h["small"]),
                    ("hlong", h["long"]), ("h512", h["s512"]), ("hprot", h["prot_enc"]), ("hwriteonly", h["writeonly"]),
                    ("hnoperm", h["noperm"]), ("hdyn-atterr", h["dyn_atterr"]), ("hdyn-exc", h["dyn_exc"]), ("hdyn-async", h["dyn_async"]),
                    ("hdyn-big", h["dyn_big"]), ("hsvc-prot", h["svc_prot"]), ("hcccd", h["cccd"]), ("hs0", h["s0"]), ("hs22", h["s22"])):
        cause = {"hprot": "protected", "hnoperm": "protected", "hdyn-atterr": "callback-att-error", "hdyn-exc": "callback-raises",
                 "hsvc-prot": "protected", "hlast+1": "unknown-handle", "hffff": "unknown-handle", "h0": "handle-zero"}.get(name, "handle")
        add(name, cause, H(x))
    add("three-bytes", "three-bytes", b"\x01\x00\x02")
    # handle + offset  /  start + end  /  two handles
    add("long+0", "handle-offset", H(h["long"]) + H(0))
    add("long+10", "handle-offset", H(h["long"]) + H(10))
    add("long+len", "handle-offset", H(h["long"]) + H(h["long_len"]))
    add("long+len+1", "handle-offset", H(h["long"]) + H(h["long_len"] + 1))
    add("dynexc+0", "callback-raises", H(h["dyn_exc"]) + H(0))
    add("all", "range", H(1) + H(0xFFFF))
    add("zero-all", "range-zero", H(0) + H(0xFFFF))
    add("start>end", "range-inverted", H(5) + H(1))
    add("last-last", "range", H(last) + H(last))
    add("beyond", "range-beyond", H(last + 1) + H(0xFFFF))
    add("ffff-ffff", "range-beyond", H(0xFFFF) + H(0xFFFF))
    add("zero-zero", "range-zero", H(0) + H(0))
    # range + 16-bit type
    for name, u, cause in (("t2800", 0x2800, "range-type"), ("t2801", 0x2801, "range-type"), ("t2802", 0x2802, "range-type"),
                           ("t2803", 0x2803, "range-type"), ("t2902", 0x2902, "range-type"), ("tsame", U_SAME, "range-type"),
                           ("tlong", U_LONG, "range-type"), ("tmix", U_MIX, "range-type"), ("tprot", U_PROT, "range-type-protected"),
                           ("tdyn", U_DYN, "range-type-callback"), ("tunknown", 0xFFF0, "range-type-unknown")):
        add("all-" + name, cause, H(1) + H(0xFFFF) + H(u))
    add("inv-t2800", "range-inverted", H(9) + H(2) + H(0x2800))
    add("zero-t2800", "range-zero", H(0) + H(0) + H(0x2800))
    add("protsvc-t2800", "range-type-protected", H(h["svc_prot"]) + H(0xFFFF) + H(0x2800))
    add("prot-tprot", "range-type-protected", H(h["prot_enc"]) + H(0xFFFF) + H(U_PROT))
    add("dynexc-tdyn", "range-type-callback", H(h["dyn_exc"]) + H(0xFFFF) + H(U_DYN))
    add("all-t128", "range-type", H(1) + H(0xFFFF) + db.u128)
    add("all-t128-unknown", "range-type-unknown", H(1) + H(0xFFFF) + bytes(range(16)))
    for k in (1, 3, 5, 15, 17):
        add(f"all-type{k}", "range-type-bad-size", H(1) + H(0xFFFF) + bytes(k))
    # range + 16-bit type + value (Find By Type Value)
    add("find-svc-a", "range-type-value", H(1) + H(0xFFFF) + H(0x2800) + db.svc_a_uuid)
    add("find-svc-b", "range-type-value", H(1) + H(0xFFFF) + H(0x2800) + db.svc_b_uuid)
    add("find-svc-prot", "range-type-value-protected", H(1) + H(0xFFFF) + H(0x2800) + db.svc_p_uuid)
    add("find-same", "range-type-value", H(1) + H(0xFFFF) + H(U_SAME) + canary("same3", 7))
    add("find-prot", "range-type-value-protected", H(1) + H(0xFFFF) + H(U_PROT) + canary("prot1", 10))
    add("find-dyn", "range-type-value-callback", H(1) + H(0xFFFF) + H(U_DYN) + b"x")
    add("find-eq-x14", "range-type-value-fill", H(1) + H(0xFFFF) + H(U_EQ) + canary("eq", 5))
    add("find-twin-services-x14", "range-type-value-fill", H(1) + H(0xFFFF) + H(0x2800) + H(U_TWIN))
    add("find-none", "range-type-value", H(1) + H(0xFFFF) + H(0x2800) + b"\x00\x00")
    # handle lists
    add("list-small-x3", "list", H(h["small"]) + H(h["small2"]) + H(h["small"]))
    add("list-fill", "list-fill", (H(h["small"]) + H(h["s20"])) * 2)
    add("list-small-x40", "list-fill", H(h["small"]) * 40)
    add("list-22-small", "list-fill", H(h["s22"]) + H(h["small"]))
    add("list-20-small", "list-fill", H(h["s20"]) + H(h["small"]))
    add("list-small-long", "list-fill", H(h["small"]) + H(h["long"]) + H(h["s512"]))
    add("list-512-x3", "list-fill", H(h["s512"]) * 3)
    add("list-empty-values", "list", H(h["s0"]) * 3)
    add("list-open-prot", "list-protected", H(h["small"]) + H(h["prot_enc"]))
    add("list-prot-open", "list-protected", H(h["prot_enc"]) + H(h["small"]))
    add("list-open-noperm", "list-protected", H(h["small"]) + H(h["noperm"]))
    add("list-open-unknown", "list-unknown", H(h["small"]) + H(last + 1))
    add("list-unknown-open", "list-unknown", H(0) + H(h["small"]))
    add("list-open-dynexc", "callback-raises", H(h["small"]) + H(h["dyn_exc"]))
    add("list-open-dynatt", "callback-att-error", H(h["small"]) + H(h["dyn_atterr"]))
    add("list-odd", "list-odd", H(h["small"]) + H(h["small2"]) + b"\x01")
    add("list-100", "list-fill", b"".join(H(1 + (i % last)) for i in range(100)))
    # handle + value
    for name, hh, cause in (("small", h["small"], "write"), ("readonly", h["readonly"], "write-protected"), ("wenc", h["w_enc"], "write-protected"),
                            ("unknown", last + 1, "write-unknown"), ("dynexc", h["dyn_exc"], "callback-raises"),
                            ("dynatt", h["dyn_atterr"], "callback-att-error"), ("dynasync", h["dyn_async"], "write")):
        add(f"write-{name}-1", cause, H(hh) + b"\x55")
    add("write-small-mtu", "write", H(h["small"]) + bytes(max(0, mtu - 3)))
    add("write-small-512", "write", H(h["small"]) + bytes(512))
    add("write-small-513", "write-too-long", H(h["small"]) + bytes(513))
    add("write-small-600", "write-too-long", H(h["small"]) + bytes(600))
    add("write-cccd-notify", "write-cccd", H(h["cccd"]) + b"\x01\x00")
    add("write-cccd-3", "write-cccd", H(h["cccd"]) + b"\x03\x00\x00")
    add("write-cccd-off", "write-cccd", H(h["cccd"]) + b"\x00\x00")
    add("prep-small", "write", H(h["small"]) + H(0) + b"abc")
    add("signed", "write", H(h["small"]) + b"v" + bytes(12))
    return out


_WORST = ["callback-raises", "callback-att-error", "protected", "unknown-handle", "open"]


def _worst(classes):
    for c in _WORST:
        if c in classes:
            return c
    return "open"


def request_class(db, op, params):
    """Input class of a well-formed defined request / command, from the puppet's knowledge of the database:
    the worst class among the attributes whose value the request reaches (read side or write side)."""
    cl = db.classes
    n = len(params)

    def one(hh, side):
        return cl[hh][side] if hh in cl else "unknown-handle"

    def u(i):
        return struct.unpack_from("<H", params, i)[0]

    if op in (0x0A, 0x0C):
        return one(u(0), 0)
    if op in (0x12, 0x16, 0x52, 0xD2):
        return one(u(0), 1)
    if op in (0x0E, 0x20):
        return _worst({one(u(i), 0) for i in range(0, n - 1, 2)})
    if op in (0x06, 0x08, 0x10):
        start, end = u(0), u(2)
        typ = params[4:6] if op == 0x06 else params[4:]
        return _worst({cl[hh][0] for hh in cl if start <= hh <= end and db.types[hh] == typ} or {"open"})
    return "open"


def cause_of(db, op, shape_cause, params):
    c = classify(op)
    if c in ("req", "cmd"):
        if malformed(op, params):
            return "malformed"
        rc = request_class(db, op, params)
        return rc if rc != "open" else "any"
    return shape_cause


def sig_for(db, op, shape_cause, params, clause):
    c = classify(op)
    if c in ("unkreq", "unkcmd", "s2c", "conf"):
        return f"att:{op_label(op)}:{clause}"
    cause = cause_of(db, op, shape_cause, params)
    if cause == "malformed":
        return f"att:request:malformed:{clause}" if c == "req" else f"att:command:malformed:{clause}"
    return f"att:{op_label(op)}:{cause}:{clause}"
