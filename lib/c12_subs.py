"""C12 (iii): subscriptions.  One real bumble GATT server, two real bumble clients (three devices on
one link), each client with its unenhanced ATT bearer and optionally one EATT bearer.  Every
CCCD write, server API call, Handle Value Notification / Indication arriving at a client, subscriber
callback, Handle Value Confirmation arriving at the server and API return is logged for
specs/Gatt/SubsTrace.tla.
"""
from __future__ import annotations

import asyncio
import struct

from lib import rig, vt

ATT_CID = 4
FAMILIES = ("plural", "notify_one", "indicate_one", "indicate_one_force", "notify_one_force", "one_eatt_notify", "one_eatt_indicate", "concurrent", "lossy", "unsolicited")

_DEF = {"e": "", "b": 0, "m": 0, "c": 0, "v": 0, "id": 0, "kind": "", "force": 0, "vlen": 0, "targets": [], "len": 0, "ok": 0, "p": 0, "api": ""}


def ev(e, **kw):
    d = dict(_DEF)
    d["e"] = e
    d.update(kw)
    return d


def trace_cfg(nbearers=4):
    return ("SPECIFICATION TraceSpec\nCONSTANTS\n  Bearers = {" + ", ".join(str(i + 1) for i in range(nbearers)) + "}\n  Chars = {1, 2}\n"
            "  MaxCalls = 100000\n  Lens = {0}\n  Mtu0 = 23\n  MaxWrites = 100000\n  InitVals = {0}\n  Lossy = TRUE\n  InitLocal = {{}}\n"
            "INVARIANT OneOutstanding\nINVARIANT OnlyOwed\nINVARIANT AllReached\nCHECK_DEADLOCK FALSE\n")


def _wrap_fixed(dev, fn, after=None):
    """see every PDU on the ATT fixed channel of dev before bumble does (and, with after, once bumble is done with it)"""
    mgr = dev.l2cap_channel_manager
    orig = getattr(mgr, "fixed_channels", {}).get(ATT_CID) or dev.on_gatt_pdu

    def handler(handle, pdu):
        fn(handle, bytes(pdu))
        try:
            return orig(handle, pdu)
        finally:
            if after:
                after(handle, bytes(pdu))

    mgr.register_fixed_channel(ATT_CID, handler)


def _wrap_sink(channel, fn, after=None):
    orig = channel.sink

    def sink(pdu):
        fn(bytes(pdu))
        try:
            return orig(pdu)
        finally:
            if after:
                after(bytes(pdu))

    channel.sink = sink


async def run_scenario(rng, family, seed=0, eatt=(True, True), mtus=(64, 23), max_delay=0.004, cccd_fixed=None,
                       server_wrap=None, client_wrap=None, ncalls=8):
    """Returns (trace, info)."""
    from bumble import att, gatt_client, l2cap
    from bumble.core import UUID
    from bumble.gatt import Characteristic, Service

    net = rig.Net(3, seed=seed, max_delay=max_delay)
    srv = net[0]
    vals = [bytes(rng.getrandbits(8) for _ in range(rng.choice([0, 5, 19, 20, 21, 40, 61, 62, 100]))) for _ in range(2)]
    props = Characteristic.Properties.READ | Characteristic.Properties.NOTIFY | Characteristic.Properties.INDICATE
    chars = [Characteristic(u, props, Characteristic.READABLE | Characteristic.WRITEABLE, v) for u, v in zip(("A001", "A002"), vals)]
    srv.add_service(Service("A000", chars))
    server_channels = []
    if any(eatt):
        l2server = srv.gatt_server.register_eatt()
        l2server.on("connection", server_channels.append)
    if server_wrap:
        server_wrap(srv.gatt_server)
    await net.power_on()
    trace = []
    info = {"family": family}
    # ---- connections: the server device is the central of both links
    sconns, cconns = [], []
    for i in (1, 2):
        sc, cc = await net.connect_le(0, i)
        sconns.append(sc)
        cconns.append(cc)
    # ---- bearers: 1 = client 1 fixed, 2 = client 1 EATT, 3 = client 2 fixed, 4 = client 2 EATT
    bearers = {}  # id -> dict(client, sbearer, conn)
    for i in (0, 1):
        client = cconns[i].gatt_client
        if client_wrap:
            client = client_wrap(client, cconns[i])
        if mtus[i] > 23:
            await client.request_mtu(mtus[i])
        bearers[2 * i + 1] = {"client": client, "sbearer": sconns[i], "conn": i, "enh": False}
        if eatt[i]:
            n0 = len(server_channels)
            spec = l2cap.LeCreditBasedChannelSpec(psm=att.EATT_PSM, mtu=rng.choice([64, 128, 2048]))
            ec = await gatt_client.Client.connect_eatt(cconns[i], spec)
            await asyncio.sleep(0.5)
            if len(server_channels) != n0 + 1:
                raise RuntimeError("EATT channel did not show up on the server side")
            bearers[2 * i + 2] = {"client": ec, "sbearer": server_channels[-1], "conn": i, "enh": True}
    await asyncio.sleep(0.5)
    for b, d in sorted(bearers.items()):
        trace.append(ev("bearer", b=b, m=d["sbearer"].att_mtu))
    handle_to_char = {}

    # ---- observation points
    def on_client_pdu(b, pdu):
        if pdu and pdu[0] in (0x1B, 0x1D) and len(pdu) >= 3:
            h = struct.unpack_from("<H", pdu, 1)[0]
            trace.append(ev("pdu", b=b, kind="ntf" if pdu[0] == 0x1B else "ind", c=handle_to_char.get(h, 0), len=len(pdu) - 3))
            mark[b] = len(trace)

    def after_client_pdu(b, pdu):
        # the client's ATT layer is done with the PDU: did it call a subscriber of ours?
        if pdu and pdu[0] in (0x1B, 0x1D) and len(pdu) >= 3 and b in mark:
            m = mark.pop(b)
            p = trace[m - 1]
            if not any(e["e"] == "cb" and e["b"] == b for e in trace[m:]):
                trace.append(ev("nocb", b=b, kind=p["kind"], c=p["c"], len=p["len"]))

    def on_server_pdu(b, pdu):
        if pdu and pdu[0] == 0x1E:
            trace.append(ev("cfm", b=b))
        elif len(pdu) >= 5 and pdu[0] == 0x12 and (b, struct.unpack_from("<H", pdu, 1)[0]) in watch:
            # a CCCD write observed where it takes effect (used when the write races an API call)
            trace.append(ev("cccd", b=b, c=watch[(b, struct.unpack_from("<H", pdu, 1)[0])], v=struct.unpack_from("<H", pdu, 3)[0] & 3))

    mark, watch = {}, {}
    for i in (0, 1):
        _wrap_fixed(net[i + 1], lambda handle, pdu, b=2 * i + 1: on_client_pdu(b, pdu), lambda handle, pdu, b=2 * i + 1: after_client_pdu(b, pdu))
    by_handle = {sconns[i].handle: 2 * i + 1 for i in (0, 1)}
    _wrap_fixed(srv, lambda handle, pdu: on_server_pdu(by_handle.get(handle, 0), pdu))
    for b, d in bearers.items():
        if d["enh"]:
            _wrap_sink(d["client"].bearer, lambda pdu, b=b: on_client_pdu(b, pdu), lambda pdu, b=b: after_client_pdu(b, pdu))
            _wrap_sink(d["sbearer"], lambda pdu, b=b: on_server_pdu(b, pdu))

    # ---- discovery, subscriber callbacks, CCCD values
    cccd_proxy, char_proxy = {}, {}
    for b, d in sorted(bearers.items()):
        client = d["client"]
        await client.discover_services()
        sp = client.get_services_by_uuid(UUID("A000"))[0]
        cps = await client.discover_characteristics([], sp)
        for cp in cps:
            ci = 1 if cp.uuid == chars[0].uuid else 2
            handle_to_char[cp.handle] = ci
            await client.discover_descriptors(cp)

            def cb(value, b=b, ci=ci, kind="ntf"):
                trace.append(ev("cb", b=b, kind=kind, c=ci, len=len(value)))

            char_proxy[(b, ci)] = cp
            if family != "unsolicited":
                # (family "unsolicited": nothing registered in the client's own table, the CCCD is only written raw below)
                trace.append(ev("sub", b=b, c=ci, kind="ntf"))
                await client.subscribe(cp, cb, prefer_notify=True)
                trace.append(ev("cccd", b=b, c=ci, v=1))
                trace.append(ev("sub", b=b, c=ci, kind="ind"))
                await client.subscribe(cp, lambda value, b=b, ci=ci: trace.append(ev("cb", b=b, kind="ind", c=ci, len=len(value))), prefer_notify=False)
                trace.append(ev("cccd", b=b, c=ci, v=2))
            cccd_proxy[(b, ci)] = next(dp for dp in cp.descriptors if dp.type == UUID("2902"))
    cccd = {}
    for (b, ci), dp in sorted(cccd_proxy.items()):
        v = cccd_fixed[(b, ci)] if cccd_fixed and (b, ci) in cccd_fixed else rng.randrange(4)
        await bearers[b]["client"].write_value(dp, struct.pack("<H", v), with_response=True)
        trace.append(ev("cccd", b=b, c=ci, v=v))
        cccd[(b, ci)] = v
    info["cccd"] = {f"{b}.{c}": v for (b, c), v in cccd.items()}

    # ---- API calls
    all_b = sorted(bearers)
    gs = srv.gatt_server
    counter = [0]
    pending = set()

    def mtu_of(b):
        return bearers[b]["sbearer"].att_mtu

    def pick_value(tg):
        m = mtu_of(rng.choice(tg)) if tg else 23
        n = rng.choice([0, 1, m - 4, m - 3, m - 2, m, m + 40])
        return bytes(rng.getrandbits(8) for _ in range(min(max(n, 0), 512)))

    async def call(api, kind, ci, targets, force, arg=None):
        counter[0] += 1
        k = counter[0]
        value = None if rng.random() < 0.2 else pick_value(targets)
        vlen = len(vals[ci - 1]) if value is None else len(value)
        trace.append(ev("api", id=k, kind=kind, c=ci, force=1 if force else 0, vlen=vlen, targets=list(targets), api=api))
        pending.add(k)
        fn = getattr(gs, api)
        try:
            if arg is None:
                await asyncio.wait_for(fn(chars[ci - 1], value), 200)
            else:
                await asyncio.wait_for(fn(arg, chars[ci - 1], value, force), 200)
            trace.append(ev("ret", id=k, ok=1, api=api))
        except asyncio.TimeoutError:
            trace.append(ev("ret", id=k, ok=0, api=api))
        except Exception as e:
            info["exc"] = f"{api}: {type(e).__name__}: {e}"
            trace.append(ev("ret", id=k, ok=0, api=api))
        pending.discard(k)

    def conn_targets(i):
        return [b for b in all_b if bearers[b]["conn"] == i]

    eatt_b = [b for b in all_b if bearers[b]["enh"]]
    if family == "lossy":
        # one Handle Value Confirmation per fixed bearer is lost on its way out of the client (swallowed at the client's
        # HCI boundary): the server's indication times out; later indications to that bearer must go out again
        budget = {1: 1, 3: rng.choice([0, 1])}
        for i in (0, 1):
            b = 2 * i + 1
            tap = net.stacks[i + 1].tap

            def swallow(packet, b=b):
                if len(packet) >= 10 and packet[0] == 0x02 and packet[7:9] == b"\x04\x00" and packet[9] == 0x1E and budget[b] > 0:
                    budget[b] -= 1
                    trace.append(ev("lost", b=b))
                    return True
                return False

            tap.filter_h2c = swallow
        for n in range(ncalls):
            ci = rng.choice((1, 2))
            if n % 2 == 0:
                await call("indicate_subscribers", "ind", ci, all_b, False)
            else:
                i = rng.choice((0, 1))
                await call("indicate_subscriber", "ind", ci, [2 * i + 1], True, sconns[i])
            await asyncio.sleep(rng.choice([0, 1.0, 40.0]))
        await asyncio.sleep(100)
        trace.append(ev("quiesce", p=len(pending)))
        return trace, info
    for _ in range(ncalls):
        ci = rng.choice((1, 2))
        i = rng.choice((0, 1))
        if family == "plural":
            kind = rng.choice(("ntf", "ind"))
            await call("notify_subscribers" if kind == "ntf" else "indicate_subscribers", kind, ci, all_b, False)
        elif family == "notify_one":
            await call("notify_subscriber", "ntf", ci, conn_targets(i), False, sconns[i])
        elif family == "indicate_one":
            await call("indicate_subscriber", "ind", ci, conn_targets(i), False, sconns[i])
        elif family == "notify_one_force":
            await call("notify_subscriber", "ntf", ci, [2 * i + 1], True, sconns[i])
        elif family == "indicate_one_force":
            await call("indicate_subscriber", "ind", ci, [2 * i + 1], True, sconns[i])
        elif family in ("one_eatt_notify", "one_eatt_indicate"):
            if not eatt_b:
                break
            b = rng.choice(eatt_b)
            kind = "ntf" if family == "one_eatt_notify" else "ind"
            await call("notify_subscriber" if kind == "ntf" else "indicate_subscriber", kind, ci, [b], rng.random() < 0.3, bearers[b]["sbearer"])
        elif family == "unsolicited":
            # no callback registered on any client: whoever is subscribed on the SERVER (raw CCCD write) or forced gets the
            # PDU, nobody is called, and every indication is confirmed all the same
            kind = rng.choice(("ind", "ind", "ntf"))
            shape = rng.choice(("connection", "force", "all"))
            if shape == "all":
                await call("notify_subscribers" if kind == "ntf" else "indicate_subscribers", kind, ci, all_b, False)
            else:
                await call("notify_subscriber" if kind == "ntf" else "indicate_subscriber", kind, ci,
                           conn_targets(i) if shape == "connection" else [2 * i + 1], shape == "force", sconns[i])
        elif family == "concurrent":
            # two indications (and a notification) in flight at once: one outstanding per bearer
            await asyncio.gather(
                call("indicate_subscribers", "ind", 1, all_b, False),
                call("indicate_subscribers", "ind", 2, all_b, False),
                call("notify_subscribers", "ntf", ci, all_b, False),
            )
        else:
            raise ValueError(family)
        await asyncio.sleep(rng.choice([0, 0.01, 1.0]))
    if family == "unsolicited":
        # Client.unsubscribe racing an indication: the callback is dropped first, the CCCD write of 0 follows; an indication
        # in flight at that moment finds nobody to call and is confirmed.  The CCCD writes are logged where they take effect.
        for n in range(3):
            i, ci = rng.choice((0, 1)), rng.choice((1, 2))
            b = 2 * i + 1
            client, cp = bearers[b]["client"], char_proxy[(b, ci)]
            trace.append(ev("sub", b=b, c=ci, kind="ind"))
            await client.subscribe(cp, lambda value, b=b, ci=ci: trace.append(ev("cb", b=b, kind="ind", c=ci, len=len(value))), prefer_notify=False)
            trace.append(ev("cccd", b=b, c=ci, v=2))
            watch[(b, cccd_proxy[(b, ci)].handle)] = ci
            t = asyncio.ensure_future(call("indicate_subscriber", "ind", ci, conn_targets(i), False, sconns[i]))
            await asyncio.sleep(rng.choice([0, 0, 0.001, 0.003, 0.01]))
            trace.append(ev("unsub", b=b, c=ci))
            await client.unsubscribe(cp)
            trace.append(ev("unsubd", b=b, c=ci))
            await t
            del watch[(b, cccd_proxy[(b, ci)].handle)]
            await asyncio.sleep(rng.choice([0, 0.5]))
    await asyncio.sleep(100)
    trace.append(ev("quiesce", p=len(pending)))
    return trace, info
