"""C09 rig: execute one history of channel operations on a real 3-device network and log it in the
vocabulary of specs/L2cap/ChanTableTrace.tla.

Topology: stack 0 = the central ("c"): ONE Device / ChannelManager holding link 1 (to stack 1) and link 2
(to stack 2).  Each link is an LE link (LE credit based + enhanced credit based channels) or a classic link
(classic channels).  The peripheral end "p" of a link is either the real bumble Device of that stack or a
scripted raw L2CAP peer (lib.c09_puppet) sitting on the real Host + Controller of that stack.

A scenario is a JSON-able dict:
  seed, hci_delay, links: ["le"|"classic", ...], peers: ["bumble"|"puppet", ...], puppet: {...policy...},
  steps: [ [op, op, ...], ... ]        one inner list = operations issued in the same event loop iteration
  op: {"k": "open",  "s": "c"|"p", "c": 1|2, "kind": "le"|"ecred"|"classic", "n": 1.., "psm": "srv"|"none", "alt": 0|1}
      {"k": "close"|"abort"|"drain", "s":, "c":, "i": index into the side's open channels of that link (by CID)}
      {"k": "cancel", "s":, "c":}            give up the latest connect of (s, c) that is still pending
      {"k": "down", "c":, "s": who disconnects, "at": number of HCI packets on that link after which it is done}
      {"k": "up", "c":}
An operation whose reference does not exist at that moment (no such channel, link down ...) is skipped: the
log, not the script, is what TLC validates.
"""
from __future__ import annotations

import asyncio
import os
import traceback

from lib import rig, vt

SETTLE = 4.0  # virtual seconds per step: far beyond every HCI hop (no L2CAP procedure here has a time-out)
LE_PSMS = (0x0081, 0x0083)
LE_PSM_NONE = 0x0085
CL_PSMS = (0x1001, 0x1003)
CL_PSM_NONE = 0x1005
NOOBS = 99


class HarnessError(Exception):
    pass


def _bumble_dir():
    import bumble

    return os.path.dirname(os.path.abspath(bumble.__file__)) + os.sep


def raised_in_bumble(exc):
    tb = traceback.extract_tb(exc.__traceback__)
    if not tb:
        return False
    return os.path.abspath(tb[-1].filename).startswith(_bumble_dir())


def ev(e, o=0, s="", c=0, k="", kind="", psm="", S=(), L=(), R=0, g=0, out="", W=(), t=0):
    return {"e": e, "o": o, "s": s, "c": c, "k": k, "kind": kind, "psm": psm, "S": list(S), "L": list(L), "R": R, "g": g,
            "out": out, "W": list(W), "t": t}


def classify(task):
    if task.cancelled():
        return "error", "CancelledError"
    exc = task.exception()
    if exc is None:
        return "ok", ""
    if getattr(exc, "c09_refused", False):  # the puppet's request was answered with a refusal
        return "refused", str(exc)
    from bumble.core import ProtocolError

    if isinstance(exc, ProtocolError):  # L2capError: the peer's response carried a refusal
        return "refused", f"{type(exc).__name__}: {exc}"
    if isinstance(exc, asyncio.CancelledError):
        return "error", "CancelledError"
    return "error", f"{type(exc).__name__}: {exc}"


# ----------------------------------------------------------------------------- the bumble end of a link
class BumbleEnd:
    """side s of connection c played by a real bumble Device (public API only, tables projected)"""

    puppet = False

    def __init__(self, world, side, c, device):
        self.w = world
        self.side = side
        self.c = c
        self.device = device
        self.cm = device.l2cap_channel_manager
        self.channels = []  # every channel object this end has seen on the current link
        self.last_handle = None

    @property
    def conn(self):
        return self.w.conn.get((self.side, self.c))

    # -- channels
    def _is_open(self, ch):
        st = getattr(ch, "state", None)
        return getattr(st, "name", "") in ("CONNECTED", "OPEN")

    def open_channels(self):
        return sorted((ch for ch in self.channels if self._is_open(ch)), key=lambda ch: ch.source_cid)

    def adopt(self, ch):
        if ch not in self.channels:
            self.channels.append(ch)

    def table_keys(self):
        return set(self.cm.channels.get(self.conn.handle, {}).keys()) if self.conn else set()

    # -- operations (coroutines: the first step runs when the task is first scheduled)
    async def open(self, kind, n, psm_class, alt, o=None):
        from bumble import l2cap

        if kind == "classic":
            psm = CL_PSM_NONE if psm_class == "none" else CL_PSMS[alt % 2]
            chans = [await self.conn.create_l2cap_channel(spec=l2cap.ClassicChannelSpec(psm=psm))]
        else:
            psm = LE_PSM_NONE if psm_class == "none" else LE_PSMS[alt % 2]
            spec = l2cap.LeCreditBasedChannelSpec(psm=psm, max_credits=2, mtu=64, mps=32)
            if kind == "le":
                chans = [await self.conn.create_l2cap_channel(spec=spec)]
            else:
                chans = list(await self.cm.create_enhanced_credit_based_channels(self.conn, spec, n))
        for ch in chans:
            self.adopt(ch)
        return [ch.source_cid for ch in chans]

    async def close(self, ch):
        await ch.disconnect()

    async def drain(self, ch):
        # more than the peer's 2 credits x MPS, nobody consumes on the other end: either a backlog of several SDUs stays
        # queued, or (every other call) exactly one SDU that is sent in part - the queue is empty, its tail waits for credits
        self._drains = getattr(self, "_drains", 0) + 1
        ch.write(bytes(64 if self._drains % 2 else 600))
        await ch.drain()

    def abort(self, ch):
        ch.abort()

    # -- projection
    def tables(self, handle, live_handles):
        cm = self.cm
        S = sorted(getattr(cm, "channels", {}).get(handle, {}).keys()) if handle is not None else []
        R = NOOBS
        L = []
        le = getattr(cm, "le_coc_channels", None)
        if isinstance(le, dict):
            L = sorted(le.get(handle, {}).keys()) if handle is not None else []
            R = 0
            reqs = getattr(cm, "le_coc_requests", None)
            if isinstance(reqs, dict):
                for key in reqs:
                    if isinstance(key, tuple) and key and key[0] == handle:
                        R += 1
            pend = getattr(cm, "pending_credit_based_connections", None)
            if isinstance(pend, dict):
                R += len(pend.get(handle, {}) or {})
        return S, L, R

    def ghosts(self, live_handles):
        """entries of any per-connection table that belong to no live connection of this device"""
        cm = self.cm
        n = 0
        for name in ("channels", "le_coc_channels", "pending_credit_based_connections"):
            d = getattr(cm, name, None)
            if isinstance(d, dict):
                n += sum(1 for h, v in d.items() if h not in live_handles and v)
        d = getattr(cm, "identifiers", None)
        if isinstance(d, dict):
            n += sum(1 for h in d if h not in live_handles)
        d = getattr(cm, "le_coc_requests", None)
        if isinstance(d, dict):
            n += sum(1 for key in d if isinstance(key, tuple) and key and key[0] not in live_handles)
        return n


# ----------------------------------------------------------------------------- the world
class World:
    def __init__(self, sc, device_patch=None):
        self.sc = sc
        self.device_patch = device_patch
        self.events = []
        self.conn = {}  # (side, c) -> bumble Connection (the puppet's too: its Device is real below L2CAP)
        self.ends = {}  # (side, c) -> BumbleEnd | PuppetEnd
        self.ops = 0
        self.tasks = {}  # o -> (task, descr)
        self.pending_open = {}  # (side, c) -> [o, ...]
        self.finished = []
        self.draining = []
        self.details = {}
        self.unhandled = []
        self.harness_exc = None
        self.info = {"skipped": 0}

    # -- plumbing
    def log(self, **kw):
        self.events.append(ev(**kw))

    def next_o(self):
        self.ops += 1
        return self.ops

    def start(self, o, coro, descr):
        task = asyncio.get_running_loop().create_task(coro)
        self.tasks[o] = (task, descr)

        def done(t, o=o):
            self.finished.append(o)

        task.add_done_callback(done)
        return task

    def link_up(self, c):
        return ("c", c) in self.conn

    # -- set-up
    async def setup(self):
        from bumble import l2cap

        sc = self.sc
        loop = asyncio.get_running_loop()

        def on_exc(lp, context):
            e = context.get("exception")
            if e is not None and (isinstance(e, HarnessError) or not raised_in_bumble(e)):
                self.harness_exc = self.harness_exc or e
            self.unhandled.append(str(e or context.get("message")))

        loop.set_exception_handler(on_exc)
        self.net = net = rig.Net(3, seed=sc["seed"], max_delay=sc.get("hci_delay", 0.0))
        if "classic" in sc["links"]:
            rig.enable_classic(net)
        await net.power_on()
        if self.device_patch:
            self.device_patch(net)
        self.kinds = {1: sc["links"][0], 2: sc["links"][1]}
        for i, dev in enumerate(net.devices):
            if sc["peers"][i - 1] == "puppet" and i > 0:
                continue

            def handler(ch, i=i):
                self.accepted(i, ch)

            for psm in LE_PSMS:
                dev.create_l2cap_server(spec=l2cap.LeCreditBasedChannelSpec(psm=psm, max_credits=2, mtu=64, mps=32), handler=handler)
            for psm in CL_PSMS:
                dev.create_l2cap_server(spec=l2cap.ClassicChannelSpec(psm=psm), handler=handler)
        for c in (1, 2):
            self.ends[("c", c)] = BumbleEnd(self, "c", c, net[0])
            if sc["peers"][c - 1] == "puppet":
                from lib.c09_puppet import PuppetEnd

                self.ends[("p", c)] = PuppetEnd(self, c, net.stacks[c], sc.get("puppet", {}))
            else:
                self.ends[("p", c)] = BumbleEnd(self, "p", c, net[c])
        for c in (1, 2):
            await self.connect(c)

    async def connect(self, c):
        if self.kinds[c] == "le":
            cc, pc = await self.net.connect_le(0, c)
        else:
            cc, pc = await self.net.connect_classic(0, c)
        self.conn[("c", c)] = cc
        self.conn[("p", c)] = pc
        for s in ("c", "p"):
            end = self.ends[(s, c)]
            end.channels = []
            end.last_handle = self.conn[(s, c)].handle
            if end.puppet:
                end.on_link(pc.handle)

        def gone(reason, c=c, cc=cc):
            if self.conn.get(("c", c)) is cc:
                self.conn.pop(("c", c), None)
                self.conn.pop(("p", c), None)

        cc.on("disconnection", gone)
        pc.on("disconnection", gone)

    def accepted(self, dev_index, ch):
        h = ch.connection.handle
        for (s, c), end in self.ends.items():
            if end.puppet or end.last_handle != h:
                continue
            if (dev_index == 0 and s == "c") or (dev_index == c and s == "p"):
                end.adopt(ch)
                return
        raise HarnessError("accepted channel on an unknown connection")

    # -- one step
    async def step(self, batch):
        loop = asyncio.get_running_loop()
        issued = []  # (o, op, end, extra)
        markers = {}
        downs = []
        cancels = []
        for op in batch:  # re-establishing a link takes (virtual) time: before anything else of the batch is issued
            if op["k"] == "up":
                c = op["c"]
                if not self.link_up(c):
                    o = self.next_o()
                    self.log(e="linkup", o=o, c=c)
                    await self.connect(c)
                else:
                    self.info["skipped"] += 1
        for op in batch:
            k = op["k"]
            c = op["c"]
            if k == "up":
                continue
            if k == "down":
                if self.link_up(c):
                    downs.append(op)
                else:
                    self.info["skipped"] += 1
                continue
            if not self.link_up(c):
                self.info["skipped"] += 1
                continue
            end = self.ends[(op["s"], c)]
            if k == "cancel":
                cancels.append(op)
                continue
            if k == "open":
                kind = op["kind"]
                if (kind == "classic") != (self.kinds[c] == "classic"):
                    kind = "classic" if self.kinds[c] == "classic" else "le"
                n = op.get("n", 1) if kind == "ecred" else 1
                o = self.next_o()
                async def pre(end=end):  # runs right before the first step of the open: what is allocated then is this open's
                    markers[id(end)] = end.table_keys()

                loop.create_task(pre())
                self.start(o, end.open(kind, n, op.get("psm", "srv"), op.get("alt", 0), o), ("open", kind))
                self.pending_open.setdefault((op["s"], c), []).append(o)
                rec = {"o": o, "s": op["s"], "c": c, "k": "open", "kind": kind, "psm": op.get("psm", "srv"), "S": None}

                async def marker(rec=rec, end=end):
                    rec["S"] = sorted(end.table_keys() - markers[id(end)])

                loop.create_task(marker())
                issued.append(rec)
                continue
            # close / abort / drain: reference = index into the open channels of that end
            chans = end.open_channels()
            if k == "drain" and self.kinds[c] == "classic":
                self.info["skipped"] += 1
                continue
            if not chans or (k == "drain" and end.puppet):
                self.info["skipped"] += 1
                continue
            ch = chans[op.get("i", 0) % len(chans)]
            if k == "drain":
                if any(d is ch and not self.tasks[o2][0].done() for o2, d in self.draining):
                    self.info["skipped"] += 1
                    continue
            if any(r["s"] == op["s"] and r["c"] == c and r.get("ch") == ch and "ch" in r for r in issued):
                self.info["skipped"] += 1  # one operation per channel and side in a batch
                continue
            o = self.next_o()
            rec = {"o": o, "s": op["s"], "c": c, "k": k, "kind": "", "psm": "", "S": [end.cid_of(ch) if end.puppet else ch.source_cid], "ch": ch}
            if k == "abort":
                async def do_abort(end=end, ch=ch):
                    end.abort(ch)

                loop.create_task(do_abort())
            else:
                self.start(o, end.close(ch) if k == "close" else end.drain(ch), (k, self.kinds[c]))
                if k == "drain":
                    self.draining.append((o, ch))
            issued.append(rec)
        await asyncio.sleep(0)  # every task runs its first step (CID allocated, request handed to the host), nothing is delivered yet
        for rec in issued:
            if rec["S"] is None:
                raise HarnessError("open marker did not run")
            self.log(e="op", o=rec["o"], s=rec["s"], c=rec["c"], k=rec["k"], kind=rec["kind"], psm=rec["psm"], S=rec["S"])
        for op in cancels:
            key = (op["s"], op["c"])
            pend = [o for o in self.pending_open.get(key, []) if not self.tasks[o][0].done()]
            if not pend:
                self.info["skipped"] += 1
                continue
            target = pend[-1]
            o = self.next_o()
            self.log(e="op", o=o, s=op["s"], c=op["c"], k="cancel", t=target)
            end = self.ends[key]
            if end.puppet:
                end.cancel(target)
            else:
                self.tasks[target][0].cancel()
        # link drops: after `at` HCI packets have crossed the taps of the two stacks of that link
        for op in downs:
            self.arm_down(op)
        await asyncio.sleep(SETTLE)
        for op in downs:  # not reached its packet count: now
            self.fire_down(op)
        if downs:
            await asyncio.sleep(SETTLE)
        self.observe()

    def arm_down(self, op):
        c = op["c"]
        at = op.get("at", 0)
        op["_fired"] = False
        if at <= 0:
            self.fire_down(op)
            return
        count = [0]
        loop = asyncio.get_running_loop()
        stacks = [self.net.stacks[0], self.net.stacks[c]]
        olds = [s.tap.record for s in stacks]

        def rec(direction, packet, i=0):
            if olds[i]:
                olds[i](direction, packet)
            if op["_fired"]:
                return
            count[0] += 1
            if count[0] >= at:
                loop.call_soon(self.fire_down, op)

        for i, s in enumerate(stacks):
            s.tap.record = (lambda d, p, i=i: rec(d, p, i))
        op["_restore"] = (stacks, olds)

    def fire_down(self, op):
        if op.get("_fired"):
            return
        op["_fired"] = True
        if "_restore" in op:
            stacks, olds = op.pop("_restore")
            for s, old in zip(stacks, olds):
                s.tap.record = old
        c = op["c"]
        conn = self.conn.get((op.get("s", "c"), c))
        if conn is None:
            self.info["skipped"] += 1
            return
        o = self.next_o()
        self.log(e="linkdown", o=o, c=c)
        t = asyncio.get_running_loop().create_task(conn.disconnect())
        t.add_done_callback(lambda t: t.cancelled() or t.exception())

    # -- observation at quiescence
    def observe(self):
        for o in self.finished:
            task, descr = self.tasks[o]
            out, detail = classify(task)
            if out == "error" and not task.cancelled():
                e = task.exception()
                if isinstance(e, HarnessError) or (e is not None and not raised_in_bumble(e) and not isinstance(e, asyncio.CancelledError)):
                    raise HarnessError(f"operation {o} {descr} failed inside the harness: {e!r}") from e
            self.details[o] = (descr, out, detail)
            self.log(e="res", o=o, out=out)
        self.finished = []
        live = {0: set(self.net[0].connections.keys()), 1: set(self.net[1].connections.keys()), 2: set(self.net[2].connections.keys())}
        for c in (1, 2):
            for s in ("c", "p"):
                end = self.ends[(s, c)]
                conn = self.conn.get((s, c))
                handle = conn.handle if conn is not None else None
                if end.puppet:
                    S, L, R, g = end.tables()
                else:
                    S, L, R = end.tables(handle, None)
                    g = end.ghosts(live[0 if s == "c" else c])
                self.log(e="tables", s=s, c=c, S=S, L=L, R=R, g=g)
        pending = sorted(o for o, (t, _) in self.tasks.items() if not t.done())
        self.log(e="quiesce", W=pending)

    async def main(self):
        await self.setup()
        await asyncio.sleep(SETTLE)
        self.observe()
        for batch in self.sc["steps"]:
            await self.step(batch)
        if self.harness_exc is not None:
            raise HarnessError(f"harness exception during the scenario: {self.harness_exc!r}") from self.harness_exc
        self.hangs = {}
        for o, (t, descr) in self.tasks.items():
            if not t.done():
                self.hangs[o] = descr
        return self


def compress(events):
    """real CIDs -> 1..n (order of value; the specification is symmetric in the CID names)"""
    vals = sorted({x for e in events for x in e["S"] + e["L"]})
    m = {v: i + 1 for i, v in enumerate(vals)}
    out = []
    for e in events:
        e2 = dict(e)
        e2["S"] = [m[x] for x in e["S"]]
        e2["L"] = [m[x] for x in e["L"]]
        out.append(e2)
    annotate(out)
    return out, len(vals)


def annotate(trace):
    """nx: per record, for the ends (c,1) (p,1) (c,2) (p,2), the 1-based index of the next `tables` record of that end, or 0 when
    the link of that end is dropped in the same quiescence period (then "accepted and dropped" and "dropped before the request
    arrived" differ in the outcome of the connect, and the search is not pruned)"""
    n = len(trace)
    period_end = [0] * n
    j = n - 1
    last_q = n - 1
    for i in range(n - 1, -1, -1):
        if trace[i]["e"] == "quiesce":
            last_q = i
        period_end[i] = last_q
    start = 0
    downs = {}
    for i in range(n):
        if i == 0 or trace[i - 1]["e"] == "quiesce":
            start = i
            downs[start] = {e["c"] for e in trace[start : period_end[i] + 1] if e["e"] == "linkdown"}
        dropped = downs[start]
        nx = []
        for c in (1, 2):
            for s in ("c", "p"):
                k = 0
                if c not in dropped:
                    for j in range(i, n):
                        e = trace[j]
                        if e["e"] == "tables" and e["s"] == s and e["c"] == c:
                            k = j + 1
                            break
                nx.append(k)
        trace[i]["nx"] = nx
    seen = []
    for c in (1, 2):
        for s in ("c", "p"):
            seen.append(sorted({x for e in trace if e["e"] in ("tables", "op") and e["s"] == s and e["c"] == c for x in e["S"]}))
    for e in trace:
        e["seen"] = seen


def run_scenario(sc, device_patch=None):
    import warnings

    warnings.filterwarnings("ignore", message="coroutine .* was never awaited", category=RuntimeWarning)
    w = World(sc, device_patch)
    vt.run(w.main())
    trace, ncids = compress(w.events)
    return {"trace": trace, "raw": w.events, "ncids": ncids, "details": {str(o): list(d) for o, d in w.details.items()},
            "hangs": {str(o): list(d) for o, d in w.hangs.items()}, "unhandled": w.unhandled[:5], "info": w.info}
