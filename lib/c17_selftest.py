"""C17 binding self-test: real stacks whose victim side is wrapped so that it misbehaves in a documented way
(and recorded traces with one field corrupted) must be flagged by the same machinery the check uses."""
from __future__ import annotations

import copy

from bumble import att, hfp

from lib import c17_rigs as rigs
from lib import c17_run as R
from lib import core


def _wrap_att(rig_self, fn):
    mgr = rig_self.victim.l2cap_channel_manager
    orig = mgr.fixed_channels[att.ATT_CID]
    mgr.fixed_channels[att.ATT_CID] = lambda handle, pdu: fn(orig, handle, pdu)


class WedgedAtt(rigs.AttRig):
    """after the first PDU whose handling raises, the ATT bearer ignores everything (a wedged reader)"""

    async def open_channel(self):
        dead = []

        def handler(orig, handle, pdu):
            if dead:
                return
            try:
                orig(handle, pdu)
            except Exception:
                dead.append(1)
                raise

        _wrap_att(self, handler)


class BusyAtt(rigs.AttRig):
    """an empty PDU starts a callback that reschedules itself for ever (busy loop across callbacks)"""

    async def open_channel(self):
        import asyncio

        def spin():
            asyncio.get_running_loop().call_soon(spin)

        def handler(orig, handle, pdu):
            if not pdu:
                spin()
            orig(handle, pdu)

        _wrap_att(self, handler)


class SpinAtt(rigs.AttRig):
    """an empty PDU is handled by a loop that never ends (busy loop inside one callback)"""

    async def open_channel(self):
        def handler(orig, handle, pdu):
            while not pdu:
                pass
            orig(handle, pdu)

        _wrap_att(self, handler)


class RecursiveAtt(rigs.AttRig):
    """an empty PDU sends a parser into unbounded recursion; the RecursionError is caught and logged"""

    async def open_channel(self):
        def descend(n):
            return descend(n + 1) + 1

        def handler(orig, handle, pdu):
            if not pdu:
                try:
                    descend(0)
                except RecursionError:
                    return
            orig(handle, pdu)

        _wrap_att(self, handler)


class DroppingAtt(rigs.AttRig):
    """a PDU whose handling raises makes the device forget the connection"""

    async def open_channel(self):
        def handler(orig, handle, pdu):
            try:
                orig(handle, pdu)
            except Exception:
                self.victim.connections.pop(self.vhandle, None)
                raise

        _wrap_att(self, handler)


class ParseBeforeConsumeAg(hfp.AgProtocol):
    """AgProtocol whose reader parses the head of the buffer before removing it (the shape of the defect C17-1)"""

    def _read_at(self, data: bytes):
        self.read_buffer.extend(data)
        while self.read_buffer:
            trailer = self.read_buffer.find(b"\r")
            if trailer == -1:
                return
            hfp.AtCommand.parse_from(self.read_buffer[:trailer])  # a malformed line raises here and stays in the buffer
            line = bytes(self.read_buffer[: trailer + 1])
            rest = bytearray(self.read_buffer[trailer + 1 :])
            self.read_buffer = bytearray()
            try:
                super()._read_at(line)  # the real handling of that one line
            finally:
                self.read_buffer = rest


class OldReaderAgRig(rigs.HfpAgRig):
    def on_victim_dlc(self, dlc):
        self.victim_dlcs.append(dlc)
        self.ag = ParseBeforeConsumeAg(dlc, rigs.ag_configuration())


SHIMS = [
    # name, rig, channel, sequences, event at which the trace must be rejected
    ("wedged-reader", WedgedAtt, "att", [("empty",), ("empty", "valid")], "probe_ok"),
    ("busy-loop-callbacks", BusyAtt, "att", [("empty",)], "done"),
    ("busy-loop-inline", SpinAtt, "att", [("empty",)], "done"),
    ("swallowed-recursion", RecursiveAtt, "att", [("empty",)], "done"),
    ("connection-dropped", DroppingAtt, "att", [("empty",)], "alive"),
    ("ag-parse-before-consume", OldReaderAgRig, "hfp_ag", [("at_unknown",), ("at_paren",), ("at_nonutf8",)], "probe_ok"),
]


def run(ctx, rep, validate):
    results = {}
    for name, factory, channel, seqs, where in SHIMS:
        res = [R.run_sequence(channel, s, R.seq_seed(ctx.seed, channel, s, 7), rig_factory=factory) for s in seqs]
        r2 = core.Report(rep.prop, rep.level)
        rejected = validate(ctx, r2, res, 4)
        hits = [r for r, v in rejected if 0 < v[1] <= len(r["trace"]) and r["trace"][v[1] - 1]["e"] == where]
        results[name] = f"{len(hits)}/{len(res)} rejected at {where}"
        if not hits:
            rep.violation(f"selftest:{name}", f"binding self-test: shim {name} ({factory.__doc__}) was not detected: {[r['trace'] for r in res]}")
    # corrupted traces of a healthy run
    good = R.run_sequence("classic_sig", ("valid", "trunc"), R.seq_seed(ctx.seed, "classic_sig", ("valid", "trunc"), 7))
    variants = {"control": copy.deepcopy(good)}
    v = copy.deepcopy(good)
    v["trace"][-1]["ok"] = False
    variants["probe-unanswered"] = v
    v = copy.deepcopy(good)
    del v["trace"][1]
    variants["done-event-dropped"] = v
    v = copy.deepcopy(good)
    [e for e in v["trace"] if e["e"] == "alive"][0]["conn"] = False
    variants["link-lost"] = v
    v = copy.deepcopy(good)
    [e for e in v["trace"] if e["e"] == "done"][0]["steps"] = R.STEP_BUDGET + 1
    variants["over-step-budget"] = v
    v = copy.deepcopy(good)
    v["trace"][0]["cls"] = "no_such_class"
    variants["unknown-class"] = v
    v = copy.deepcopy(good)
    v["trace"] = v["trace"][:-1]
    variants["probe-reply-missing"] = v
    names = list(variants)
    r2 = core.Report(rep.prop, rep.level)
    rejected = validate(ctx, r2, [variants[n] for n in names], 4)
    rejected_ids = {id(r) for r, _ in rejected}
    for n in names:
        rej = id(variants[n]) in rejected_ids
        results["trace:" + n] = "rejected" if rej else "accepted"
        if n == "control" and rej:
            rep.violation("selftest:control-trace-rejected", f"binding self-test: the unmodified trace of a healthy run was rejected: {good['trace']}")
        if n != "control" and not rej:
            rep.violation(f"selftest:trace-{n}", f"binding self-test: corrupted trace ({n}) was accepted")
    print("selftest:", results)
