"""C17 binding self-test: real stacks whose victim side is wrapped so that it misbehaves in a documented way
(and recorded traces with one field corrupted) must be flagged by the same machinery the check uses."""
from __future__ import annotations

import copy

from bumble import att, hfp, rfcomm, smp

from lib import c17_rigs as rigs
from lib import c17_run as R
from lib import core


def _wrap_att(rig_self, fn):
    mgr = rig_self.victim.l2cap_channel_manager
    orig = mgr.fixed_channels[att.ATT_CID]
    mgr.fixed_channels[att.ATT_CID] = lambda handle, pdu: fn(orig, handle, pdu)


class WedgedAtt(rigs.AttRig):
    """after the first malformed (empty) PDU the ATT bearer ignores everything (a wedged reader)"""

    async def open_channel(self):
        dead = []

        def handler(orig, handle, pdu):
            if dead:
                return
            if not pdu:
                dead.append(1)
            orig(handle, pdu)

        _wrap_att(self, handler)


class BusyAtt(rigs.AttRig):
    """an empty PDU starts a callback that reschedules itself for ever (busy loop across callbacks)"""

    async def open_channel(self):
        import asyncio

        def spin():
            asyncio.get_running_loop().call_soon(spin)

        def handler(orig, handle, pdu):
            if not pdu:
                spin()
            orig(handle, pdu)

        _wrap_att(self, handler)


class SpinAtt(rigs.AttRig):
    """an empty PDU is handled by a loop that never ends (busy loop inside one callback)"""

    async def open_channel(self):
        def handler(orig, handle, pdu):
            while not pdu:
                pass
            orig(handle, pdu)

        _wrap_att(self, handler)


class RecursiveAtt(rigs.AttRig):
    """an empty PDU sends a parser into unbounded recursion; the RecursionError is caught and logged"""

    async def open_channel(self):
        def descend(n):
            return descend(n + 1) + 1

        def handler(orig, handle, pdu):
            if not pdu:
                try:
                    descend(0)
                except RecursionError:
                    return
            orig(handle, pdu)

        _wrap_att(self, handler)


class DroppingAtt(rigs.AttRig):
    """a malformed (empty) PDU makes the device forget the connection"""

    async def open_channel(self):
        def handler(orig, handle, pdu):
            if not pdu:
                self.victim.connections.pop(self.vhandle, None)
            orig(handle, pdu)

        _wrap_att(self, handler)


class ParseBeforeConsumeAg(hfp.AgProtocol):
    """AgProtocol whose reader parses the head of the buffer before removing it (the shape of the defect C17-1)"""

    def _read_at(self, data: bytes):
        self.read_buffer.extend(data)
        while self.read_buffer:
            trailer = self.read_buffer.find(b"\r")
            if trailer == -1:
                return
            hfp.AtCommand.parse_from(self.read_buffer[:trailer])  # a malformed line raises here and stays in the buffer
            line = bytes(self.read_buffer[: trailer + 1])
            rest = bytearray(self.read_buffer[trailer + 1 :])
            self.read_buffer = bytearray()
            try:
                super()._read_at(line)  # the real handling of that one line
            finally:
                self.read_buffer = rest


class OldReaderAgRig(rigs.HfpAgRig):
    def on_victim_dlc(self, dlc):
        self.victim_dlcs.append(dlc)
        self.ag = ParseBeforeConsumeAg(dlc, rigs.ag_configuration())


class DeadSession(smp.Session):
    """a Security Manager session that stops handling commands once one of its handlers has raised (it answered Pairing
    Failed: the wire looks right), and stays on record for the connection: the shape of a containment branch that leaves
    the session unusable"""

    def on_smp_command(self, command):
        if getattr(self, "dead", False):
            return
        super().on_smp_command(command)

    def send_command(self, command):
        super().send_command(command)
        if isinstance(command, smp.SMP_Pairing_Failed_Command) and command.reason == smp.ErrorCode.UNSPECIFIED_REASON:
            self.dead = True


class DeadSessionSmpRig(rigs.SmpRig):
    def prepare_victim(self):
        super().prepare_victim()
        self.victim.smp_manager.session_proxy = DeadSession


class SpinningDlc(rfcomm.DLC):
    """a DLC whose transmit loop makes no progress when the negotiated frame size is 0 (tx_buffer[:0] sends nothing, no
    credit is spent): a busy loop inside the handling of one frame"""

    def process_tx(self):
        while self.tx_buffer and self.tx_credits > 0 and self.mtu == 0:
            self.send_frame(rfcomm.RFCOMM_Frame.uih(c_r=self.c_r, dlci=self.dlci, information=b""))
        super().process_tx()


class SpinningDlcRig(rigs.RfcommRig):
    def prepare_victim(self):
        super().prepare_victim()
        rfcomm.DLC = SpinningDlc  # Multiplexer.on_mcc_pn builds its DLCs from the module attribute; restored by run()


def _variant(channel, cls, label):
    import random

    labels = [l for l, _, _ in rigs.RIGS[channel](random.Random(0)).instances(cls)]
    if label not in labels:
        raise rigs.RigError(f"self-test: {channel}/{cls} has no instance {label}")
    return labels.index(label)


class StuckAssemblerCoc(rigs.LeCocRig):
    """the victim's LE credit based channel stops delivering SDUs once it has seen an SDU longer than its MTU (assembler
    stuck mid-message), and stays connected"""

    def prepare_victim(self):
        from bumble import l2cap

        self.victim_channels = []

        def on_channel(ch):
            self.victim_channels.append(ch)
            stuck = []

            def sink(sdu):
                if len(sdu) > self.MTU:
                    stuck.append(1)
                if not stuck:
                    ch.write(b"echo:" + sdu)

            ch.sink = sink

        self.victim.create_l2cap_server(l2cap.LeCreditBasedChannelSpec(psm=self.PSM, mtu=self.MTU, mps=self.MPS, max_credits=64), on_channel)


SHIMS = [
    # name, rig, channel, sequences, event at which the trace must be rejected
    ("wedged-reader", WedgedAtt, "att", [("empty",), ("empty", "valid")], "probe_ok"),
    ("busy-loop-callbacks", BusyAtt, "att", [("empty",)], "done"),
    ("busy-loop-inline", SpinAtt, "att", [("empty",)], "done"),
    ("swallowed-recursion", RecursiveAtt, "att", [("empty",)], "done"),
    ("connection-dropped", DroppingAtt, "att", [("empty",)], "alive"),
    ("coc-assembler-stuck-after-sdu-over-mtu", StuckAssemblerCoc, "le_coc", [("coc_sdu_over_mtu",), ("coc_sdu_over_mtu", "coc_sdu_over_mtu")], "probe_ok"),
    ("ag-parse-before-consume", OldReaderAgRig, "hfp_ag", [("at_unknown",), ("at_paren",), ("at_nonutf8",)], "probe_ok"),
    # the enumerated classes: one named instance each (sequence, variants)
    ("smp-session-dead-after-contained-exception", DeadSessionSmpRig, "smp",
     [(("out_of_phase",), lambda: [_variant("smp", "out_of_phase", "dhkey_check:zeros")]),
      (("advance", "out_of_phase"), lambda: [0, _variant("smp", "out_of_phase", "dhkey_check:random")])], "probe_ok"),
    ("rfcomm-frame-size-0-spins", SpinningDlcRig, "rfcomm",
     [(("extreme",), lambda: [_variant("rfcomm", "extreme", "PN.max_frame_size=0")])], "done"),
]


def _healthy(r):
    # (a control run that itself fails its probe on the tree under test is rightly rejected)
    return r["trace"][-1]["e"] == "probe_ok" and r["trace"][-1]["ok"]


def run(ctx, rep, validate):
    results = {}
    for name, factory, channel, seqs, where in SHIMS:
        real_dlc = rfcomm.DLC
        try:
            res = []
            for s in seqs:
                s, variants = (s[0], s[1]()) if s and isinstance(s[0], tuple) else (s, None)
                res.append(R.run_sequence(channel, s, R.seq_seed(ctx.seed, channel, s, 7), rig_factory=factory, variants=variants))
        finally:
            rfcomm.DLC = real_dlc
        r2 = core.Report(rep.prop, rep.level)
        rejected = validate(ctx, r2, res, 4)
        hits = [r for r, v in rejected if 0 < v[1] <= len(r["trace"]) and r["trace"][v[1] - 1]["e"] == where]
        results[name] = f"{len(hits)}/{len(res)} rejected at {where}"
        if not hits:
            rep.violation(f"selftest:{name}", f"binding self-test: shim {name} ({factory.__doc__}) was not detected: {[r['trace'] for r in res]}")
    # corrupted traces of a healthy run
    good = R.run_sequence("classic_sig", ("valid", "trunc"), R.seq_seed(ctx.seed, "classic_sig", ("valid", "trunc"), 7))
    variants = {"control": copy.deepcopy(good)}
    v = copy.deepcopy(good)
    v["trace"][-1]["ok"] = False
    variants["probe-unanswered"] = v
    v = copy.deepcopy(good)
    del v["trace"][1]
    variants["done-event-dropped"] = v
    v = copy.deepcopy(good)
    [e for e in v["trace"] if e["e"] == "alive"][0]["conn"] = False
    variants["link-lost"] = v
    v = copy.deepcopy(good)
    [e for e in v["trace"] if e["e"] == "done"][0]["steps"] = R.STEP_BUDGET + 1
    variants["over-step-budget"] = v
    v = copy.deepcopy(good)
    v["trace"][0]["cls"] = "no_such_class"
    variants["unknown-class"] = v
    v = copy.deepcopy(good)
    v["trace"] = v["trace"][:-1]
    variants["probe-reply-missing"] = v
    # a transaction of the peer left open: the reference request must not be made before it is abandoned
    txn = R.run_sequence("att", ("advance",), R.seq_seed(ctx.seed, "att", ("advance",), 7), variants=[0])
    if [e["e"] for e in txn["trace"]].count("abandon") != 1:
        raise rigs.RigError(f"self-test: the trace of att/(advance) has no abandon event: {txn['trace']}")
    variants["control-transaction"] = copy.deepcopy(txn)
    v = copy.deepcopy(txn)
    v["trace"] = [e for e in v["trace"] if e["e"] != "abandon"]
    variants["probe-inside-open-transaction"] = v
    v = copy.deepcopy(txn)
    v["trace"][0]["txn"] = False
    variants["advance-not-a-transaction-step"] = v
    # an LE credit based channel the victim left open after complete SDUs only: the reference request is owed on it
    coc = R.run_sequence("le_coc", ("coc_sdu_over_mtu",), R.seq_seed(ctx.seed, "le_coc", ("coc_sdu_over_mtu",), 7))
    if [e["e"] for e in coc["trace"]] != ["inject", "done", "alive", "probe", "probe_ok"]:
        raise rigs.RigError(f"self-test: unexpected trace of le_coc/(coc_sdu_over_mtu): {coc['trace']}")
    variants["control-same-channel"] = copy.deepcopy(coc)
    v = copy.deepcopy(coc)
    v["trace"].insert(3, R.ev("reopen", ok=True))
    variants["probe-moved-to-fresh-channel-without-cause"] = v
    names = list(variants)
    r2 = core.Report(rep.prop, rep.level)
    rejected = validate(ctx, r2, [variants[n] for n in names], 4)
    rejected_ids = {id(r) for r, _ in rejected}
    for n in names:
        rej = id(variants[n]) in rejected_ids
        results["trace:" + n] = "rejected" if rej else "accepted"
        if n.startswith("control") and rej and (n == "control" or _healthy(variants[n])):
            rep.violation("selftest:control-trace-rejected", f"binding self-test: the unmodified trace of a healthy run was rejected: {variants[n]['trace']}")
        if not n.startswith("control") and not rej:
            rep.violation(f"selftest:trace-{n}", f"binding self-test: corrupted trace ({n}) was accepted")
    print("selftest:", results)
