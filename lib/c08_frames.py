"""C08: the harness' own reading of L2CAP frames, written from the Core specification
(Vol 3, Part A), independent of bumble.l2cap.

  3.1   B-frame      : Length(2, LE) | CID(2, LE) | Information payload
  3.3   S-/I-frame   : Length | CID | Control(2) | [SDU length(2), only SAR=start] | payload | [FCS(2)]
  3.3.2 Enhanced control field (16 bit, little endian, bit 0 = least significant bit of first octet)
          I-frame : bit0 = 0 | TxSeq bits 1..6 | F bit 7 | ReqSeq bits 8..13 | SAR bits 14..15
          S-frame : bit0 = 1 | bit1 = 0 | S bits 2..3 | P bit 4 | bits 5..6 = 0 | F bit 7 | ReqSeq bits 8..13 | bits 14..15 = 0
          SAR 00 unsegmented, 01 start, 10 end, 11 continuation;  S 00 RR, 01 REJ, 10 RNR, 11 SREJ
  3.3.5 FCS: CRC-16, g(D) = D^16 + D^15 + D^2 + 1, register initialised to 0, bits fed LSB first,
        over the basic header, control, SDU length and payload; transmitted low octet first.
  4     Signalling C-frames on CID 0x0001: Code(1) | Identifier(1) | Length(2) | data
  5     Configuration options: Type(1) | Length(1) | data; MTU 0x01, RFC 0x04
        (mode, TxWindow, MaxTransmit, RetransmissionTimeout(2), MonitorTimeout(2), MPS(2)), FCS 0x05.

HCI ACL data packet (Vol 4, Part E, 5.4.2): 0x02 | handle(12) PB(2) BC(2) | length(2) | data.
PB 00 / 10 = first fragment of an L2CAP PDU, 01 = continuing fragment.
"""
from __future__ import annotations

SAR_NAMES = {0: "U", 1: "S", 2: "E", 3: "C"}
SFN_NAMES = {0: "RR", 1: "REJ", 2: "RNR", 3: "SREJ"}

SIG_CONN_REQ, SIG_CONN_RSP, SIG_CONF_REQ, SIG_CONF_RSP, SIG_DISC_REQ, SIG_DISC_RSP = 2, 3, 4, 5, 6, 7
SIG_REJECT = 1


def _crc_table():
    tab = []
    for b in range(256):
        r = b
        for _ in range(8):
            r = (r >> 1) ^ 0xA001 if r & 1 else r >> 1
        tab.append(r)
    return tab


_TAB = _crc_table()


def crc16(data: bytes) -> int:
    """LFSR of Figure 3.5: x^16 + x^15 + x^2 + 1, LSB first, initial value 0."""
    r = 0
    for b in data:
        r = (r >> 8) ^ _TAB[(r ^ b) & 0xFF]
    return r


# Known answers printed in the Core specification (3.3.5): I-frame and RR S-frame examples.
assert crc16(bytes.fromhex("0E00400002000001020304050607080 9".replace(" ", ""))) == 0x6138
assert crc16(bytes.fromhex("040040000101")) == 0x14D4


class AclReassembler:
    """Recombination of HCI ACL data packets into L2CAP PDUs, per connection handle."""

    def __init__(self):
        self.buf = {}
        self.errors = []

    def feed(self, packet: bytes):
        """packet: H4 framed HCI packet.  Returns a list of (handle, pdu bytes incl. basic header)."""
        if not packet or packet[0] != 0x02:
            return []
        if len(packet) < 5:
            self.errors.append("short ACL packet")
            return []
        hf = packet[1] | (packet[2] << 8)
        handle = hf & 0x0FFF
        pb = (hf >> 12) & 0x3
        n = packet[3] | (packet[4] << 8)
        data = packet[5:]
        if len(data) != n:
            self.errors.append(f"ACL length field {n} but {len(data)} octets")
        out = []
        if pb in (0, 2):
            if self.buf.get(handle):
                self.errors.append("start fragment while a PDU is incomplete")
            self.buf[handle] = bytearray(data)
        elif pb == 1:
            if handle not in self.buf or self.buf[handle] is None:
                self.errors.append("continuation fragment without start")
                return []
            self.buf[handle] += data
        else:
            self.errors.append("reserved PB flag")
            return []
        b = self.buf[handle]
        if len(b) >= 4:
            want = (b[0] | (b[1] << 8)) + 4
            if len(b) == want:
                out.append((handle, bytes(b)))
                self.buf[handle] = None
            elif len(b) > want:
                self.errors.append("more octets than the L2CAP length field announces")
                self.buf[handle] = None
        return out


def split_pdu(pdu: bytes):
    """-> (cid, payload, header)"""
    n = pdu[0] | (pdu[1] << 8)
    cid = pdu[2] | (pdu[3] << 8)
    return cid, pdu[4 : 4 + n], pdu[:4]


# ----------------------------------------------------------------------------- signalling
def parse_options(data: bytes):
    """Configuration parameter options -> dict(mtu, rfc{...}, fcs, other[])."""
    res = {"mtu": None, "rfc": None, "fcs": None, "other": []}
    i = 0
    while i + 2 <= len(data):
        t, n = data[i], data[i + 1]
        v = data[i + 2 : i + 2 + n]
        i += 2 + n
        t7 = t & 0x7F
        if t7 == 0x01 and n == 2:
            res["mtu"] = v[0] | (v[1] << 8)
        elif t7 == 0x04 and n == 9:
            res["rfc"] = {
                "mode": v[0],
                "txwin": v[1],
                "maxtx": v[2],
                "rtx_to": v[3] | (v[4] << 8),
                "mon_to": v[5] | (v[6] << 8),
                "mps": v[7] | (v[8] << 8),
            }
        elif t7 == 0x05 and n == 1:
            res["fcs"] = v[0]
        else:
            res["other"].append((t, v.hex()))
    return res


def parse_signalling(payload: bytes):
    """All commands in one C-frame -> list of dicts."""
    cmds = []
    i = 0
    while i + 4 <= len(payload):
        code, ident = payload[i], payload[i + 1]
        n = payload[i + 2] | (payload[i + 3] << 8)
        d = payload[i + 4 : i + 4 + n]
        i += 4 + n
        c = {"code": code, "id": ident}

        def u16(k):
            return d[k] | (d[k + 1] << 8) if len(d) >= k + 2 else -1

        if code == SIG_CONN_REQ:
            c.update(psm=u16(0), scid=u16(2))
        elif code == SIG_CONN_RSP:
            c.update(dcid=u16(0), scid=u16(2), result=u16(4), status=u16(6))
        elif code == SIG_CONF_REQ:
            c.update(dcid=u16(0), flags=u16(2), options=parse_options(d[4:]))
        elif code == SIG_CONF_RSP:
            c.update(scid=u16(0), flags=u16(2), result=u16(4), options=parse_options(d[6:]))
        elif code in (SIG_DISC_REQ, SIG_DISC_RSP):
            c.update(dcid=u16(0), scid=u16(2))
        elif code == SIG_REJECT:
            c.update(reason=u16(0))
        cmds.append(c)
    return cmds


# ----------------------------------------------------------------------------- data frames
def parse_data_frame(pdu: bytes, ertm: bool, fcs: bool):
    """pdu = complete L2CAP PDU including the basic header.
    -> dict(k = 'I' | 'S' | 'B' | 'bad', ...).  `why` names what is malformed."""
    cid, payload, header = split_pdu(pdu)
    fr = {"cid": cid, "fcs_ok": True}
    body = payload
    if fcs:
        if len(body) < 2:
            return {"k": "bad", "why": "fcs-missing", "cid": cid}
        got = body[-2] | (body[-1] << 8)
        body = body[:-2]
        if got != crc16(header + body):
            fr["fcs_ok"] = False
    if not ertm:
        fr.update(k="B", len=len(body), data=body)
        if not fr["fcs_ok"]:
            fr.update(k="bad", why="fcs-wrong")
        return fr
    if len(body) < 2:
        return {"k": "bad", "why": "no-control-field", "cid": cid}
    ctl = body[0] | (body[1] << 8)
    body = body[2:]
    fr["f"] = (ctl >> 7) & 1
    fr["req"] = (ctl >> 8) & 0x3F
    if ctl & 1:
        fr.update(k="S", s=(ctl >> 2) & 3, p=(ctl >> 4) & 1, rsv=(ctl & 0xC062) != 0, len=len(body))
        if body:
            fr.update(k="bad", why="s-frame-with-payload")
    else:
        sar = (ctl >> 14) & 3
        fr.update(k="I", tx=(ctl >> 1) & 0x3F, sar=sar, sdulen=0)
        if sar == 1:
            if len(body) < 2:
                return {"k": "bad", "why": "start-without-sdu-length", "cid": cid}
            fr["sdulen"] = body[0] | (body[1] << 8)
            body = body[2:]
        fr.update(len=len(body), data=body)
    if not fr["fcs_ok"]:
        fr.update(k="bad", why="fcs-wrong")
    return fr
