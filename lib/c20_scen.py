"""C20 RFCOMM scenarios on two real devices (classic link): bumble's real rfcomm.Client / Server / Multiplexer / DLC on both
ends, observed at the HCI boundary of both hosts (lib.c20_wire) and at the public API (open_dlc / disconnect / write /
sink / state attributes).  One scenario = a script of API operations; after every operation the virtual-time loop runs
until nothing moves any more and the states of both ends are logged.

Side 0 = the RFCOMM initiator (Client), side 1 = the responder (Server).

scenario = dict(
    seed, hci_delay, acl_len, acl_bufs, client_dev (which rig device is the RFCOMM client), central (which device creates
    the ACL connection), l2mtu=[client, server],
    chans=[dict(ch=<server channel>, cmfs, ck, smfs, sk)],       # what the client proposes / the server listens with
    script=[["open", i] | ["refused", ch] | ["xfer", {i: [plan0, plan1]}] | ["close", [[i, side], ...]] | ["mux_close", side]
            | ["shutdown"]])                                     # plan = [[delay, size], ...] writes of side 0 / side 1
"""
from __future__ import annotations

import asyncio
import random

from lib import c20_wire, rig, vt

OP_TIMEOUT = 120.0


def _cls_mux(st):
    n = getattr(st, "name", str(st))
    return {"INIT": "init", "CONNECTING": "busy", "CONNECTED": "open", "OPENING": "busy", "DISCONNECTING": "busy",
            "DISCONNECTED": "closed", "RESET": "closed"}.get(n, n)


def _cls_dlc(st):
    n = getattr(st, "name", str(st))
    return {"INIT": "busy", "CONNECTING": "busy", "CONNECTED": "open", "DISCONNECTING": "busy", "DISCONNECTED": "closed",
            "RESET": "closed"}.get(n, n)


class Run:
    def __init__(self, sc, dlc_patch=None):
        self.sc = sc
        self.rec = c20_wire.Recorder()
        self.dlc_patch = dlc_patch
        self.mux = [None, None]
        self.dlcs = [{}, {}]  # side -> chan index -> DLC object (the latest instance)
        self.pending = []
        self.info = {}
        self.activity = 0  # HCI packets seen at either host boundary
        self.harness_errors = []
        self.deferred = {}

    def guard(self, fn):
        """observer code runs inside bumble's call stacks, which may catch and log what it raises: a bug of the harness must
        not disappear there - it is remembered and raised after the run (exit 2, never a verdict)"""
        def g(*a, **kw):
            try:
                return fn(*a, **kw)
            except Exception as e:
                self.harness_errors.append(f"{type(e).__name__}: {e}")
                raise

        return g

    # --- observation
    def _tap(self, net):
        sc, rec = self.sc, self.rec
        for i, st in enumerate(net.stacks):
            side = 0 if i == sc["client_dev"] else 1
            prev = st.tap.record

            def record(direction, packet, prev=prev):  # every HCI packet in either direction counts as activity
                self.activity += 1
                if prev:
                    prev(direction, packet)

            st.tap.record = record

            def out_done(slot, cid, payload, side=side):
                if cid == 0x0001:
                    for _dcid, mtu in c20_wire.config_mtu(payload):
                        rec.l2mtu[side] = mtu if mtu is not None else 672
                elif cid >= 0x0040:
                    rec.frame(side, "tx", payload, slot)

            def inbound(cid, payload, side=side):
                if cid >= 0x0040:
                    rec.frame(1 - side, "rx", payload)

            c20_wire.L2capTap(st, self.guard(rec.reserve), self.guard(out_done), self.guard(inbound))

    def _wrap_dlc(self, side, i, dlc):
        rec = self.rec
        self.dlcs[side][i] = dlc
        lk = rec.cur.get(dlc.dlci)
        if lk is None:
            raise RuntimeError("harness: a DLC object exists whose PN exchange was not seen on the wire")

        def sink(data, side=side, lk=lk):
            rec.sink(side, lk, bytes(data))

        if self.sc.get("late_sink") == side:
            # the application of this side installs its sinks later (script operation "attach"): what arrives in
            # the meantime is the link's own early data and must come out of this link's sink, in order
            self.deferred[(i, side)] = (dlc, self.guard(sink))
        else:
            dlc.sink = self.guard(sink)
        if self.dlc_patch:  # binding self-test: a documented misbehaviour wrapped around the real object
            self.dlc_patch(side, dlc)

    def snapshot(self):
        mux, opened, listed, busy = ["init", "init"], [[], []], [[], []], [[], []]
        for s in (0, 1):
            m = self.mux[s]
            if m is None:
                continue
            mux[s] = _cls_mux(m.state)
            for dlci, d in m.dlcs.items():
                listed[s].append(dlci)
                c = _cls_dlc(d.state)
                if c == "open":
                    opened[s].append(dlci)
                elif c == "busy":
                    busy[s].append(dlci)
        self.rec.state(mux, opened, listed, busy)

    async def settle(self):
        """run until the log stops growing (nothing moves on either host); everything is virtual time"""
        quiet = 0
        last = -1
        for _ in range(5000):
            await asyncio.sleep(1.0)  # longer than any single hop delay of the rig (<= 0.6 s)
            n = self.activity
            quiet = quiet + 1 if n == last else 0
            last = n
            if quiet >= 3:
                return
        raise RuntimeError("harness: the scenario never settles (traffic for 5000 virtual seconds)")

    async def call(self, side, op, dlci, coro):
        name = f"{op}:{side}:{dlci}"
        self.pending.append(name)
        try:
            r = await asyncio.wait_for(coro, OP_TIMEOUT)
            out = "ok"
        except asyncio.TimeoutError:
            r, out = None, "timeout"
        except Exception as e:  # the API's way of reporting failure
            r, out = None, ("refused" if type(e).__name__ == "ConnectionError" else type(e).__name__)
        self.pending.remove(name)
        self.rec.api(side, op, dlci, out)
        return r, out

    # --- the scenario
    async def main(self):
        from bumble import rfcomm

        sc = self.sc
        rng = random.Random(sc["seed"])
        net = rig.Net(2, seed=sc["seed"], max_delay=sc.get("hci_delay", 0.0),
                      controller_cfg={"acl_data_packet_length": sc.get("acl_len", 27), "total_num_acl_data_packets": sc.get("acl_bufs", 64)})
        rig.enable_classic(net)
        cdev, sdev = sc["client_dev"], 1 - sc["client_dev"]
        server = rfcomm.Server(net[sdev], l2cap_mtu=sc["l2mtu"][1])
        server.on(server.EVENT_START, lambda m: self.mux.__setitem__(1, m))
        for i, ch in enumerate(sc["chans"]):
            got = server.listen(self.guard(lambda dlc, i=i: self._wrap_dlc(1, i, dlc)), channel=ch["ch"], max_frame_size=ch["smfs"], initial_credits=ch["sk"])
            if got != ch["ch"]:
                raise RuntimeError("harness: listen() did not return the requested channel")
        await net.power_on()
        central = sc.get("central", 0)
        conns = await net.connect_classic(central, 1 - central)
        conn = conns[0] if central == cdev else conns[1]
        self._tap(net)
        client = rfcomm.Client(conn, l2cap_mtu=sc["l2mtu"][0])
        mux, out = await self.call(0, "start", 0, client.start())
        if out != "ok":
            raise RuntimeError(f"harness: the multiplexer session could not be started: {out}")
        self.mux[0] = mux
        await self.settle()
        self.snapshot()
        for op in sc["script"]:
            kind = op[0]
            if kind == "open":
                i = op[1]
                ch = sc["chans"][i]
                dlc, out = await self.call(0, "open", ch["ch"] << 1, mux.open_dlc(ch["ch"], max_frame_size=ch["cmfs"], initial_credits=ch["ck"]))
                if dlc is not None:
                    self._wrap_dlc(0, i, dlc)
            elif kind == "refused":
                await self.call(0, "open", op[1] << 1, mux.open_dlc(op[1]))
            elif kind == "xfer":
                tasks = []
                for i, plans in op[1].items():
                    i = int(i)
                    for side in (0, 1):
                        dlc = self.dlcs[side].get(i)
                        if dlc is None or not plans[side]:
                            continue
                        tasks.append(asyncio.ensure_future(self.writer(side, dlc, plans[side], random.Random(rng.getrandbits(32)))))
                if tasks:
                    await asyncio.gather(*tasks)
            elif kind == "close":
                cs = []
                for i, side in op[1]:
                    dlc = self.dlcs[side].get(i)
                    if dlc is None:
                        continue
                    cs.append(self.call(side, "close", dlc.dlci, dlc.disconnect()))
                if cs:
                    await asyncio.gather(*cs)
            elif kind == "attach":
                for i, side in op[1]:
                    if (i, side) in self.deferred:
                        dlc, fn = self.deferred.pop((i, side))
                        dlc.sink = fn
            elif kind == "mux_close":
                m = self.mux[op[1]]
                await self.call(op[1], "mux_close", 0, m.disconnect())
            elif kind == "shutdown":
                await self.call(0, "shutdown", 0, client.shutdown())
            else:
                raise RuntimeError(f"harness: unknown script operation {op}")
            await self.settle()
            self.snapshot()
        self.rec.quiesce(self.pending)
        self.info = {"l2mtu": self.rec.l2mtu, "links": [{"dlci": lk.dlci, "pn": lk.pn, "frames": lk.frames, "bytes": [len(lk.stream[0]), len(lk.stream[1])],
                                                          "mtu": [getattr(self._obj(s, lk), "mtu", None) for s in (0, 1)]} for lk in self.rec.links]}

    def _obj(self, side, lk):
        for d in self.dlcs[side].values():
            if d.dlci == lk.dlci:
                return d
        return None

    async def writer(self, side, dlc, plan, rng):
        for delay, size in plan:
            if delay:
                await asyncio.sleep(delay)
            data = rng.randbytes(size)
            self.rec.write(side, dlc.dlci, data)
            try:
                dlc.write(data)
            except Exception as e:
                self.rec.raised(side, f"write({size}) raised {type(e).__name__}: {e}", dlc.dlci)


def run_scenario(sc, dlc_patch=None):
    r = Run(sc, dlc_patch)
    loop = vt.new_loop()
    errors = []

    def handler(loop, context):
        e = context.get("exception")
        errors.append(f"{type(e).__name__ if e else 'error'}: {context.get('message')}")

    loop.set_exception_handler(handler)
    try:
        vt.run(r.main(), loop=loop)
    finally:
        vt.close_loop(loop)
    r.loop_errors = errors
    if r.harness_errors:
        raise RuntimeError(f"harness: observer code raised inside the stack: {r.harness_errors[:3]}")
    return r
