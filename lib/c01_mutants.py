"""Acceptance mutants (DESIGN Appendix C) for C01 / C18: apply one source change at a time to the scratch worktree
(with the proposed fixes applied), run the quick-tier binding of the driver against it (the model-checking phase does
not depend on the tree and is skipped), print the violation signatures.  Usage: /venv/bin/python -B lib/c01_mutants.py C01|C18 [mutant name ...] [--full]   (needs the scratch worktrees /tmp/wt-c01, /tmp/wt-c18: git -C /repo worktree add /tmp/wt-c01 HEAD)"""
import json
import os
import subprocess
import sys
import time

WT = os.environ.get("MUT_WT") or ("/tmp/wt-c01" if (len(sys.argv) > 1 and sys.argv[1] == "C01") else "/tmp/wt-c18")
MUTANTS = {
    "C01": [
        ("parse-u24-pad-ff", "bumble/hci.py", "                padded = data[offset : offset + 3] + bytes([0])\n", "                padded = data[offset : offset + 3] + bytes([0xFF])\n"),
        ("serialize-s16-as-u16", "bumble/hci.py", "                return struct.pack('<h', field_value)\n", "                return struct.pack('<H', field_value)\n"),
        ("v-parse-length-plus-2", "bumble/hci.py", "                return (field_value, field_length + 1)\n", "                return (field_value, field_length + 2)\n"),
        ("acl-bc-flag-shift-13", "bumble/hci.py", "        h = (self.pb_flag << 12) | (self.bc_flag << 14) | self.connection_handle\n", "        h = (self.pb_flag << 12) | (self.bc_flag << 13) | self.connection_handle\n"),
        ("generic-command-drops-parameters", "bumble/hci.py", "            return HCI_Command(parameters, op_code=op_code)\n", "            return HCI_Command(b'', op_code=op_code)\n"),
        ("group-count-from-last-subfield", "bumble/hci.py", "                item_count = len(hci_object[object_field[0][0]])\n", "                item_count = len(hci_object[object_field[-1][0]])\n"),
    ],
    "C18": [
        ("iframe-sar-shift-7", "bumble/l2cap.py", "                self.req_seq | (self.sar << 6),\n", "                self.req_seq | (self.sar << 7),\n"),
        ("psm-mask-ff", "bumble/l2cap.py", "        serialized = struct.pack('<H', psm & 0xFFFF)\n", "        serialized = struct.pack('<H', psm & 0xFF)\n"),
        ("sdp-size-index-6-below-ffff", "bumble/sdp.py", "                elif size <= 0xFFFF:\n                    size_index = 6\n", "                elif size < 0xFFFF:\n                    size_index = 6\n"),
        ("rfcomm-length-gt-7e", "bumble/rfcomm.py", "        if length > 0x7F:\n            # 2-byte length indicator\n            self.length", "        if length > 0x7E:\n            # 2-byte length indicator\n            self.length"),
        ("rfcomm-fcs-3-bytes-for-uih", "bumble/rfcomm.py", "        if frame_type == FrameType.UIH:\n            self.fcs = compute_fcs(bytes([self.address, self.control]))\n",
         "        if frame_type == FrameType.UIH:\n            self.fcs = compute_fcs(bytes([self.address, self.control]) + self.length)\n"),
        ("avdtp-start-packet-count-off-by-one", "bumble/avdtp.py", "                packet_count = (\n                    max_fragment_size - 1 + len(payload)\n                ) // max_fragment_size\n",
         "                packet_count = (\n                    max_fragment_size + len(payload)\n                ) // max_fragment_size\n"),
        ("ad-length-byte", "bumble/core.py", "            [bytes([len(x[1]) + 1, x[0]]) + x[1] for x in self.ad_structures]\n", "            [bytes([len(x[1]), x[0]]) + x[1] for x in self.ad_structures]\n"),
        ("smp-field-width", "bumble/smp.py", None, None),  # filled below: one 16-byte field declared as 8
        ("att-set-of-handles-step-1", "bumble/att.py", "                        for i in range(offset, len(data), 2)\n", "                        for i in range(offset, len(data), 1)\n"),
    ],
}


def sh(*a, **k):
    return subprocess.run(a, capture_output=True, text=True, **k)


def reset():
    sh("git", "-C", WT, "checkout", "--", ".")
    for f in sorted(os.listdir("/verif/proposed_fixes")):
        if f.endswith(".diff") and (f.startswith("C01-") or f.startswith("C18-")):
            r = sh("git", "-C", WT, "apply", os.path.join("/verif/proposed_fixes", f))
            assert r.returncode == 0, (f, r.stderr)


RUNNER = r'''
import sys, os, logging, json, importlib
sys.dont_write_bytecode = True
sys.path.insert(0, sys.argv[2]); sys.path.insert(0, "/verif")
logging.disable(logging.CRITICAL)
import bumble
assert bumble.__file__.startswith(sys.argv[2]), bumble.__file__
from lib import core
prop = sys.argv[1]
drv = importlib.import_module("drivers.c01_hcicodec" if prop == "C01" else "drivers.c18_pducodec")
drv.model_check = lambda ctx, rep: None
ctx = core.Ctx(prop, "quick", 0)
ctx.out = os.path.join("/verif/out", prop, "mut-" + os.path.basename(sys.argv[2])); os.makedirs(ctx.out, exist_ok=True)
rep = core.Report(prop, "model_checking")
only = sys.argv[3] if len(sys.argv) > 3 and sys.argv[3] != "-" else None
try:
    if only and prop == "C18":
        ex, rec, traces, metas, rel, custom = drv._exercise(ctx, rep, only_ns=only)
        drv._validate(ctx, rep, ex, rec, traces, metas)
    else:
        drv.run(ctx, rep)
    err = None
except Exception as e:
    err = f"{type(e).__name__}: {str(e)[:600]}"
print("RESULT " + json.dumps({"err": err, "sigs": [[v.sig, v.replay.get("more", 0)] for v in rep.violations]}))
'''


NS = {"iframe-sar-shift-7": "l2cap", "psm-mask-ff": "l2cap", "sdp-size-index-6-below-ffff": "sdp", "rfcomm-length-gt-7e": "rfcomm", "rfcomm-fcs-3-bytes-for-uih": "rfcomm",
      "avdtp-start-packet-count-off-by-one": "avdtp", "ad-length-byte": "gap", "smp-field-width": "smp", "att-set-of-handles-step-1": "att"}


def run(prop, only="-"):
    t = time.time()
    r = sh("/venv/bin/python", "-B", "-c", RUNNER, prop, WT, only, env=dict(os.environ, PYTHONHASHSEED="0"))
    line = [l for l in r.stdout.splitlines() if l.startswith("RESULT ")]
    if not line:
        return {"err": "runner crashed: " + (r.stderr or r.stdout)[-800:], "sigs": []}, time.time() - t
    return json.loads(line[0][7:]), time.time() - t


def main():
    prop = sys.argv[1]
    names = [a for a in sys.argv[2:] if not a.startswith("--")]
    muts = MUTANTS[prop]
    out = {}
    if not names or "baseline" in names:
        reset()
        res, dt = run(prop)
        print(f"== baseline (fixes applied): {dt:.0f}s err={res['err']} sigs={res['sigs']}", flush=True)
        out["baseline"] = res
    for name, path, old, new in muts:
        if names and name not in names:
            continue
        reset()
        p = os.path.join(WT, path)
        s = open(p).read()
        if name == "smp-field-width":
            old = "    confirm_value: bytes = field(metadata=metadata(16))\n"
            new = "    confirm_value: bytes = field(metadata=metadata(8))\n"
        if s.count(old) < 1:
            print(f"== {name}: PATTERN NOT FOUND", flush=True)
            continue
        open(p, "w").write(s.replace(old, new, 1))
        res, dt = run(prop, NS.get(name, "-") if "--full" not in sys.argv else "-")
        print(f"== {name}: {dt:.0f}s err={res['err']} caught={'yes' if res['sigs'] else 'NO'} sigs={res['sigs']}", flush=True)
        out[name] = res
    reset()
    with open(f"/verif/out/{prop}/mutants.json", "a") as f:
        f.write(json.dumps(out) + "\n")


if __name__ == "__main__":
    main()
