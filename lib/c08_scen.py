"""C08 scenario runner: two real bumble Devices on a BR/EDR link, one classic L2CAP channel,
everything observed at the HCI taps (own ACL reassembly + own L2CAP parser, lib/c08_frames.py),
at the channel sinks and through public channel attributes.  Produces the two traces that
ConfigTrace.tla (set-up) and ErtmTrace.tla (data) validate.

A scenario is a plain dict (JSON-able, so a violation's replay file holds it verbatim):
  modes [m1, m2] ("basic" | "ertm"), mtu, mps, win, fcs (pairs, side 1 = initiator, side 2 = server),
  delay (max per-hop delay of the order-preserving delay lines), seed, rtx / mon (timer values, seconds),
  ops: [["w", side, nbytes] | ["sleep", seconds]], echo: {"side": [sizes]} (the sink of `side` answers
  each SDU with an SDU of the next size), bufs (controller ACL buffers).
"""
from __future__ import annotations

import asyncio
import random

from lib import c08_frames as fr
from lib import rig, vt

FIELDS = dict(e="", s=0, k="", tx=0, req=0, sar="", len=0, sdulen=0, p=0, f=0, fn="", id=0, ok=0, why="",
              m="", mode="", fcs=0, res=0, st="", win=0, mps=0, mtu=0)


def E(**kw):
    d = dict(FIELDS)
    d.update(kw)
    return d


def O(s):
    return 3 - s


class _HostProxy:
    """Stands where the tap hands packets to the Host: lets the monitor see a packet just before
    the real Host processes it (the linearisation point of 'frame taken')."""

    def __init__(self, host, before):
        self._host = host
        self._before = before

    def on_packet(self, packet):
        self._before(packet)
        self._host.on_packet(packet)

    def __getattr__(self, name):
        return getattr(self._host, name)


class Monitor:
    def __init__(self, psm):
        self.psm = psm
        self.harness_errors = []  # exceptions of the harness' own callbacks (they run inside bumble's call stack)
        self.out = {1: fr.AclReassembler(), 2: fr.AclReassembler()}
        self.inn = {1: fr.AclReassembler(), 2: fr.AclReassembler()}
        self.lcid = {1: None, 2: None}
        self.confreq = {1: None, 2: None}  # last Configuration Request options sent by s
        self.cfg = []   # set-up trace (without the leading cfg event)
        self.data = []  # data trace (without the leading cfg event)
        self.sent = {1: [], 2: []}     # SDUs written by s
        self.cur = {1: [0, 0], 2: [0, 0]}  # segmentation cursor of s: [sdu index, offset]
        self.nin = {1: 0, 2: 0}
        self.nevents = 0
        self.other = []
        self.frames = {"I": 0, "S": 0, "B": 0, "bad": 0}
        self.maxtx = {1: -1, 2: -1}
        self.wrapped = {1: 0, 2: 0}
        self.polls = 0  # S-frames with P = 1 or F = 1 seen (timer activity)

    # ---- negotiated format, read from the air
    def fmt(self):
        c1, c2 = self.confreq[1], self.confreq[2]
        if not c1 or not c2:
            return None
        m = [3 if (c and c["rfc"] and c["rfc"]["mode"] == 3) else (0 if (not c["rfc"] or c["rfc"]["mode"] == 0) else c["rfc"]["mode"]) for c in (c1, c2)]
        ertm = m[0] == 3 and m[1] == 3
        fcs = any(c["fcs"] == 1 for c in (c1, c2))
        return ertm, fcs, m

    def data_cfg(self):
        ertm, fcs, m = self.fmt()

        def val(c, key, dflt):
            if key == "mtu":
                return c["mtu"] if c["mtu"] is not None else 672
            return c["rfc"][key] if c["rfc"] else dflt

        c = self.confreq
        return E(e="cfg", mode="ertm" if ertm else "basic",
                 win=[val(c[1], "txwin", 1), val(c[2], "txwin", 1)],
                 mps=[val(c[1], "mps", 65535), val(c[2], "mps", 65535)],
                 mtu=[val(c[1], "mtu", 672), val(c[2], "mtu", 672)], fcs=int(fcs))

    def guarded(self, fn):
        def g(*a):
            try:
                return fn(*a)
            except Exception as e:  # never let a harness bug look like stack behaviour: re-raised after the run
                import traceback

                self.harness_errors.append(traceback.format_exc())
        return g

    def log(self, which, ev):
        self.nevents += 1
        (self.cfg if which == "cfg" else self.data).append(ev)

    # ---- taps
    def on_h2c(self, s, packet):
        for _h, pdu in self.out[s].feed(packet):
            cid, payload, _ = fr.split_pdu(pdu)
            if cid == 1:
                for c in fr.parse_signalling(payload):
                    self._sig(s, "tx", c)
            elif cid >= 0x40 and self.lcid[O(s)] == cid:
                self._data_tx(s, pdu)
            else:
                self.other.append(("tx", s, cid, payload.hex()))

    def on_to_host(self, s, packet):
        for _h, pdu in self.inn[s].feed(packet):
            cid, payload, _ = fr.split_pdu(pdu)
            if cid == 1:
                for c in fr.parse_signalling(payload):
                    self._sig(s, "rx", c)
            elif cid >= 0x40 and self.lcid[s] == cid:
                self._data_rx(s, pdu)

    NAMES = {2: "ConnReq", 3: "ConnRsp", 4: "ConfReq", 5: "ConfRsp", 6: "DiscReq", 7: "DiscRsp", 1: "Reject"}

    def _sig(self, s, d, c):
        code = c["code"]
        if code not in self.NAMES:
            self.other.append((d, s, 1, c))
            return
        name = self.NAMES[code]
        if d == "tx":
            if code == 2:
                if c["psm"] != self.psm:
                    self.other.append((d, s, 1, c))
                    return
                self.lcid[s] = c["scid"]
            if code == 3 and c["result"] == 0:
                self.lcid[s] = c["dcid"]
        ev = E(e=d, s=s, m=name)
        if code == 4:
            o = c["options"]
            if d == "tx":
                self.confreq[s] = o
            rfc = o["rfc"]
            ev["mode"] = "basic" if (rfc is None or rfc["mode"] == 0) else ("ertm" if rfc["mode"] == 3 else f"mode{rfc['mode']}")
            ev["fcs"] = 1 if o["fcs"] == 1 else 0
        if code in (3, 5):
            ev["res"] = c["result"]
        self.log("cfg", ev)

    def _parse(self, pdu):
        f = self.fmt()
        if f is None:
            return {"k": "bad", "why": "data-before-configuration"}
        return fr.parse_data_frame(pdu, f[0], f[1])

    def _data_tx(self, s, pdu):
        p = self._parse(pdu)
        k = p["k"]
        self.frames[k] = self.frames.get(k, 0) + 1
        if k == "bad":
            self.log("data", E(e="bad", s=s, why=p["why"]))
            return
        if k == "S":
            if p["p"] or p["f"]:
                self.polls += 1
            self.log("data", E(e="sframe", s=s, k="S", fn=fr.SFN_NAMES[p["s"]], req=p["req"], p=p["p"], f=p["f"]))
            return
        # payload identity against what the application wrote
        i, off = self.cur[s]
        ok = 0
        if i < len(self.sent[s]):
            sdu = self.sent[s][i]
            ok = int(p["data"] == sdu[off : off + p["len"]] and off + p["len"] <= len(sdu))
            off += p["len"]
            if off >= len(sdu):
                i, off = i + 1, 0
            self.cur[s] = [i, off]
        if k == "I":
            if p["tx"] < self.maxtx[s]:
                self.wrapped[s] += 1
            self.maxtx[s] = p["tx"]
            self.log("data", E(e="iframe", s=s, k="I", tx=p["tx"], req=p["req"], sar=fr.SAR_NAMES[p["sar"]],
                               len=p["len"], sdulen=p["sdulen"], f=p["f"], ok=ok))
        else:
            self.log("data", E(e="bframe", s=s, k="B", len=p["len"], ok=ok))

    def _data_rx(self, s, pdu):
        p = self._parse(pdu)
        if p["k"] == "bad":
            self.log("data", E(e="rx", s=s, k="bad", why=p["why"]))
        else:
            self.log("data", E(e="rx", s=s, k=p["k"], tx=p.get("tx", 0), req=p.get("req", 0)))

    # ---- application level
    def sdu_out(self, s, data):
        self.sent[s].append(data)
        self.log("data", E(e="sdu_out", s=s, id=len(self.sent[s]), len=len(data)))

    def sdu_in(self, s, data):
        src = self.sent[O(s)]
        n = self.nin[s]
        if n < len(src) and src[n] == data:
            ident, ok = n + 1, 1
        else:
            ok = 0
            ident = next((i + 1 for i, d in enumerate(src) if d == data), 0)
            if ident:
                ok = 1  # intact octets of another SDU: duplicate or out of order, the id says which
        self.nin[s] += 1
        self.log("data", E(e="sdu_in", s=s, id=ident, len=len(data), ok=ok))


ST = {"CLOSED": "closed", "OPEN": "open", "WAIT_DISCONNECT": "wait_disc", "WAIT_CONNECT_RSP": "wait_conn", "WAIT_CONNECT": "wait_conn"}


def chan_view(ch, table=None):
    """What an end reports: the state of its channel; an end whose channel manager no longer has the
    channel (and whose channel object is not open) has no channel: closed."""
    if ch is None:
        return ("closed", "", 0)
    from bumble import l2cap

    st = ST.get(ch.state.name, "config")
    if table is not None and st != "open" and not any(c is ch for c in table.values()):
        st = "closed"
    mode = {l2cap.TransmissionMode.BASIC: "basic", l2cap.TransmissionMode.ENHANCED_RETRANSMISSION: "ertm"}.get(ch.mode, str(int(ch.mode)))
    return (st, mode, int(bool(ch.fcs_enabled)))


def payload_bytes(rng, n):
    return bytes(rng.getrandbits(8) for _ in range(n))


async def _run(sc, shim):
    from bumble import l2cap

    rng = random.Random(sc["seed"] * 7919 + 13)
    ccfg = {"total_num_acl_data_packets": sc.get("bufs", 64)}
    net = rig.Net(2, seed=sc["seed"], max_delay=sc["delay"], controller_cfg=ccfg)
    rig.enable_classic(net)
    await net.power_on()
    conns = await net.connect_classic(0, 1)
    diag = {"raised": [], "loop_errors": []}
    loop = asyncio.get_running_loop()
    loop.set_exception_handler(lambda _l, ctx: diag["loop_errors"].append(repr(ctx.get("exception") or ctx.get("message"))[:200]))
    if shim:
        shim(net, l2cap)
    tm = {"basic": l2cap.TransmissionMode.BASIC, "ertm": l2cap.TransmissionMode.ENHANCED_RETRANSMISSION}

    def spec(i, psm=None):
        return l2cap.ClassicChannelSpec(
            psm=psm, mode=tm[sc["modes"][i]], mtu=sc["mtu"][i], mps=sc["mps"][i], tx_window_size=sc["win"][i],
            fcs_enabled=bool(sc["fcs"][i]), retransmission_timeout=sc.get("rtx", 2.0), monitor_timeout=sc.get("mon", 12.0),
            max_retransmission=sc.get("maxtx", 1))

    chans = {1: None, 2: None}
    echo = {int(k): list(v) for k, v in (sc.get("echo") or {}).items()}
    mon = None

    def make_sink(s):
        def sink(data):
            mon.guarded(mon.sdu_in)(s, bytes(data))
            if echo.get(s):
                n = echo[s].pop(0)
                write(s, n)
        return sink

    def write(s, n):
        data = payload_bytes(rng, n)
        mon.sdu_out(s, data)
        try:
            chans[s].write(data)
        except Exception as e:  # the public API raised
            diag["raised"].append(("write", s, n, type(e).__name__, str(e)[:120]))

    def on_server_channel(ch):
        chans[2] = ch
        ch.sink = make_sink(2)
        ch.on("open", lambda: mon.log("cfg", E(e="open", s=2, mode=chan_view(ch)[1], fcs=chan_view(ch)[2])))

    server = net[1].create_l2cap_server(spec=spec(1), handler=on_server_channel)
    mon = Monitor(server.psm)
    for i, st in enumerate(net.stacks):
        st.tap.record = mon.guarded(lambda d, p, s=i + 1: mon.on_h2c(s, p) if d == "h2c" else None)
        st.tap.host = _HostProxy(st.host, mon.guarded(lambda p, s=i + 1: mon.on_to_host(s, p)))

    task = asyncio.ensure_future(conns[0].create_l2cap_channel(spec=spec(0, server.psm)))
    await asyncio.sleep(0)
    try:
        table = net[0].l2cap_channel_manager.channels.get(conns[0].handle, {})
        chans[1] = next(iter(table.values()), None)
    except Exception:
        chans[1] = None
    if chans[1] is not None:
        ch1 = chans[1]
        ch1.on("open", lambda: mon.log("cfg", E(e="open", s=1, mode=chan_view(ch1)[1], fcs=chan_view(ch1)[2])))
    outcome = "pending"

    async def settle(idle):
        while True:
            n = mon.nevents
            await asyncio.sleep(idle)
            if mon.nevents == n:
                return

    idle = 2 * (sc.get("rtx", 2.0) + sc.get("mon", 12.0)) + 10 + 12 * sc["delay"]
    done, _ = await asyncio.wait([task], timeout=200.0)
    if task in done:
        if task.exception() is not None:
            outcome = "raised:" + type(task.exception()).__name__
        else:
            outcome = "ok"
            if chans[1] is None:
                chans[1] = task.result()
            chans[1].sink = make_sink(1)
    else:
        outcome = "hang"
        task.cancel()
    await settle(idle)
    ncfg = len(mon.cfg)
    def view(s):
        try:
            table = net[s - 1].l2cap_channel_manager.channels.get(conns[s - 1].handle, {})
        except Exception:
            table = None
        return chan_view(chans[s], table)

    views = {s: view(s) for s in (1, 2)}
    both_open = views[1][0] == "open" and views[2][0] == "open" and outcome == "ok"
    if both_open and mon.fmt() is not None:
        for op in sc["ops"]:
            if op[0] == "w":
                write(op[1], op[2])
            elif op[0] == "sleep":
                await asyncio.sleep(op[1])
        await settle(idle)
    views = {s: view(s) for s in (1, 2)}
    if mon.harness_errors:
        raise RuntimeError("C08 harness callback failed:\n" + mon.harness_errors[0])
    cfg_trace = [E(e="cfg", mode=list(sc["modes"]), fcs=list(sc["fcs"]))] + mon.cfg[:ncfg]
    for s in (1, 2):
        cfg_trace.append(E(e="state", s=s, st=views[s][0], mode=views[s][1], fcs=views[s][2]))
    cfg_trace.append(E(e="quiesce"))
    data_trace = None
    if both_open and mon.fmt() is not None:
        data_trace = [mon.data_cfg()] + mon.data + [E(e="quiesce")]
    diag.update(outcome=outcome, views=views, frames=mon.frames, wrapped=mon.wrapped, other=[str(o)[:120] for o in mon.other[:5]],
                late_cfg=mon.cfg[ncfg:], polls=mon.polls, acl_errors=mon.out[1].errors + mon.out[2].errors,
                sdus=[len(mon.sent[1]), len(mon.sent[2])], delivered=[mon.nin[1], mon.nin[2]])
    return {"cfg": cfg_trace, "data": data_trace, "diag": diag}


def run_scenario(sc, shim=None):
    return vt.run(_run(sc, shim))
