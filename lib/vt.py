"""Virtual-time asyncio event loop.

time() is a virtual clock; select() never blocks: when nothing is ready it jumps
the clock to the next timer deadline.  A select() with no timer pending and nothing
ready is *quiescence*: the loop stops (run_until_quiescent) instead of blocking.
"""
from __future__ import annotations

import asyncio
import selectors


class Quiescent(Exception):
    pass


class _VSelector(selectors.BaseSelector):
    def __init__(self, loop_ref):
        self._loop_ref = loop_ref
        self._map = {}

    def register(self, fileobj, events, data=None):
        key = selectors.SelectorKey(fileobj, fileobj if isinstance(fileobj, int) else fileobj.fileno(), events, data)
        self._map[fileobj] = key
        return key

    def unregister(self, fileobj):
        return self._map.pop(fileobj)

    def modify(self, fileobj, events, data=None):
        self.unregister(fileobj)
        return self.register(fileobj, events, data)

    def select(self, timeout=None):
        loop = self._loop_ref()
        if timeout is None:
            # nothing ready, no timers: quiescence
            loop._vt_quiescent = True
            loop.stop()
            return []
        if timeout > 0:
            loop._vt_now += timeout
        return []

    def close(self):
        self._map.clear()

    def get_map(self):
        return self._map


class VirtualLoop(asyncio.SelectorEventLoop):
    def __init__(self):
        import weakref

        self._vt_now = 0.0
        self._vt_quiescent = False
        super().__init__(selector=_VSelector(weakref.ref(self)))
        self._clock_resolution = 1e-9

    def time(self):
        return self._vt_now

    # the self-pipe is registered with the selector; harmless with the virtual selector

    def run_until_quiescent(self, max_virtual=None):
        """Run until no callback is ready and no timer pending, or until virtual time
        exceeds start+max_virtual. Returns True if quiescent."""
        limit = None if max_virtual is None else self._vt_now + max_virtual
        self._vt_quiescent = False
        if limit is not None:
            h = self.call_at(limit, self.stop)
        try:
            self.run_forever()
        finally:
            if limit is not None:
                h.cancel()
        return self._vt_quiescent

    def settle(self, max_virtual=0.0):
        """Run ready callbacks (and timers up to max_virtual seconds ahead)."""
        return self.run_until_quiescent(max_virtual=max_virtual)


def new_loop() -> VirtualLoop:
    loop = VirtualLoop()
    asyncio.set_event_loop(loop)
    return loop


def run(coro, loop=None):
    """Run coroutine to completion under virtual time; raise Quiescent if the loop goes
    quiescent before it completes (i.e. it would wait forever)."""
    own = loop is None
    if own:
        loop = new_loop()
    task = loop.create_task(coro)
    try:
        while not task.done():
            q = loop.run_until_quiescent()
            if q and not task.done():
                task.cancel()
                try:
                    loop.run_until_quiescent()
                except Exception:
                    pass
                raise Quiescent("coroutine never completes (event loop quiescent)")
        return task.result()
    finally:
        if own:
            close_loop(loop)


def close_loop(loop):
    try:
        pending = [t for t in asyncio.all_tasks(loop) if not t.done()]
        for t in pending:
            t.cancel()
        if pending:
            try:
                loop.run_until_quiescent(max_virtual=1.0)
            except Exception:
                pass
    finally:
        try:
            loop.close()
        except Exception:
            pass
        asyncio.set_event_loop(None)
