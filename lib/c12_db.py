"""C12 (ii): generated GATT databases, a real bumble server and a real bumble client over a real
LE connection; everything the client reports is logged for specs/Gatt/DbTrace.tla.

The exposed attribute table is parsed here with struct (Core Vol 3 Part G 3.1-3.3), never with
bumble's own parsers; UUIDs travel as 32-hex-digit strings (128-bit form).
"""
from __future__ import annotations

import asyncio
import random
import struct

from lib import rig, vt

BASE = "00001000800000805f9b34fb"
T_PRIMARY = "0000280000001000800000805f9b34fb"
T_SECONDARY = "0000280100001000800000805f9b34fb"
T_INCLUDE = "0000280200001000800000805f9b34fb"
T_CHARACTERISTIC = "0000280300001000800000805f9b34fb"
T_CCCD = "0000290200001000800000805f9b34fb"
MTUS = (23, 24, 64, 185, 517)

P_READ, P_WWR, P_WRITE, P_NOTIFY, P_INDICATE = 0x02, 0x04, 0x08, 0x10, 0x20


def canon_le(b):
    """little-endian UUID bytes (2, 4 or 16) -> 128-bit hex string"""
    b = bytes(b)
    if len(b) == 2:
        return "0000" + b[::-1].hex() + BASE
    if len(b) == 4:
        return b[::-1].hex() + BASE
    if len(b) == 16:
        return b[::-1].hex()
    return "?" + b.hex()


def canon_gen(u):
    width, val = u
    if width == 16:
        return "0000%04x" % val + BASE
    if width == 32:
        return "%08x" % val + BASE
    return "%032x" % val


def uuid_str(u):
    width, val = u
    if width == 16:
        return "%04X" % val
    if width == 32:
        return "%08X" % val
    h = "%032X" % val
    return f"{h[0:8]}-{h[8:12]}-{h[12:16]}-{h[16:20]}-{h[20:32]}"


def boundary_lengths(m):
    c = {0, 1, 2, m - 4, m - 3, m - 2, m - 1, m, m + 1, 2 * (m - 1) - 1, 2 * (m - 1), 2 * (m - 1) + 1, 3 * (m - 1), 511, 512}
    return sorted(x for x in c if 0 <= x <= 512)


# ----------------------------------------------------------------------------- generator
def gen_uuid(rng, used, widths=(16, 32, 128)):
    while True:
        w = rng.choice(widths)
        if w == 16:
            u = (16, rng.randrange(0xA000, 0xA400))
        elif w == 32:
            u = (32, rng.randrange(0x10000, 0xFFFFFFFF))
        else:
            u = (128, rng.getrandbits(128) | (1 << 100))
        c = canon_gen(u)
        if c not in used:
            used.add(c)
            return u


def gen_value(rng, m, cap=512):
    if rng.random() < 0.45:
        n = rng.choice([x for x in boundary_lengths(m) if x <= cap])
    else:
        n = rng.randrange(0, 31)
    return bytes(rng.getrandbits(8) for _ in range(min(n, cap)))


def gen_plan(rng, m, nsvc=None):
    """A database plan: services (with includes by index), characteristics, descriptors."""
    used = set()
    nsvc = rng.randrange(0, 5) if nsvc is None else nsvc
    svcs = []
    widths = rng.choice([(16,), (128,), (16, 128), (16, 32, 128), (16, 32, 128)])
    for i in range(nsvc):
        su = gen_uuid(rng, used, widths)
        if svcs and rng.random() < 0.12:
            su = rng.choice(svcs)["uuid"]  # two services with the same UUID
        chars = []
        for _ in range(rng.choice([0, 1, 1, 2, 2, 3, 4])):
            props = P_READ | P_WRITE | rng.choice([0, 0, P_WWR, P_NOTIFY, P_INDICATE, P_NOTIFY | P_INDICATE])
            descs = []
            for _ in range(rng.choice([0, 0, 1, 1, 2, 3])):
                du = rng.choice([(16, 0x2901), (16, 0x2904), None, None])
                if du is None:
                    du = gen_uuid(rng, set(), widths)
                descs.append({"type": du, "value": gen_value(rng, m)})
            chars.append({"uuid": gen_uuid(rng, used, widths), "props": props, "value": gen_value(rng, m), "descs": descs})
        svcs.append({"uuid": su, "primary": True, "includes": [], "chars": chars, "register": True})
    # includes: service i may include service j (j != i, no cycles: only j > i or j registered earlier)
    for i, s in enumerate(svcs):
        for j in range(len(svcs)):
            if j != i and rng.random() < 0.25 and not _reaches(svcs, j, i):
                s["includes"].append(j)
    for j, s in enumerate(svcs):
        included = any(j in t["includes"] for t in svcs)
        if included:
            if rng.random() < 0.4:
                s["primary"] = False
            # an included service is either registered on its own as well, or only through its includer
            s["register"] = rng.random() < 0.5
    return {"services": svcs, "order": _order(rng, svcs)}


def _reaches(svcs, a, b, seen=None):
    seen = seen or set()
    if a == b:
        return True
    seen.add(a)
    return any(_reaches(svcs, n, b, seen) for n in svcs[a]["includes"] if n not in seen)


def _order(rng, svcs):
    idx = [i for i, s in enumerate(svcs) if s["register"]]
    rng.shuffle(idx)
    return idx


def plan_class(plan):
    s = plan["services"]
    return (len(s), sum(len(x["chars"]) for x in s), sum(len(c["descs"]) for x in s for c in x["chars"]),
            sum(len(x["includes"]) for x in s), tuple(sorted({x["uuid"][0] for x in s} | {c["uuid"][0] for x in s for c in x["chars"]})))


def build(plan):
    """bumble Service objects for the plan; returns (all services by index, list to add_service in order)."""
    from bumble.gatt import Characteristic, Descriptor, Service

    objs = {}

    def make(i):
        if i in objs:
            return objs[i]
        s = plan["services"][i]
        inc = [make(j) for j in s["includes"]]
        chars = []
        for c in s["chars"]:
            descs = [Descriptor(uuid_str(d["type"]), Descriptor.READABLE | Descriptor.WRITEABLE, d["value"]) for d in c["descs"]]
            chars.append(Characteristic(uuid_str(c["uuid"]), Characteristic.Properties(c["props"]),
                                        Characteristic.READABLE | Characteristic.WRITEABLE, c["value"], descs))
        objs[i] = Service(uuid_str(s["uuid"]), chars, primary=s["primary"], included_services=inc)
        return objs[i]

    for i in range(len(plan["services"])):
        make(i)
    return objs, [objs[i] for i in plan["order"]]


# ----------------------------------------------------------------------------- snapshot of the server
def _static(v):
    return isinstance(v, (bytes, bytearray))


def snapshot(server, services):
    """rows (exposed table, own parser) and the registered database (w*)."""
    rows = []
    attrs = list(server.attributes)
    vhs = set()
    for a in attrs:
        ty = canon_le(a.type.to_bytes())
        v = bytes(a.value) if _static(a.value) else b""
        r = {"h": a.handle, "k": "", "ty": ty, "u": "", "e": 0, "p": 0, "vh": 0, "sh": 0, "se": 0,
             "n": len(v), "st": 1 if _static(a.value) else 0}
        if ty in (T_PRIMARY, T_SECONDARY):
            r["k"] = "svc" if ty == T_PRIMARY else "sec"
            r["u"] = canon_le(v)
            r["e"] = a.end_group_handle
        elif ty == T_INCLUDE:
            r["k"] = "inc"
            if len(v) >= 4:
                r["sh"], r["se"] = struct.unpack_from("<HH", v)
            r["u"] = canon_le(v[4:]) if len(v) > 4 else ""
        elif ty == T_CHARACTERISTIC:
            r["k"] = "chd"
            if len(v) >= 3:
                r["p"], r["vh"] = struct.unpack_from("<BH", v)
            r["u"] = canon_le(v[3:])
            vhs.add(r["vh"])
        rows.append(r)
    for r in rows:
        if not r["k"]:
            r["k"] = "val" if r["h"] in vhs else "dsc"
    wsvc, winc, wchr, wdsc, wcccd = [], [], [], [], []
    for s in services:
        wsvc.append({"h": s.handle, "u": canon_le(s.uuid.to_bytes()), "prim": 1 if s.primary else 0})
        for i in s.included_services:
            winc.append({"s": s.handle, "sh": i.handle, "u": canon_le(i.uuid.to_bytes())})
        for c in s.characteristics:
            wchr.append({"s": s.handle, "h": c.handle, "u": canon_le(c.uuid.to_bytes()), "p": int(c.properties),
                         "n": len(c.value) if _static(c.value) else 0})
            has_cccd = False
            for d in c.descriptors:
                du = canon_le(d.type.to_bytes())
                has_cccd = has_cccd or du == T_CCCD
                wdsc.append({"c": c.handle, "h": d.handle, "u": du, "n": len(d.value) if _static(d.value) else 0})
            if int(c.properties) & (P_NOTIFY | P_INDICATE) and not has_cccd:
                wcccd.append(c.handle)
    return rows, {"wsvc": wsvc, "winc": winc, "wchr": wchr, "wdsc": wdsc, "wcccd": wcccd}


def all_services(roots):
    """registered services and everything they include, each once"""
    out, seen = [], set()

    def walk(s):
        if id(s) in seen:
            return
        seen.add(id(s))
        out.append(s)
        for i in s.included_services:
            walk(i)

    for s in roots:
        walk(s)
    return out


# ----------------------------------------------------------------------------- events
_DEF = {"e": "", "cm": 0, "sm": 0, "gc": 0, "gs": 0, "rows": [], "wsvc": [], "winc": [], "wchr": [], "wdsc": [], "wcccd": [],
        "dsvc": [], "dinc": [], "dchr": [], "ddsc": [], "items": [], "u": "", "h": 0, "n": 0, "ver": 0, "api": "", "s": 0, "f": []}


def ev(e, **kw):
    d = dict(_DEF)
    d["e"] = e
    d.update(kw)
    return d


class ApiFailure(Exception):
    pass


# ----------------------------------------------------------------------------- one case
async def run_case(rng, plan, cm, sm, defaults=True, max_delay=0.0, seed=0, client_wrap=None, server_wrap=None,
                   n_reads=None, n_writes=3, skip_mtu_request=False):
    """Returns (trace, info).  client_wrap / server_wrap: self-test shims."""
    from bumble.device import DeviceConfiguration

    cfgs = [None, {"config": DeviceConfiguration(gap_service_enabled=defaults, gatt_service_enabled=defaults)}]
    net = rig.Net(2, seed=seed, max_delay=max_delay, device_cfg=cfgs)
    srv = net[1]
    objs, to_add = build(plan)
    default_services = list(srv.gatt_server.services)
    for s in to_add:
        if s not in srv.gatt_server.services:  # already registered through a service that includes it
            srv.add_service(s)
    srv.gatt_server.max_mtu = sm
    if server_wrap:
        server_wrap(srv)
    await net.power_on()
    cc, pc = await net.connect_le(0, 1)
    client = cc.gatt_client
    if client_wrap:
        client = client_wrap(client, cc)
    trace = []
    info = {"exc": None}

    async def api(name, coro):
        try:
            return await asyncio.wait_for(coro, 3000)
        except asyncio.TimeoutError:
            trace.append(ev("exc", api=name, u="hang"))
            raise ApiFailure(name)
        except Exception as e:
            trace.append(ev("exc", api=name, u=type(e).__name__))
            info["exc"] = f"{name}: {type(e).__name__}: {e}"
            raise ApiFailure(name)

    try:
        # ---- MTU
        if not (skip_mtu_request and cm == 23):
            await api("request_mtu", client.request_mtu(cm))
        await asyncio.sleep(0.2)
        trace.append(ev("mtu", cm=cm, sm=sm, gc=client.mtu, gs=pc.att_mtu))
        m = min(cm, sm)
        # ---- the database
        services = all_services(default_services + to_add)
        rows, want = snapshot(srv.gatt_server, services)
        trace.append(ev("db", rows=rows))
        info["layout"] = [ev("db", rows=rows), ev("layout", **want)]
        info["rows"] = len(rows)
        # ---- discovery
        dsvc, dinc, dchr, ddsc = [], [], [], []
        found = await api("discover_services", client.discover_services())
        queue = []
        seen = set()
        for sp in found:
            dsvc.append({"h": sp.handle, "e": sp.end_group_handle, "u": canon_le(sp.uuid.to_bytes())})
            if sp.handle not in seen:
                seen.add(sp.handle)
                queue.append(sp)
        proxies = {}
        while queue:
            sp = queue.pop(0)
            for ip in await api("discover_included_services", client.discover_included_services(sp)):
                dinc.append({"s": sp.handle, "sh": ip.handle, "se": ip.end_group_handle, "u": canon_le(ip.uuid.to_bytes())})
                if ip.handle not in seen:
                    seen.add(ip.handle)
                    queue.append(ip)
            for cp in await api("discover_characteristics", client.discover_characteristics([], sp)):
                dchr.append({"s": sp.handle, "h": cp.handle, "e": cp.end_group_handle, "u": canon_le(cp.uuid.to_bytes()), "p": int(cp.properties)})
                proxies[cp.handle] = cp
                for dp in await api("discover_descriptors", client.discover_descriptors(cp)):
                    ddsc.append({"c": cp.handle, "h": dp.handle, "u": canon_le(dp.type.to_bytes())})
                    proxies[dp.handle] = dp
        trace.append(ev("disc", dsvc=dsvc, dinc=dinc, dchr=dchr, ddsc=ddsc))
        # ---- characteristics by UUID: the proxies of a filtered discovery are those of the full one (same handle ranges,
        #      hence the same descriptors), restricted to the wanted UUIDs
        bysvc = {}
        for c in dchr:
            bysvc.setdefault(c["s"], []).append(c)
        svc_proxy = {sp.handle: sp for sp in found}
        filt = [(sh, cs) for sh, cs in sorted(bysvc.items()) if sh in svc_proxy]
        rng2 = random.Random(seed * 7919 + 13)
        for sh, cs in filt[:4]:
            us = sorted({c["u"] for c in cs})
            picks = [[us[0]], [us[-1]]] + ([[rng2.choice(us)]] if len(us) > 2 else []) + ([us[::2]] if len(us) > 2 else [])
            src = {canon_le(ch.uuid.to_bytes()): ch.uuid for s_ in services for ch in s_.characteristics}
            for f in picks[: 2 if len(us) < 2 else 4]:
                if any(u not in src for u in f):
                    continue
                got = await api("discover_characteristics", client.discover_characteristics([src[u] for u in f], svc_proxy[sh]))
                items, fd = [], []
                for cp in got:
                    items.append({"s": sh, "h": cp.handle, "e": cp.end_group_handle, "u": canon_le(cp.uuid.to_bytes()), "p": int(cp.properties)})
                    for dp in await api("discover_descriptors", client.discover_descriptors(cp)):
                        fd.append({"c": cp.handle, "h": dp.handle, "u": canon_le(dp.type.to_bytes())})
                trace.append(ev("discf", s=sh, f=list(f), items=items, ddsc=fd))
        # ---- discover by service UUID, discover all attributes
        for u in sorted({r["u"] for r in rows if r["k"] == "svc"})[:3]:
            width_src = next(s for s in services if canon_le(s.uuid.to_bytes()) == u)
            got = await api("discover_service", client.discover_service(width_src.uuid))
            trace.append(ev("disc1", u=u, items=[{"h": p.handle, "e": p.end_group_handle, "u": canon_le(p.uuid.to_bytes())} for p in got]))
        if rows:
            got = await api("discover_attributes", client.discover_attributes())
            trace.append(ev("attrs", items=[{"h": p.handle, "u": canon_le(p.type.to_bytes())} for p in got]))
        # ---- reads (long reads when the value does not fit)
        versions = {}
        by_handle = {a.handle: a for a in srv.gatt_server.attributes}
        readable = [r for r in rows if r["k"] in ("val", "dsc") and r["st"]]
        for r in readable:
            versions[r["h"]] = [bytes(by_handle[r["h"]].value)]
        if n_reads is not None and len(readable) > n_reads:
            readable = sorted(rng.sample(readable, n_reads), key=lambda r: r["h"])

        async def read(h):
            target = proxies.get(h, h) if rng.random() < 0.5 else h
            v = await api("read_value", client.read_value(target))
            vs = versions[h]
            ver = next((i for i in range(len(vs) - 1, -1, -1) if vs[i] == v), 99)
            trace.append(ev("read", h=h, n=len(v), ver=ver))

        for r in readable:
            await read(r["h"])
        # ---- writes take effect
        writable = [r for r in rows if r["k"] == "val" and r["st"] and (next((c["p"] for c in rows if c["k"] == "chd" and c["vh"] == r["h"]), 0) & P_WRITE)]
        for r in (rng.sample(writable, min(n_writes, len(writable))) if writable else []):
            h = r["h"]
            new = gen_value(rng, m, cap=m - 3)
            with_response = rng.random() < 0.7
            await api("write_value", client.write_value(h, new, with_response=with_response))
            await asyncio.sleep(0.5)
            versions[h].append(new)
            ver = len(versions[h]) - 1
            trace.append(ev("write", h=h, n=len(new), ver=ver))
            sv = by_handle[h].value
            sv = bytes(sv) if _static(sv) else b"?"
            trace.append(ev("srv", h=h, n=len(sv), ver=next((i for i in range(len(versions[h]) - 1, -1, -1) if versions[h][i] == sv), 99)))
            await read(h)
    except ApiFailure:
        pass
    return trace, info


def trace_cfg():
    return "SPECIFICATION TraceSpec\nCHECK_DEADLOCK FALSE\n"


def len_class(n, m):
    """where a value length sits relative to the long-read boundaries"""
    if n == 0:
        return "len=0"
    if n < m - 1:
        return "len<mtu-1"
    if n % (m - 1) == 0:
        return "len=k*(mtu-1)"
    return "len>mtu-1"
