"""Evidence writer (schema /root/.vp/EVIDENCE.schema.json), validated by hand (no jsonschema in /venv)."""
from __future__ import annotations

import json
import os

VERIF = os.path.dirname(os.path.dirname(os.path.abspath(__file__)))
LEVELS = {"exploration", "fault_enumeration", "model_checking", "proof", "translation_validation", "other"}


def validate(ev):
    for k in ("property_id", "tier", "seed", "level", "coverage", "wall_s"):
        assert k in ev, f"evidence lacks {k}"
    assert ev["tier"] in ("quick", "thorough")
    assert ev["level"] in LEVELS
    cov = ev["coverage"]
    if ev["level"] == "model_checking":
        for k in ("states", "transitions", "traces_validated_against_impl", "samples"):
            assert k in cov, f"model_checking evidence lacks coverage.{k}"
        assert cov["states"] >= 1 and cov["transitions"] >= 1 and len(cov["samples"]) >= 1
    else:
        for k in ("evaluations", "distinct_nontrivial", "rule", "samples"):
            assert k in cov, f"evidence lacks coverage.{k}"
        assert cov["evaluations"] >= 1 and cov["distinct_nontrivial"] >= 2 and len(cov["samples"]) >= 1


def write(prop, tier, seed, level, coverage, wall_s, violations, assumptions=()):
    ev = {
        "property_id": prop,
        "tier": tier,
        "seed": int(seed),
        "level": level,
        "coverage": coverage,
        "assumptions": list(assumptions),
        "wall_s": round(float(wall_s), 3),
        "violations": int(violations),
    }
    validate(ev)
    os.makedirs(os.path.join(VERIF, "evidence"), exist_ok=True)
    path = os.path.join(VERIF, "evidence", f"{prop}.json")
    tmp = path + ".tmp"
    with open(tmp, "w") as f:
        json.dump(ev, f, indent=1, sort_keys=True, default=str)
        f.write("\n")
    os.replace(tmp, path)
    return path
