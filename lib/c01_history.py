"""C01: process histories of HCI packet parses, judged by specs/Pdu/Statelessness.tla.

"... parses back into a packet of the same kind with the same field values" is a statement about the packet
alone: what a byte string parses into may not depend on what the process parsed before.  Fields with callable
codecs can look at their context (Address.parse_address_preceded_by_type reads the byte in front of it), so the
behaviour class exercised here is: the SAME bytes in the callable-codec fields of successive packets while the
one-byte fields around them (address types, roles, PHYs, ...) go through their small codes, also across classes
(the sampling of the opaque bytes starts from the same seeded state for every class).

The same list of packets is parsed by several NEW python processes (this file run as a script), each in a
different order.  Every parse is logged as  [op = "hci.parse", key = packet bytes, res = canonical field values];
Statelessness.tla accepts a group of histories iff equal keys always gave equal results.  The canonical value
of a field is built from the attributes of the value object (every attribute as its own entry: an Address is
its six bytes AND its address type as a number), never through the object's own __eq__ / __hash__ / __str__,
which may identify values that differ in an attribute."""
from __future__ import annotations

import dataclasses
import hashlib
import json
import os
import random
import subprocess
import sys
import zlib

CODES = [0, 1, 2, 3, 0x80, 0xFF]  # small codes of one-byte selector fields, and the two ends of the upper half


# ----------------------------------------------------------------------------- canonical values (runs in the worker)
def canon(v, depth=0):
    if depth > 10:
        return "<deep>"
    if v is None:
        return None
    if isinstance(v, (bool, int)):
        return int(v)
    if isinstance(v, float):
        return repr(v)
    if isinstance(v, (bytes, bytearray, memoryview)):
        return "0x" + bytes(v).hex()
    if isinstance(v, str):
        return v
    if isinstance(v, (list, tuple)):
        return [canon(x, depth + 1) for x in v]
    if isinstance(v, (set, frozenset)):
        return sorted((canon(x, depth + 1) for x in v), key=lambda x: json.dumps(x, sort_keys=True))
    if isinstance(v, dict):
        return {str(k): canon(x, depth + 1) for k, x in sorted(v.items(), key=lambda kv: str(kv[0]))}
    if callable(v):
        return "<callable>"
    out = {"<class>": type(v).__name__}
    names = _field_names(getattr(type(v), "fields", None))
    if names:  # an HCI_Object: its declared fields
        for n in names:
            out[n] = canon(getattr(v, n, "<missing>"), depth + 1)
        return out
    if dataclasses.is_dataclass(v):
        for f in dataclasses.fields(v):
            x = getattr(v, f.name, "<missing>")
            if not callable(x):
                out[f.name] = canon(x, depth + 1)
        return out
    attrs = getattr(v, "__dict__", None)
    if isinstance(attrs, dict):
        for k in sorted(attrs):
            if not k.startswith("_") and k != "fields" and not callable(attrs[k]):
                out[k] = canon(attrs[k], depth + 1)
        return out
    r = repr(v)
    out["repr"] = r if " at 0x" not in r else ""
    return out


def _field_names(fields):
    if not isinstance(fields, (list, tuple)):
        return []
    names = []
    for f in fields:
        if isinstance(f, list):
            names.extend(_field_names(f))
        elif isinstance(f, tuple) and len(f) == 2 and isinstance(f[0], str):
            names.append(f[0])
    return names


def parse_one(hci, raw):
    try:
        p = hci.HCI_Packet.from_bytes(raw)
    except Exception as e:  # an exception is a result too: the same bytes must then always raise it
        return {"raised": type(e).__name__}
    out = {"class": type(p).__name__}
    names = _field_names(getattr(type(p), "fields", None))
    if names:
        out["fields"] = {n: canon(getattr(p, n, "<missing>")) for n in names}
    else:
        out["fields"] = canon(p)
    try:
        out["bytes"] = bytes(p).hex()
    except Exception as e:
        out["bytes"] = "raised " + type(e).__name__
    return out


def worker_main():
    """stdin: {"packets": [hex, ...]} in the order to parse them; stdout: {"bumble": dir, "results": [canonical, ...]}"""
    import importlib
    import logging
    import pkgutil

    req = json.load(sys.stdin)
    repo = os.environ.get("VERIF_REPO", "/repo")
    sys.path.insert(0, repo)
    logging.disable(logging.CRITICAL)
    import bumble
    import bumble.vendor
    from bumble import hci

    if not os.path.abspath(bumble.__file__).startswith(os.path.abspath(repo) + os.sep):
        raise RuntimeError(f"bumble imported from {bumble.__file__}, expected {repo}")
    for m in pkgutil.walk_packages(bumble.vendor.__path__, "bumble.vendor."):
        if m.name.endswith(".hci"):
            importlib.import_module(m.name)
    results = [parse_one(hci, bytes.fromhex(h)) for h in req["packets"]]
    json.dump({"bumble": os.path.dirname(bumble.__file__), "results": results}, sys.stdout)


# ----------------------------------------------------------------------------- the packets (runs in the check process)
def _has_opaque(fms):
    return any((any(s.kind is None for s in fm.sub) if fm.is_group else fm.kind is None) for fm in fms)


def _selector_paths(fms):
    paths = []
    for i, fm in enumerate(fms):
        if fm.is_group:
            if not fm.mask:
                paths.extend(((i, j), s) for j, s in enumerate(fm.sub) if s.kind is not None and s.kind["k"] == "u8")
        elif fm.kind is not None and fm.kind["k"] == "u8":
            paths.append(((i,), fm))
    return paths


def packets_for(case, seed, frame_bytes, reencode):
    """[(tag, packet bytes)] for one class with callable-codec fields: every one-byte transparent field at every
    code of CODES with the others at base; the opaque fields are sampled from the same seeded state each time, so
    they carry the same bytes in every packet (and in every class whose layout asks for the same amount).
    A repeated group gets two items with the same opaque bytes and successive codes."""
    from . import c01_codec as cc

    fms = case.fms

    def rng():
        return random.Random(zlib.crc32(f"c01-history#{seed}".encode()))

    def base_of(f):
        return case.base_values.get(f.name, cc.base(f.kind))

    variants = [("base", lambda f, p: base_of(f), 1)]
    for path, fm in _selector_paths(fms):
        if fm.name in case.pinned:
            continue
        for ci, code in enumerate(CODES):
            def choose(f, p, path=path, ci=ci):
                if p[: len(path)] == path:
                    item = p[-1] if len(p) > len(path) else 0
                    return CODES[(ci + 2 * item) % len(CODES)]  # a second item of a group: 0 <-> 2, 1 <-> 3, ...
                return base_of(f)
            variants.append((f"{fm.name}={code:#x}", choose, 2 if len(path) == 2 else 1))
    out = []
    seen = set()
    maxp = case.max_params if case.max_params is not None else {"cmd": 255, "evt": 255, "ext": 254}.get(case.frame)
    for tag, choose, count in variants:
        try:
            vec = cc.make_vector(fms, choose, rng(), count=count)
        except cc.Unbuildable:
            continue
        if case.pinned:
            for i, fm in enumerate(fms):
                if fm.name in case.pinned:
                    vec.vals[i] = case.pinned[fm.name]
            vec.params = reencode(fms, vec)
        if maxp is not None and len(vec.params) > maxp:
            continue
        hdr = case.hdr(vec.params) if callable(case.hdr) else case.hdr
        raw = frame_bytes(case.frame, hdr, vec.params)
        if raw not in seen:
            seen.add(raw)
            out.append((tag, raw))
    return out


def orders(n_groups, sizes, n_proc, rng):
    """the order in which each process parses the packets: (group, index) lists.  Process 0: as generated (low
    codes first), process 1: everything reversed (high codes first, last class first), further processes: shuffled"""
    flat = [(g, i) for g in range(n_groups) for i in range(sizes[g])]
    out = [flat, flat[::-1]]
    for _ in range(max(0, n_proc - 2)):
        o = list(flat)
        rng.shuffle(o)
        out.append(o)
    return out[:n_proc]


def run_processes(packet_lists):
    """one new python process per list of packets; all run at the same time.  Returns the result lists."""
    env = dict(os.environ)
    env.setdefault("PYTHONHASHSEED", "0")
    procs = []
    for pk in packet_lists:
        p = subprocess.Popen([sys.executable, "-B", os.path.abspath(__file__)], stdin=subprocess.PIPE, stdout=subprocess.PIPE, stderr=subprocess.PIPE, env=env)
        procs.append((p, pk))
    outs = []
    for p, pk in procs:
        so, se = p.communicate(json.dumps({"packets": [b.hex() for b in pk]}).encode(), timeout=600)
        if p.returncode != 0:
            raise RuntimeError(f"history worker failed (rc={p.returncode}): {se.decode(errors='replace')[-2000:]}")
        r = json.loads(so)
        if len(r["results"]) != len(pk):
            raise RuntimeError("history worker returned a different number of results")
        outs.append(r)
    return outs


def digest(r):
    """what TLC compares: 8 bytes of SHA-256 over the canonical JSON text of the canonical value"""
    return list(hashlib.sha256(json.dumps(r, sort_keys=True, separators=(",", ":")).encode()).digest()[:8])


def first_difference(a, b, path=""):
    """path of the first entry in which two canonical values differ"""
    if isinstance(a, dict) and isinstance(b, dict):
        for k in sorted(set(a) | set(b)):
            if a.get(k, "<absent>") != b.get(k, "<absent>"):
                return first_difference(a.get(k, "<absent>"), b.get(k, "<absent>"), f"{path}.{k}" if path else k)
    if isinstance(a, list) and isinstance(b, list) and len(a) == len(b):
        for i, (x, y) in enumerate(zip(a, b)):
            if x != y:
                return first_difference(x, y, f"{path}[{i}]")
    return path, a, b


if __name__ == "__main__":
    worker_main()
