"""C19 (c): AVDTP stream procedures on a real source / sink pair (bumble.avdtp over real classic
connections of lib.rig.Net), one `issue` + one `done` event per operation for StreamTrace.tla."""
from __future__ import annotations

import asyncio

from lib import rig, vt

OPS = ("configure", "open", "start", "suspend", "close", "abort")
BAD_SEID = 0x3D  # an endpoint identifier nobody has
# Stream.tla Legal(op, state): a `raw` command is only a probe of the acceptor's refusal, so the driver
# issues it only where the procedure is illegal (a tour may have planned it for another state: the
# specification leaves start-in-CONFIGURED free, the implementation takes one of the two branches)
LEGAL = {"configure": {"IDLE"}, "open": {"CONFIGURED"}, "start": {"OPEN"}, "suspend": {"STREAMING"},
         "close": {"OPEN", "STREAMING"}, "abort": {"CONFIGURED", "OPEN", "STREAMING", "CLOSING", "ABORTING"},
         "start_list": set(), "suspend_list": set()}


def _codec(a2dp, avdtp, sink):
    S = a2dp.SbcMediaCodecInformation
    if sink:
        info = S(
            sampling_frequency=S.SamplingFrequency.SF_48000 | S.SamplingFrequency.SF_44100,
            channel_mode=S.ChannelMode.MONO | S.ChannelMode.STEREO | S.ChannelMode.JOINT_STEREO,
            block_length=S.BlockLength.BL_4 | S.BlockLength.BL_8 | S.BlockLength.BL_12 | S.BlockLength.BL_16,
            subbands=S.Subbands.S_4 | S.Subbands.S_8,
            allocation_method=S.AllocationMethod.LOUDNESS | S.AllocationMethod.SNR,
            minimum_bitpool_value=2, maximum_bitpool_value=53)
    else:
        info = S(
            sampling_frequency=S.SamplingFrequency.SF_44100, channel_mode=S.ChannelMode.JOINT_STEREO,
            block_length=S.BlockLength.BL_16, subbands=S.Subbands.S_8, allocation_method=S.AllocationMethod.LOUDNESS,
            minimum_bitpool_value=2, maximum_bitpool_value=53)
    return avdtp.MediaCodecCapabilities(media_type=avdtp.MediaType.AUDIO, media_codec_type=a2dp.CodecType.SBC,
                                        media_codec_information=info)


class Pair:
    """Initiating side (local source, device 0) and accepting side (local sink, device 1)."""

    def __init__(self, seed, patch=None):
        self.seed = seed
        self.patch = patch
        self.stream = None
        self.events = []

    async def setup(self):
        from bumble import a2dp, avdtp

        self.avdtp = avdtp
        self.net = rig.Net(2, seed=self.seed, max_delay=0.002)
        rig.enable_classic(self.net)
        await self.net.power_on()
        self.sink = None

        def on_conn(server):
            self.sink = server.add_sink(_codec(a2dp, avdtp, True))
            self.server = server

        self.listener = avdtp.Listener.for_device(self.net[1])
        self.listener.on("connection", on_conn)
        conn, _ = await self.net.connect_classic(0, 1)
        self.client = await avdtp.Protocol.connect(conn)
        eps = list(await self.client.discover_remote_endpoints())
        self.remote_sink = eps[0]
        self.source = self.client.add_source(_codec(a2dp, avdtp, False), None)
        if self.patch:
            self.patch(self)

    # -- observation (public attributes: Stream.state, LocalStreamEndPoint.stream)
    def src_state(self):
        return self.stream.state.name if self.stream is not None else "IDLE"

    def snk_state(self):
        s = self.sink.stream if self.sink is not None else None
        return s.state.name if s is not None else "IDLE"

    # -- operations
    async def _api(self, op):
        st = self.stream
        if op == "configure":
            if st is None:
                self.stream = await self.client.create_stream(self.source, self.remote_sink)
            else:
                await st.configure()
            return
        if st is None:
            # no stream object yet: what the Stream methods do in IDLE
            if op == "abort":
                await self.client.abort(self.remote_sink.seid)
                return
            raise self.avdtp.InvalidStateError("no stream")
        if op == "open":
            await st.open()
        elif op == "start":
            await st.start()
        elif op == "suspend":
            await st.stop()
        elif op == "close":
            await st.close()
        elif op == "abort":
            if hasattr(st, "abort"):
                await st.abort()
            else:
                # Stream has no abort procedure: the only public way to issue it
                await st.remote_endpoint.abort()

    async def _raw(self, op):
        """The bare command on the signalling channel, without the initiating side's own check."""
        seid = self.remote_sink.seid
        p = self.client
        if op == "configure":
            await p.set_configuration(seid, self.source.seid, self.source.configuration)
        elif op == "open":
            await p.open(seid)
        elif op == "start":
            await p.start([seid])
        elif op == "suspend":
            await p.suspend([seid])
        elif op == "close":
            await p.close(seid)
        elif op == "abort":
            await p.abort(seid)
        elif op == "start_list":
            await p.start([seid, BAD_SEID])
        elif op == "suspend_list":
            await p.suspend([seid, BAD_SEID])

    async def do(self, op, via):
        from bumble import core

        self.events.append({"e": "issue", "op": op, "via": via, "outcome": "", "src": "", "snk": ""})
        coro = self._api(op) if via == "api" else self._raw(op)
        detail = ""
        try:
            await asyncio.wait_for(coro, timeout=120.0)
            outcome = "ok"
        except asyncio.TimeoutError:
            outcome = "hang"
        except core.InvalidStateError as e:
            outcome = "refused"
            detail = f"InvalidStateError: {e}"
        except core.ProtocolError as e:
            outcome = "refused"
            detail = f"ProtocolError: {e}"
        except Exception as e:  # anything else is not a refusal
            outcome = "error"
            detail = f"{type(e).__name__}: {e}"
        await asyncio.sleep(2.0)  # let channel releases reach the other end
        ev = {"e": "done", "op": "", "via": "", "outcome": outcome, "src": self.src_state(), "snk": self.snk_state()}
        self.events.append(ev)
        return ev, detail


def run_sequence(seq, seed, patch=None):
    """Execute [(op, via), ...] on a fresh pair; returns (events, details, executed ops)."""
    details = []
    executed = []

    async def main():
        pair = Pair(seed, patch)
        await pair.setup()
        for op, via in seq:
            if via == "raw" and (pair.src_state() in LEGAL[op] or pair.src_state() != pair.snk_state()):
                executed.append(None)
                continue
            executed.append((op, via))
            ev, detail = await pair.do(op, via)
            details.append(detail)
            if ev["outcome"] in ("hang", "error"):
                break
        return pair.events

    events = vt.run(main())
    return events, details, [x for x in executed if x is not None]
