"""C17 watchdog: step budget, wall budget and exception census around one injected unit.

* `WatchLoop` = lib.vt.VirtualLoop that counts event-loop iterations and raises
  `StepBudgetExceeded` (a BaseException: bumble's `except Exception` cannot swallow it) when one
  injected unit keeps the loop busy for more than `budget` iterations (a busy loop made of
  call_soon / zero-delay timers; deterministic).
* `wall(seconds)` arms `signal.setitimer` (ITIMER_PROF for `seconds` of CPU, ITIMER_REAL as a backstop for blocking
  code); the handler raises `WallBudgetExceeded` (BaseException) inside whatever code is running (a busy loop inside
  one callback).
* `Census` uses `sys.monitoring` (PEP 669, RAISE events) to see every exception raised in code of the
  tree under test, even those the stack catches and logs: that is how a swallowed RecursionError is
  seen, and how an injection is classified `ok` (nothing raised) / `exc` (ordinary exception).
"""
from __future__ import annotations

import asyncio
import contextlib
import os
import signal
import sys

from lib import vt


class StepBudgetExceeded(BaseException):
    pass


class WallBudgetExceeded(BaseException):
    pass


class WatchLoop(vt.VirtualLoop):
    def __init__(self):
        super().__init__()
        self.steps = 0
        self.budget = None
        self.loop_errors = []  # contexts handed to the loop exception handler
        self.fatal = None  # a budget exception that asyncio's Handle._run caught (it catches BaseException)
        self.set_exception_handler(self._on_loop_error)

    def _on_loop_error(self, loop, context):
        exc = context.get("exception")
        if isinstance(exc, (WallBudgetExceeded, StepBudgetExceeded)):
            self.fatal = type(exc).__name__
            self.stop()
        self.loop_errors.append(type(exc).__name__ if exc is not None else context.get("message", "?"))

    def _run_once(self):
        self.steps += 1
        if self.budget is not None and self.steps > self.budget:
            self.budget = None
            raise StepBudgetExceeded()
        super()._run_once()


def new_loop() -> WatchLoop:
    loop = WatchLoop()
    asyncio.set_event_loop(loop)
    return loop


fired = 0  # how many times a budget timer has fired in this process (an exception raised inside a __del__ is lost)


def _on_alarm(signum, frame):
    global fired
    fired += 1
    raise WallBudgetExceeded()


BLOCKING_FACTOR = 15  # wall-clock backstop for code that blocks without using the CPU


@contextlib.contextmanager
def wall(seconds):
    """Budget for the enclosed block (main thread only): `seconds` of CPU time of this process (ITIMER_PROF: a busy
    loop burns CPU; unlike a plain wall clock this does not fire because the machine is overloaded) and
    BLOCKING_FACTOR x seconds of wall clock (ITIMER_REAL: code that blocks).  Both repeat, so that a callback that
    spins again is interrupted again."""
    old_a = signal.signal(signal.SIGALRM, _on_alarm)
    old_p = signal.signal(signal.SIGPROF, _on_alarm)
    signal.setitimer(signal.ITIMER_PROF, seconds, seconds)
    signal.setitimer(signal.ITIMER_REAL, seconds * BLOCKING_FACTOR, seconds * BLOCKING_FACTOR)
    try:
        yield
    finally:
        signal.setitimer(signal.ITIMER_PROF, 0)
        signal.setitimer(signal.ITIMER_REAL, 0)
        signal.signal(signal.SIGALRM, old_a)
        signal.signal(signal.SIGPROF, old_p)


class Census:
    """Exceptions raised in files of the tree under test while `active`."""

    TOOL = 4

    def __init__(self, tree_marker=None):
        import bumble

        self.marker = tree_marker or (os.path.dirname(os.path.abspath(bumble.__file__)) + os.sep)
        self.active = False
        self.count = 0
        self.recursion = False
        self.first = None  # (exception type name, qualname of the raising function)
        self.types = set()
        mon = sys.monitoring
        if mon.get_tool(self.TOOL) is None:
            mon.use_tool_id(self.TOOL, "verif-c17")
        mon.register_callback(self.TOOL, mon.events.RAISE, self._on_raise)
        mon.set_events(self.TOOL, mon.events.RAISE)

    def _on_raise(self, code, offset, exc):
        if not self.active:
            return
        if isinstance(exc, RecursionError):
            self.recursion = True
        if isinstance(exc, (StopIteration, StopAsyncIteration, GeneratorExit, asyncio.CancelledError)):
            return
        if not code.co_filename.startswith(self.marker):
            return
        self.count += 1
        name = type(exc).__name__
        self.types.add(name)
        if self.first is None:
            self.first = (name, code.co_qualname)

    def begin(self):
        self.count = 0
        self.recursion = False
        self.first = None
        self.types = set()
        self.active = True

    def end(self):
        self.active = False
        return self

    def release(self):
        mon = sys.monitoring
        self.active = False
        mon.set_events(self.TOOL, 0)
        mon.register_callback(self.TOOL, mon.events.RAISE, None)
        mon.free_tool_id(self.TOOL)


_census = None


def census() -> Census:
    global _census
    if _census is None:
        _census = Census()
    return _census
