"""C17: execute one abstract behaviour of Stack/Robust.tla (channel, fault-class sequence, probe) with
concrete bytes on a real connection, under the watchdog, and log the events RobustTrace.tla validates."""
from __future__ import annotations

import hashlib
import os
import random

from lib import c17_watch as watch
from lib import vt

STEP_BUDGET = 2000  # event-loop iterations per injected unit (ordinary units need < 60)
WALL_BUDGET = 2.0  # seconds of wall clock per injected unit
PROBE_STEPS = 200000
PROBE_WALL = 20.0


def ev(e, ch="", cls="", length=0, disc="none", outcome="", steps=0, conn=False, open_=False, ok=False, txn=False):
    # every record carries every field (Json -> TLA+ records must be uniform)
    return {"e": e, "ch": ch, "cls": cls, "len": length, "disc": disc, "outcome": outcome, "steps": steps, "conn": conn, "open": open_, "ok": ok,
            "txn": txn}


def seq_seed(seed, channel, seq, round_=0):
    h = hashlib.sha1(f"{seed}|{channel}|{','.join(seq)}|{round_}".encode()).hexdigest()
    return int(h[:12], 16)


def run_sequence(channel, seq, seed, units=None, rig_factory=None, keep_units=True, variants=None):
    """-> dict(channel, seq, seed, trace=[events], units=[[(target, hex)]], labels, stage, why, first_exc)
    units: concrete bytes to use instead of generating them (replay).
    variants: per position the index of the instance of an enumerated class (None: drawn).
    labels: per position the name of the instance used ("" for drawn classes); stage: the part of the probe that failed.
    Harness failures (rig cannot be built, corpus missing ...) raise."""
    from lib import c17_rigs as rigs

    rng = random.Random(seed)
    fired0 = watch.fired
    loop = watch.new_loop()
    cen = watch.census()
    factory = rig_factory or rigs.RIGS[channel]
    r = factory(rng)
    trace = []
    stage = ""
    used = []
    labels = []
    why = ""
    first_exc = None
    try:
        with watch.wall(60):
            vt.run(r.setup(), loop)
        ended = False
        for i, cls in enumerate(seq):
            if units is not None:
                unit = [(t, bytes.fromhex(h)) for t, h in units[i]]
                if cls in ("chan_disc", "rfc_disc"):
                    r.closed_by_harness = True
                labels.append("")
            else:
                unit = r.gen(cls, variants[i] if variants else None)
                labels.append(r.last_label)
            r.begin_unit(cls)
            disc = r.disc_of(cls, unit)
            txn = bool(cls == "advance" or r.starts_txn(unit))
            r.txn_open = r.txn_open or txn
            used.append([(t, d.hex()) for t, d in unit])
            trace.append(ev("inject", ch=channel, cls=cls, length=sum(len(d) for _, d in unit), disc=disc, txn=txn))
            outcome = None
            loop.steps = 0
            loop.budget = STEP_BUDGET
            nerr = len(loop.loop_errors)
            send_err = []
            cen.begin()
            try:
                with watch.wall(WALL_BUDGET):
                    loop.call_soon(_send, r, unit, send_err)  # sends need the running loop
                    loop.run_until_quiescent(max_virtual=r.settle)
            except watch.StepBudgetExceeded:
                outcome = "busy"
            except watch.WallBudgetExceeded:
                outcome = "timeout"
            except RecursionError:
                outcome = "recursion"
            finally:
                loop.budget = None
                cen.end()
            if loop.fatal:  # raised inside a callback and caught by asyncio's Handle._run
                outcome = "timeout" if loop.fatal == "WallBudgetExceeded" else "busy"
                loop.fatal = None
            if send_err:
                raise send_err[0]  # the attacking side itself failed: harness problem
            if r.use_errors and outcome is None:
                raise r.use_errors[0]  # the harness' own "normal use" script failed
            for t in r.use_tasks:
                t.cancel()
            r.use_tasks = []
            if outcome is None:
                if cen.recursion:
                    outcome = "recursion"
                elif cen.count or len(loop.loop_errors) > nerr:
                    outcome = "exc"
                else:
                    outcome = "ok"
            if cen.first and first_exc is None:
                first_exc = f"{cen.first[0]} in {cen.first[1]}"
            trace.append(ev("done", outcome=outcome, steps=min(loop.steps, 1000000)))
            if outcome in ("busy", "timeout"):
                why = f"processing of the unit did not end: {outcome} after {loop.steps} loop steps"
                ended = True
                break
            if outcome == "recursion":
                why = "RecursionError while processing the unit" + (f" (first raised: {cen.first[0]} in {cen.first[1]})" if cen.first else "")
            conn = bool(r.conn_alive())
            open_ = bool(conn and r.chan_open())
            trace.append(ev("alive", conn=conn, open_=open_))
            r.txn_open = r.txn_open and open_
            if not conn:
                if disc != "conn":
                    why = "the connection is no longer in Device.connections"
                ended = True
                break
            if not open_:
                ok = bool(_run(loop, r.reopen(), PROBE_STEPS, PROBE_WALL)[0])
                r.txn_open = False
                trace.append(ev("reopen", ok=ok))
                if not ok:
                    why = f"the channel could not be opened again: {getattr(r, 'reopen_error', '')}"
                    ended = True
                    break
        if not ended and r.stale():
            ok = bool(_run(loop, r.reopen(), PROBE_STEPS, PROBE_WALL)[0])
            r.txn_open = False
            trace.append(ev("reopen", ok=ok))
            if not ok:
                why = f"a fresh channel could not be opened: {getattr(r, 'reopen_error', '')}"
                ended = True
        if not ended and r.txn_open:
            # the peer gives up the transaction it started, the ordinary way; no verdict on this step
            trace.append(ev("abandon"))
            _, err = _run(loop, r.abandon(), PROBE_STEPS, PROBE_WALL)
            r.txn_open = False
            if err:
                stage = "abandon"
                trace.append(ev("probe", ch=channel))
                trace.append(ev("probe_ok", ok=False))
                why = f"giving up the transaction in progress did not complete: {err}"
                ended = True
        if not ended:
            trace.append(ev("probe", ch=channel))
            res, err = _run(loop, r.probe(), PROBE_STEPS, PROBE_WALL)
            if err:
                ok, why = False, f"probe did not complete: {err}"
            else:
                ok, why = res
            if not ok:
                stage = r.stage
            trace.append(ev("probe_ok", ok=bool(ok)))
    finally:
        try:
            with watch.wall(30):
                vt.close_loop(loop)
        except BaseException:
            pass
    if os.environ.get("C17_DEBUG_ALARMS") and watch.fired != fired0:
        print("ALARM", channel, seq, labels, [e.get("outcome") for e in trace if e["e"] == "done"], flush=True)
    return {"channel": channel, "seq": list(seq), "seed": seed, "trace": trace, "units": used if keep_units else None, "why": why, "first_exc": first_exc,
            "labels": labels, "stage": stage, "variants": list(variants) if variants else None}


def _send(r, unit, errors):
    try:
        r.send_unit(unit)
    except Exception as e:
        errors.append(e)


def _run(loop, coro, steps, wall_s):
    """run a harness coroutine (reopen / probe) to completion; -> (result, error text)"""
    loop.steps = 0
    loop.budget = steps
    try:
        with watch.wall(wall_s):
            res = vt.run(coro, loop)
        if loop.fatal:
            what, loop.fatal = loop.fatal, None
            return None, f"{what} inside a callback (wall budget {wall_s} s)"
        return res, None
    except vt.Quiescent:
        return None, "never completes (event loop quiescent)"
    except watch.StepBudgetExceeded:
        return None, f"event loop still busy after {steps} steps"
    except watch.WallBudgetExceeded:
        return None, f"wall budget of {wall_s} s exceeded"
    except RecursionError:
        return None, "RecursionError"
    finally:
        loop.budget = None
