"""Driver protocol: Ctx handed to drivers, Report they fill, verdict handling."""
from __future__ import annotations

import hashlib
import json
import os
import random
import re
import time

VERIF = os.path.dirname(os.path.dirname(os.path.abspath(__file__)))


class Violation:
    def __init__(self, sig, summary, replay=None):
        self.sig = sig  # stable identification of *what* fails (input class / call site / history)
        self.summary = summary
        self.replay = replay or {}

    def as_dict(self):
        return {"sig": self.sig, "summary": self.summary, "replay": self.replay}


class Report:
    def __init__(self, prop, level):
        self.prop = prop
        self.level = level
        self.violations = []
        self.mc_runs = []  # dicts: spec, cfg, states, transitions, coverage, constants
        self.traces = 0  # traces / behaviours executed against the implementation
        self.evaluations = 0
        self._distinct = set()
        self.samples = []
        self.rule = ""
        self.assumptions = []
        self.exhaustive = None
        self.extra = {}

    # --- filling
    def add_mc(self, name, res, constants=None):
        self.mc_runs.append(
            {
                "spec": name,
                "states": res.get("states", 0),
                "transitions": res.get("transitions", 0),
                "actions": {k: v["taken"] for k, v in res.get("coverage", {}).items()},
                "constants": constants or {},
                "wall_s": round(res.get("wall_s", 0), 2),
            }
        )

    def case(self, key, nontrivial=True, sample=None):
        """Count one execution against the implementation."""
        self.evaluations += 1
        if nontrivial:
            h = hashlib.sha1(repr(key).encode()).hexdigest()[:16]
            self._distinct.add(h)
        if sample is not None and len(self.samples) < 6:
            self.samples.append(sample)

    def violation(self, sig, summary, replay=None):
        # de-duplicate by signature; keep first replay, count the rest
        for v in self.violations:
            if v.sig == sig:
                v.replay.setdefault("more", 0)
                v.replay["more"] += 1
                return v
        v = Violation(sig, summary, replay)
        self.violations.append(v)
        return v

    @property
    def distinct(self):
        return len(self._distinct)

    def coverage(self):
        cov = {
            "evaluations": max(self.evaluations, 1),
            "distinct_nontrivial": self.distinct,
            "rule": self.rule,
            "samples": self.samples or ["(none)"],
            "traces_validated_against_impl": self.traces,
            "states": sum(r["states"] for r in self.mc_runs),
            "transitions": sum(r["transitions"] for r in self.mc_runs),
            "mc_runs": self.mc_runs,
        }
        if self.exhaustive is not None:
            cov["exhaustive"] = bool(self.exhaustive)
        cov.update(self.extra)
        return cov


class Ctx:
    def __init__(self, prop, tier, seed, replay=None, selftest=False):
        self.prop = prop
        self.tier = tier
        self.seed = seed
        self.rng = random.Random(seed * 1000003 + int(hashlib.sha1(prop.encode()).hexdigest()[:6], 16))
        self.replay = replay
        self.selftest = selftest
        self.t0 = time.time()
        self.out = os.path.join(os.environ.get("VERIF_OUT") or os.path.join(VERIF, "out"), prop)
        os.makedirs(self.out, exist_ok=True)

    @property
    def quick(self):
        return self.tier == "quick"

    def spec(self, *parts):
        return os.path.join(VERIF, "specs", *parts)

    def elapsed(self):
        return time.time() - self.t0


# ----------------------------------------------------------------------------- findings
def load_findings():
    p = os.path.join(VERIF, "known_findings.json")
    if not os.path.exists(p):
        return {"findings": [], "fixed": []}
    with open(p) as f:
        return json.load(f)


def match_finding(findings, prop, sig):
    for f in findings.get("findings", []):
        if f.get("property") != prop:
            continue
        if re.fullmatch(f["match"], sig):
            return f
    return None
