"""C09: configurations of specs/L2cap/ChanTable.tla, its state graph as a list of labelled edges, and the
projection of graph paths onto executable histories (lists of batches of user operations).

A path of the graph alternates user operations (OpenReq, CancelConnect, CloseReq, Abort, Drain, LinkDown, LinkUp)
and internal steps (the Recv* handlers, a drain returning).  The real stacks take the internal steps on their own,
so a history keeps the user operations only; consecutive user operations with no internal step between them form
one batch = they are issued in the same event loop iteration (simultaneous close, concurrent opens on two links,
link drop while a request is in flight ...).
"""
from __future__ import annotations

import os
import re
from collections import deque

from lib import tlaval, tlc

ALL_OPS = ["open", "cancel", "close", "abort", "drain", "down", "up"]
ALL_OPS_PARTIAL = ALL_OPS + ["partial"]
USER = {"OpenReq", "CancelConnect", "CloseReq", "Abort", "Drain", "LinkDown", "LinkUp"}
INVARIANTS = ["TypeOK", "Inv_Exact", "Inv_Agree", "Inv_Unique", "Inv_Reusable", "Inv_Released", "Inv_Once"]


def _strs(xs):
    return "{" + ", ".join(f'"{x}"' for x in xs) + "}"


def _nums(xs):
    return "{" + ", ".join(str(x) for x in xs) + "}"


def cfg_text(conns, le, cids, maxops, maxreq=2, maxn=2, ops=ALL_OPS, kinds=("le", "ecred", "classic"), atomic=False, bugs=(),
             record=False, spec="Spec", invariants=INVARIANTS, frame=True):
    t = (f"SPECIFICATION {spec}\nCONSTANTS\n  Conns = {_nums(conns)}\n  LeConns = {_nums(le)}\n  Cids = {_nums(cids)}\n"
         f"  MaxOps = {maxops}\n  MaxReq = {maxreq}\n  MaxN = {maxn}\n  RecordDone = {'TRUE' if record else 'FALSE'}\n"
         f"  UserOps = {_strs(ops)}\n  Kinds = {_strs(kinds)}\n  Atomic = {'TRUE' if atomic else 'FALSE'}\n  Bugs = {_strs(bugs)}\n")
    for i in invariants:
        t += f"INVARIANT {i}\n"
    if frame:
        t += "PROPERTY Frame_Indep\n"
    return t + "CHECK_DEADLOCK FALSE\n"


def write_cfg(ctx, name, text):
    p = os.path.join(ctx.out, name)
    with open(p, "w") as f:
        f.write(text)
    return p


# ----------------------------------------------------------------------------- graph as edges
_EDGE = re.compile(r'^(-?\d+) -> (-?\d+) \[label="((?:[^"\\]|\\.)*)"')
_INIT = re.compile(r'^(-?\d+) \[label=.*style = filled')


def read_edges(dot):
    """-> (init node, [(src, dst, action, args)]); node labels are not parsed (not needed, and slow)"""
    cache = {}
    edges = []
    init = None
    with open(dot) as f:
        for line in f:
            m = _EDGE.match(line)
            if m:
                lbl = m.group(3)
                if lbl not in cache:
                    cache[lbl] = tlc.parse_action_label(tlc._unesc(lbl))
                name, args = cache[lbl]
                edges.append((int(m.group(1)), int(m.group(2)), name, args))
            elif init is None and "style = filled" in line:
                m2 = re.match(r"^(-?\d+) \[", line)
                if m2:
                    init = int(m2.group(1))
    if init is None or not edges:
        raise tlc.TlcError("tour graph dump is empty")
    return init, edges


def op_of(name, args):
    if name == "OpenReq":
        s, c, kind, scs, psm = args
        return {"k": "open", "s": str(s), "c": int(c), "kind": str(kind), "n": len(scs), "psm": str(psm)}
    if name == "CancelConnect":
        return {"k": "cancel", "s": str(args[0]), "c": int(args[1])}
    if name in ("CloseReq", "Abort", "Drain"):
        return {"k": {"CloseReq": "close", "Abort": "abort", "Drain": "drain"}[name], "s": str(args[0]), "c": int(args[1]), "i": int(args[2]) - 1}
    if name == "LinkDown":
        return {"k": "down", "c": int(args[0])}
    if name == "LinkUp":
        return {"k": "up", "c": int(args[0])}
    raise ValueError(name)


def history_of(path_edges):
    steps, batch = [], []
    for (_, _, name, args) in path_edges:
        if name in USER:
            batch.append(op_of(name, args))
        elif batch:
            steps.append(batch)
            batch = []
    if batch:
        steps.append(batch)
    return steps


def histories(init, edges):
    """one history per edge (shortest path from Init to the edge's source, then the edge), de-duplicated.
    Every transition of the graph is on at least one executed path."""
    out = {}
    by_src = {}
    for i, e in enumerate(edges):
        by_src.setdefault(e[0], []).append(i)
    prev = {init: None}
    dq = deque([init])
    while dq:
        n = dq.popleft()
        for i in by_src.get(n, ()):
            d = edges[i][1]
            if d not in prev:
                prev[d] = i
                dq.append(d)

    memo = {init: ()}

    def path(n):
        stack = []
        while n not in memo:
            stack.append(n)
            n = edges[prev[n]][0]
        base = memo[n]
        for m in reversed(stack):
            base = base + (prev[m],)
            memo[m] = base
        return base

    covered = 0
    for i, e in enumerate(edges):
        if e[0] not in prev:
            continue
        covered += 1
        h = history_of([edges[j] for j in path(e[0]) + (i,)])
        if not h:
            continue
        key = repr(h)
        if key not in out:
            out[key] = h
    return list(out.values()), covered


def relabel(history, c):
    return [[dict(op, c=c) for op in batch] for batch in history]


def merge(h1, h2):
    """two single-connection histories run side by side on two links, step by step"""
    n = max(len(h1), len(h2))
    out = []
    for i in range(n):
        out.append((h1[i] if i < len(h1) else []) + (h2[i] if i < len(h2) else []))
    return out
