"""C09 puppet: a scripted raw L2CAP peer (signalling only) on top of a real Device / Host / Controller.

Everything below L2CAP is bumble's real stack; the signalling channel (CID 5 on an LE link, CID 1 on a classic
link) is spoken by this file: LE credit based (0x14 / 0x15), enhanced credit based (0x17 / 0x18), classic
connection + configuration (0x02 - 0x05) and disconnection (0x06 / 0x07), written from Core Vol 3 Part A; none of
bumble's l2cap.py is used.  The puppet chooses its OWN channel identifiers by a scripted policy (so the two ends
of a channel use different CIDs, and a closed CID is re-used at once or never), refuses PSMs nobody listens on
with a scripted result code, never returns credits (a drain() on the other end blocks until the channel goes
away) and keeps its own channel table, which is what the trace reports for its side.
"""
from __future__ import annotations

import asyncio
import struct

LE_SIG = 0x0005
BR_SIG = 0x0001
CMD_REJECT = 0x01
CONN_REQ, CONN_RSP, CONF_REQ, CONF_RSP, DISC_REQ, DISC_RSP = 0x02, 0x03, 0x04, 0x05, 0x06, 0x07
LE_CONN_REQ, LE_CONN_RSP, FLOW_CREDIT, ECRED_CONN_REQ, ECRED_CONN_RSP = 0x14, 0x15, 0x16, 0x17, 0x18


class PuppetRefused(Exception):
    c09_refused = True


def sig(code, ident, data):
    return struct.pack("<BBH", code, ident, len(data)) + data


def u16s(data, off):
    n = (len(data) - off) // 2
    return list(struct.unpack_from("<" + "H" * n, data, off))


class PuppetEnd:
    puppet = True
    side = "p"

    def __init__(self, world, c, stack, policy):
        from lib import c09_rig as R

        self.R = R
        self.w = world
        self.c = c
        self.stack = stack
        self.device = stack.device
        self.host = stack.host
        self.policy = policy
        self.kind = world.kinds[c]
        self.sig_cid = LE_SIG if self.kind == "le" else BR_SIG
        self.handle = None
        self.last_handle = None
        self.chans = {}  # local cid -> dict(rcid, kind, st, fut, cfg_in, cfg_out)
        self.requests = {}  # ident -> dict(kind, cids, fut, o)
        self.ident = 0
        self.rot = 0
        self.errors = []
        self.channels = []  # interface compatibility with BumbleEnd (unused)
        self.host.remove_listener("l2cap_pdu", self.device.on_l2cap_pdu)
        self.host.on("l2cap_pdu", self._on_pdu)

    # ------------------------------------------------------------------ link life
    def on_link(self, handle):
        self.handle = handle
        self.last_handle = handle
        self.chans = {}
        self.requests = {}
        self.ident = 0
        conn = self.w.conn[("p", self.c)]
        conn.on("disconnection", lambda reason: self.on_link_gone())

    def on_link_gone(self):
        self.handle = None
        for ch in list(self.chans.values()):
            f = ch.get("fut")
            if f is not None and not f.done():
                f.cancel()
        for r in list(self.requests.values()):
            if not r["fut"].done():
                r["fut"].cancel()
        self.chans = {}
        self.requests = {}

    # ------------------------------------------------------------------ plumbing
    def _next_ident(self):
        self.ident = self.ident % 255 + 1
        return self.ident

    def _send(self, payload):
        if self.handle is not None:
            self.device.send_l2cap_pdu(self.handle, self.sig_cid, bytes(payload))

    def _alloc(self, n):
        """n local CIDs by the scripted policy"""
        pol = self.policy.get("cids", "high")
        lo, hi = 0x40, 0x7F
        used = set(self.chans)
        out = []
        if pol == "rotate":  # never the CID that was just released
            span = hi - 0x50 + 1
            while len(out) < n:
                cid = 0x50 + self.rot % span
                self.rot += 1
                if cid not in used and cid not in out:
                    out.append(cid)
            return out
        base = {"same": 0x40, "high": 0x60, "reuse": 0x48}.get(pol, 0x60)
        for cid in range(base, hi + 1):
            if cid not in used:
                out.append(cid)
                if len(out) == n:
                    return out
        raise self.R.HarnessError("puppet out of CIDs")

    def _on_pdu(self, handle, cid, pdu):
        if cid == self.sig_cid and handle == self.handle:
            try:
                self._on_signal(pdu)
            except struct.error as e:
                self.errors.append(f"malformed signalling from the stack under test: {pdu.hex()} ({e})")
        elif cid >= 0x40:
            pass  # data on a dynamic channel: consumed, no credits returned
        else:
            self.device.on_l2cap_pdu(handle, cid, pdu)  # ATT, SMP ...: the real device

    # ------------------------------------------------------------------ interface used by lib.c09_rig.World
    def table_keys(self):
        return set(self.chans)

    def open_channels(self):
        return sorted(cid for cid, ch in self.chans.items() if ch["st"] == "open")

    def cid_of(self, ch):
        return ch

    def adopt(self, ch):
        pass

    async def open(self, kind, n, psm_class, alt, o=None):
        R = self.R
        cids = self._alloc(n)
        ident = self._next_ident()
        fut = asyncio.get_running_loop().create_future()
        for cid in cids:
            self.chans[cid] = {"rcid": 0, "kind": kind, "st": "connecting", "fut": None, "cfg_in": False, "cfg_out": False}
        self.requests[ident] = {"kind": kind, "cids": cids, "fut": fut, "o": o}
        if kind == "classic":
            psm = R.CL_PSM_NONE if psm_class == "none" else R.CL_PSMS[alt % 2]
            self._send(sig(CONN_REQ, ident, struct.pack("<HH", psm, cids[0])))
        elif kind == "le":
            psm = R.LE_PSM_NONE if psm_class == "none" else R.LE_PSMS[alt % 2]
            self._send(sig(LE_CONN_REQ, ident, struct.pack("<HHHHH", psm, cids[0], 64, 32, 2)))
        else:
            psm = R.LE_PSM_NONE if psm_class == "none" else R.LE_PSMS[alt % 2]
            self._send(sig(ECRED_CONN_REQ, ident, struct.pack("<HHHH", psm, 64, 64, 2) + b"".join(struct.pack("<H", x) for x in cids)))
        self._last_request = ident
        try:
            await fut
        finally:
            self.requests.pop(ident, None)
        return cids

    def cancel(self, o):
        """give up the latest pending request (the World cancels by operation number; the puppet has at most one
        pending request per step)"""
        task = self.w.tasks[o][0]
        for ident, r in list(self.requests.items()):
            if not r["fut"].done() and r.get("o") == o:
                for cid in r["cids"]:
                    if self.chans.get(cid, {}).get("st") == "connecting":
                        self.chans.pop(cid, None)
                self.requests.pop(ident, None)
        task.cancel()

    async def close(self, cid):
        ch = self.chans[cid]
        ch["st"] = "closing"
        ch["fut"] = asyncio.get_running_loop().create_future()
        self._send(sig(DISC_REQ, self._next_ident(), struct.pack("<HH", ch["rcid"], cid)))
        await ch["fut"]

    def abort(self, cid):
        ch = self.chans.pop(cid, None)
        if ch and ch.get("fut") is not None and not ch["fut"].done():
            ch["fut"].set_result(None)

    async def drain(self, cid):
        raise self.R.HarnessError("the puppet has no drain")

    def tables(self):
        S = sorted(self.chans)
        L = sorted(ch["rcid"] for ch in self.chans.values() if ch["kind"] != "classic" and ch["st"] in ("open", "closing")) if self.kind == "le" else []
        return S, L, len(self.requests), 0

    # ------------------------------------------------------------------ signalling
    def _listening(self, psm):
        return psm in self.R.LE_PSMS or psm in self.R.CL_PSMS

    def _refusal(self):
        return self.policy.get("refuse", 2)

    def _on_signal(self, pdu):
        if len(pdu) < 4:
            return
        code, ident, ln = struct.unpack_from("<BBH", pdu, 0)
        data = pdu[4 : 4 + ln]
        if code in (LE_CONN_REQ, ECRED_CONN_REQ, CONN_REQ) and self._refusal() == "reject":
            psm = struct.unpack_from("<H", data, 0)[0]
            if not self._listening(psm):
                self._send(sig(CMD_REJECT, ident, struct.pack("<H", 0)))  # command not understood
                return
        if code == LE_CONN_REQ:
            psm, scid, mtu, mps, credits = struct.unpack_from("<HHHHH", data, 0)
            if not self._listening(psm):
                self._send(sig(LE_CONN_RSP, ident, struct.pack("<HHHHH", 0, 23, 23, 0, self._refusal())))
                return
            if any(ch["rcid"] == scid and ch["kind"] != "classic" and ch["st"] != "connecting" for ch in self.chans.values()):
                self._send(sig(LE_CONN_RSP, ident, struct.pack("<HHHHH", 0, 23, 23, 0, 0x000A)))
                return
            (lcid,) = self._alloc(1)
            self.chans[lcid] = {"rcid": scid, "kind": "le", "st": "open", "fut": None}
            self._send(sig(LE_CONN_RSP, ident, struct.pack("<HHHHH", lcid, 64, 32, 2, 0)))
        elif code == ECRED_CONN_REQ:
            psm, mtu, mps, credits = struct.unpack_from("<HHHH", data, 0)
            scids = u16s(data, 8)
            if not self._listening(psm):
                self._send(sig(ECRED_CONN_RSP, ident, struct.pack("<HHHH", 23, 23, 0, self._refusal()) + b"\0\0" * len(scids)))
                return
            if any(ch["rcid"] in scids and ch["kind"] != "classic" and ch["st"] != "connecting" for ch in self.chans.values()):
                self._send(sig(ECRED_CONN_RSP, ident, struct.pack("<HHHH", 23, 23, 0, 0x000A) + b"\0\0" * len(scids)))
                return
            if self.policy.get("partial") and len(scids) > 1:
                # only the first channel is accepted: "some connections refused - insufficient resources"
                (lcid,) = self._alloc(1)
                self.chans[lcid] = {"rcid": scids[0], "kind": "ecred", "st": "open", "fut": None}
                self._send(sig(ECRED_CONN_RSP, ident, struct.pack("<HHHH", 64, 64, 2, 4) + struct.pack("<H", lcid) + b"\0\0" * (len(scids) - 1)))
                return
            lcids = self._alloc(len(scids))
            for lcid, scid in zip(lcids, scids):
                self.chans[lcid] = {"rcid": scid, "kind": "ecred", "st": "open", "fut": None}
            self._send(sig(ECRED_CONN_RSP, ident, struct.pack("<HHHH", 64, 64, 2, 0) + b"".join(struct.pack("<H", x) for x in lcids)))
        elif code == LE_CONN_RSP:
            r = self.requests.get(ident)
            if r is None or r["fut"].done():
                return
            dcid, mtu, mps, credits, result = struct.unpack_from("<HHHHH", data, 0)
            cid = r["cids"][0]
            if result != 0:
                self.chans.pop(cid, None)
                r["fut"].set_exception(PuppetRefused(f"result {result}"))
            else:
                self.chans[cid].update(rcid=dcid, st="open")
                r["fut"].set_result(None)
        elif code == ECRED_CONN_RSP:
            r = self.requests.get(ident)
            if r is None or r["fut"].done():
                return
            mtu, mps, credits, result = struct.unpack_from("<HHHH", data, 0)
            dcids = u16s(data, 8)
            ok = False
            for i, cid in enumerate(r["cids"]):
                d = dcids[i] if i < len(dcids) else 0
                if d:
                    self.chans[cid].update(rcid=d, st="open")
                    ok = True
                else:
                    self.chans.pop(cid, None)
            if ok and result == 0:
                r["fut"].set_result(None)
            else:
                r["fut"].set_exception(PuppetRefused(f"result {result}"))
        elif code == CONN_REQ:
            psm, scid = struct.unpack_from("<HH", data, 0)
            if not self._listening(psm):
                self._send(sig(CONN_RSP, ident, struct.pack("<HHHH", 0, scid, self._refusal(), 0)))
                return
            (lcid,) = self._alloc(1)
            self.chans[lcid] = {"rcid": scid, "kind": "classic", "st": "open", "fut": None, "cfg_in": False, "cfg_out": False}
            self._send(sig(CONN_RSP, ident, struct.pack("<HHHH", lcid, scid, 0, 0)))
            self._send(sig(CONF_REQ, self._next_ident(), struct.pack("<HH", scid, 0) + bytes([0x01, 0x02]) + struct.pack("<H", 1024)))
        elif code == CONN_RSP:
            dcid, scid, result, status = struct.unpack_from("<HHHH", data, 0)
            r = self.requests.get(ident)
            if r is None or r["fut"].done():
                return
            cid = r["cids"][0]
            if result == 1:  # pending
                return
            if result != 0:
                self.chans.pop(cid, None)
                r["fut"].set_exception(PuppetRefused(f"result {result}"))
                return
            self.chans[cid].update(rcid=dcid, st="config", req=ident)
            self._send(sig(CONF_REQ, self._next_ident(), struct.pack("<HH", dcid, 0) + bytes([0x01, 0x02]) + struct.pack("<H", 1024)))
        elif code == CONF_REQ:
            dcid, flags = struct.unpack_from("<HH", data, 0)
            ch = self.chans.get(dcid)
            if ch is None:
                self._send(sig(CMD_REJECT, ident, struct.pack("<HHH", 2, dcid, 0)))
                return
            self._send(sig(CONF_RSP, ident, struct.pack("<HHH", ch["rcid"], 0, 0)))
            ch["cfg_in"] = True
            self._configured(dcid)
        elif code == CONF_RSP:
            scid, flags, result = struct.unpack_from("<HHH", data, 0)
            ch = self.chans.get(scid)
            if ch is not None:
                ch["cfg_out"] = True
                self._configured(scid)
        elif code == DISC_REQ:
            dcid, scid = struct.unpack_from("<HH", data, 0)
            ch = self.chans.get(dcid)
            if ch is None or ch["rcid"] != scid or ch["st"] == "connecting":
                self._send(sig(CMD_REJECT, ident, struct.pack("<HHH", 2, dcid, scid)))  # invalid CID in request
                return
            self._send(sig(DISC_RSP, ident, struct.pack("<HH", dcid, scid)))
            self.chans.pop(dcid, None)
            if ch.get("fut") is not None and not ch["fut"].done():
                ch["fut"].set_result(None)
            self._fail_request_of(dcid)
        elif code == DISC_RSP:
            dcid, scid = struct.unpack_from("<HH", data, 0)
            ch = self.chans.get(scid)
            if ch is not None and ch["st"] == "closing" and ch["rcid"] == dcid:
                self.chans.pop(scid, None)
                if ch["fut"] is not None and not ch["fut"].done():
                    ch["fut"].set_result(None)
        # FLOW_CREDIT, CMD_REJECT, anything else: nothing to do

    def _configured(self, cid):
        ch = self.chans.get(cid)
        if ch and ch.get("cfg_in") and ch.get("cfg_out") and ch["st"] == "config":
            ch["st"] = "open"
            r = self.requests.get(ch.get("req"))
            if r is not None and not r["fut"].done():
                r["fut"].set_result(None)

    def _fail_request_of(self, cid):
        for r in self.requests.values():
            if cid in r["cids"] and not r["fut"].done():
                r["fut"].set_exception(PuppetRefused("closed by the peer while connecting"))
