"""C19 (b): AVDTP / AVCTP fragmentation helpers.

* the harness's OWN spec-conformant fragmenter / packet builder (AvdtpFrag.tla / AvctpFrag.tla header
  forms; never bumble's sender), used to turn the abstract packets of a TLC state into bytes;
* the harness's own packet parser, used to log what the real senders put on a stub channel;
* replay of every bounded behaviour of the spec on the real MessageAssembler.on_pdu.
"""
from __future__ import annotations

import os
import struct

from lib import tlc

TYPE_BITS = {"single": 0, "start": 1, "cont": 2, "end": 3}
TYPE_NAMES = {v: k for k, v in TYPE_BITS.items()}
HDR = {"avdtp": (2, 3, 1), "avctp": (3, 4, 1)}

# abstract transaction label -> concrete 4-bit label (0 stays 0: the value an idle assembler may hold)
LABEL = {0: 0, 1: 5, 2: 10, 3: 15}
# AVDTP: per message (signal identifier, message type) whose payload is free-form for bumble's Message.create
AVDTP_KIND = {1: (0x01, 0), 2: (0x0B, 2), 3: (0x0D, 2), 4: (0x01, 0)}
# AVCTP: per message (pid, c_r, ipid)
AVCTP_KIND = {1: (0x110E, 0, 0), 2: (0x1234, 1, 0), 3: (0x110E, 1, 1), 4: (0xFFEE, 0, 0)}


def payload_of(m, nbytes):
    """Deterministic, message-specific payload."""
    return bytes(((m * 67 + i * 29 + (i >> 8) * 3 + 1) & 0xFF) for i in range(nbytes))


def cfg_text(proto, mtu, maxlen, maxmsgs, maxpk, maxfaults, labels=(0, 1), trace=False):
    hs, hst, hc = HDR[proto]
    inv = "" if trace else (
        "INVARIANT TypeOK\nINVARIANT Inv_Fits\nINVARIANT Inv_NoFaultExact\nINVARIANT Inv_OnlyTouchedLost\n"
        "INVARIANT Inv_SingleFaultIdentical\n")
    return (f"SPECIFICATION {'TraceSpec' if trace else 'Spec'}\nCONSTANTS\n  HdrSingle = {hs}\n  HdrStart = {hst}\n  HdrCont = {hc}\n"
            f"  Mtu = {mtu}\n  MaxLen = {maxlen}\n  MaxMsgs = {maxmsgs}\n  MaxPk = {maxpk}\n  MaxFaults = {maxfaults}\n"
            f"  Labels = {{{', '.join(map(str, labels))}}}\n{inv}CHECK_DEADLOCK FALSE\n")


def write_cfg(ctx, name, text):
    p = os.path.join(ctx.out, name)
    with open(p, "w") as f:
        f.write(text)
    return p


# ----------------------------------------------------------------------------- own packet builder / parser
def build_pdu(proto, pk, unit, pid_everywhere=False):
    """Bytes of abstract packet pk = {m, t, lab, n, off, len} (lengths in units of `unit` bytes).
    pid_everywhere (AVCTP, diagnosis only): ALSO put the PID into continue / end packets - not what the AVCTP
    specification lays out; used to tell "the assembler wants a PID in every packet" from any other defect."""
    m = pk["m"]
    data = payload_of(m, (pk["off"] + pk["len"]) * unit)[pk["off"] * unit:]
    t = pk["t"]
    lab = LABEL[pk["lab"]]
    if proto == "avdtp":
        sig, mt = AVDTP_KIND[m]
        b0 = (lab << 4) | (TYPE_BITS[t] << 2) | mt
        if t == "single":
            return bytes([b0, sig]) + data
        if t == "start":
            return bytes([b0, sig, pk["n"]]) + data
        return bytes([b0]) + data
    pid, c_r, ipid = AVCTP_KIND[m]
    b0 = (lab << 4) | (TYPE_BITS[t] << 2) | (c_r << 1) | ipid
    if t == "single":
        return bytes([b0]) + struct.pack(">H", pid) + data
    if t == "start":
        return bytes([b0, pk["n"]]) + struct.pack(">H", pid) + data
    if pid_everywhere:
        return bytes([b0]) + struct.pack(">H", pid) + data
    return bytes([b0]) + data


def parse_pdu(proto, pdu):
    """Own parser of a packet written by a sender: dict(type, lab, count, low2, extra, data)."""
    b0 = pdu[0]
    t = TYPE_NAMES[(b0 >> 2) & 3]
    out = {"type": t, "lab": b0 >> 4, "low2": b0 & 3, "count": 0, "extra": None}
    if proto == "avdtp":
        if t == "single":
            out["extra"] = pdu[1]
            out["data"] = pdu[2:]
        elif t == "start":
            out["extra"] = pdu[1]
            out["count"] = pdu[2]
            out["data"] = pdu[3:]
        else:
            out["data"] = pdu[1:]
    else:
        if t == "single":
            out["extra"] = struct.unpack_from(">H", pdu, 1)[0]
            out["data"] = pdu[3:]
        elif t == "start":
            out["count"] = pdu[1]
            out["extra"] = struct.unpack_from(">H", pdu, 2)[0]
            out["data"] = pdu[4:]
        else:
            out["data"] = pdu[1:]
    return out


# ----------------------------------------------------------------------------- real assemblers
class RealAssembler:
    """The real bumble MessageAssembler with a recording call-back; deliveries are identified by content."""

    def __init__(self, proto, sent, unit, factory=None):
        self.proto = proto
        self.unit = unit
        self.sent = sent  # tuple of {m, lab, len, ch}
        self.out = []  # (m or 0, label_ok, detail)
        if proto == "avdtp":
            from bumble import avdtp

            self.asm = (factory or avdtp.MessageAssembler)(self._on_avdtp)
        else:
            from bumble import avctp

            self.asm = (factory or avctp.MessageAssembler)(self._on_avctp)

    def _identify(self, payload, key):
        """Which sent message is byte-identical to this delivery (payload and protocol fields `key`)."""
        for s in self.sent:
            if payload == payload_of(s["m"], s["len"] * self.unit) and key(s["m"]):
                return s["m"]
        return 0

    def _on_avdtp(self, label, message):
        payload = bytes(message.payload)
        sig, mt = int(message.signal_identifier), int(message.message_type)
        m = self._identify(payload, lambda mm: AVDTP_KIND[mm] == (sig, mt))
        self.out.append({"m": m, "lab": label, "len": len(payload), "fields": (sig, mt)})

    def _on_avctp(self, label, is_command, ipid, pid, payload):
        payload = bytes(payload)
        fields = (pid, 0 if is_command else 1, 1 if ipid else 0)
        m = self._identify(payload, lambda mm: AVCTP_KIND[mm] == fields)
        self.out.append({"m": m, "lab": label, "len": len(payload), "fields": fields})

    def feed(self, pk, pid_everywhere=False):
        self.asm.on_pdu(build_pdu(self.proto, pk, self.unit, pid_everywhere))


def _seq(v):
    if isinstance(v, dict):
        return tuple(v[k] for k in sorted(v))
    return tuple(v)


def norm_state(st):
    st = dict(st)
    st["sent"] = tuple(dict(s, ch=_seq(s["ch"])) for s in _seq(st["sent"]))
    st["wire"] = _seq(st["wire"])
    st["delivered"] = _seq(st["delivered"])
    st["touched"] = frozenset(st["touched"])
    return st


def fault_class(chain_states, lost_m):
    """How the assembler was left when the START / SINGLE of the lost untouched message arrived:
    'no-fault' | 'after-unterminated' (a message was in progress) | 'after-stray' (continue / end packets
    without a message in progress were seen since the last complete message) | 'after-other'."""
    if chain_states[0]["nfaults"] == 0:
        return "no-fault"
    stray = False
    for st in chain_states:
        if not st["wire"]:
            break
        pk = st["wire"][0]
        if pk["m"] == lost_m and pk["t"] in ("start", "single"):
            if st["asm"]["st"] == "rx":
                return "after-unterminated"
            return "after-stray" if stray else "after-other"
        if pk["t"] in ("cont", "end") and st["asm"]["st"] == "idle":
            stray = True
        elif pk["t"] in ("single",) or (pk["t"] == "end" and st["asm"]["st"] == "rx"):
            stray = False
    return "after-other"


def check_step(real, st, final):
    """Compare the real assembler's deliveries with spec state st.  Returns (clause, detail, lost_m) or None."""
    touched = st["touched"]
    sent = {s["m"]: s for s in st["sent"]}
    want = [d["m"] for d in st["delivered"] if d["m"] not in touched]
    got = [r for r in real.out if r["m"] not in touched and r["m"] != 0]
    # every delivery must be byte-identical to a sent message (one fault cannot forge a count match)
    for r in real.out:
        if r["m"] == 0 and st["nfaults"] <= 1:
            return ("corrupt-delivery", f"delivered {r['len']} bytes fields={r['fields']} label={r['lab']}: not byte-identical to any sent message", 0)
    gm = [r["m"] for r in got]
    if gm != want:
        if len(gm) < len(want) and gm == want[: len(gm)]:
            lost = want[len(gm)]
            return ("untouched-lost", f"message {lost} (no packet of it was hit by a fault) was not delivered; delivered {gm}, spec {want}", lost)
        return ("untouched-order", f"delivered untouched messages {gm}, spec {want}", 0)
    for r in got:
        if r["lab"] != LABEL[sent[r["m"]]["lab"]]:
            return ("label", f"message {r['m']} delivered with label {r['lab']}, sent with {LABEL[sent[r['m']]['lab']]}", 0)
    return None


def frag_graph(ctx, rep, proto, consts, tag="", record=True):
    """Model-check the spec for these constants and return its bounded state graph (one TLC run)."""
    spec = ctx.spec("Av", "AvdtpFrag.tla" if proto == "avdtp" else "AvctpFrag.tla")
    cfg = write_cfg(ctx, f"{proto}_frag_{tag}{'_'.join(map(str, consts))}.cfg", cfg_text(proto, *consts))
    dot = os.path.join(ctx.out, f"{proto}_{tag}graph.dot")
    res = tlc.mc(spec, cfg, workers=4, dump=dot)  # one TLC run: model checking, coverage and the state graph
    if res["violation"]:
        raise tlc.TlcError(f"{os.path.basename(spec)} violates {res['violation']} in the model itself")
    need = ["DoSend", "Seal", "Run", "Recv"] + (["DoDrop", "DoDup", "DoMislabelTxn", "DoMislabelType"] if consts[4] > 0 else [])
    tlc.require_actions(res, need, proto + " frag")
    if record:
        rep.add_mc(f"Av/{os.path.basename(spec)}", res, dict(zip(["Mtu", "MaxLen", "MaxMsgs", "MaxPk", "MaxFaults"], consts)))
    g = tlc.load_graph(dot)
    os.remove(dot)
    return g


def replay_assembler(ctx, rep, proto, consts, unit=1, factory=None, tag="", graph=None):
    """Run every maximal behaviour of the spec's bounded state graph on the real assembler."""
    g = graph if graph is not None else frag_graph(ctx, rep, proto, consts, tag, record=factory is None)
    nxt = {}
    starts = []
    for (s, d, name, args) in g.edges:
        if name == "Run":
            starts.append(d)
        elif name == "Recv":
            nxt[s] = d
    starts = sorted(set(starts))
    nst = {}

    def state(n):
        if n not in nst:
            nst[n] = norm_state(g.nodes[n])
        return nst[n]

    chains = 0
    for n0 in starts:
        chain = [n0]
        while chain[-1] in nxt:
            chain.append(nxt[chain[-1]])
        states = [state(n) for n in chain]
        st0 = states[0]
        wire_sig = tuple((p["m"], p["t"], p["lab"], p["n"], p["len"]) for p in st0["wire"])

        def run_chain(pid_everywhere=False):
            real = RealAssembler(proto, st0["sent"], unit, factory)
            for k in range(1, len(states)):
                pk = states[k - 1]["wire"][0]
                try:
                    real.feed(pk, pid_everywhere)
                except Exception as e:
                    return ("raise", f"on_pdu raised {type(e).__name__}: {e} on packet {k} {pk}", 0, type(e).__name__)
                r = check_step(real, states[k], k == len(states) - 1)
                if r:
                    return r + (None,)
            return None

        bad = run_chain()
        layout = ""
        if bad and proto == "avctp":
            # diagnosis: the same behaviour with a PID also in the continue / end packets (NOT the layout of the
            # AVCTP specification).  Clean -> the one and only thing wrong is that the assembler wants that PID.
            # Still failing -> some other defect: report that one, as seen with the layout the code accepts.
            bad2 = run_chain(pid_everywhere=True)
            if bad2 is None:
                bad = ("continuation-without-pid", bad[1] + " (delivered correctly when a PID is inserted into the continue/end packets, "
                       "which the AVCTP specification does not have)", 0, None)
            else:
                bad = bad2
                layout = ":pid-in-every-packet"
        chains += 1
        rep.traces += 1
        rep.case((proto, unit, wire_sig), nontrivial=len(wire_sig) > 0,
                 sample={"proto": proto, "unit": unit, "wire": [list(w) for w in wire_sig]} if chains % 997 == 1 else None)
        if bad:
            clause, detail, lost, exc = bad
            if clause == "untouched-lost":
                cls = fault_class(states, lost)
            elif clause == "raise":
                cls = exc + ":" + ("no-fault" if st0["nfaults"] == 0 else "with-fault")
            else:
                cls = "no-fault" if st0["nfaults"] == 0 else "with-fault"
            sig = f"{proto}:assembler:{clause}:{cls}{layout}"
            if clause == "continuation-without-pid":
                sig = "avctp:assembler:continuation-without-pid"
            rep.violation(
                sig,
                f"{proto} MessageAssembler fed {[(p['m'], p['t'], 'label%d' % p['lab'], 'count%d' % p['n'], p['len'] * unit) for p in st0['wire']]} "
                f"(sent {[(s['m'], s['len'] * unit) for s in st0['sent']]}, messages hit by a fault: {sorted(st0['touched'])}): {detail}",
                {"part": "assembler", "proto": proto, "unit": unit, "sent": [dict(s, ch=list(s["ch"])) for s in st0["sent"]],
                 "wire": [dict(p) for p in st0["wire"]], "touched": sorted(st0["touched"]), "nfaults": st0["nfaults"],
                 "spec_delivered": [d["m"] for d in states[-1]["delivered"]]},
            )
    return chains


# ----------------------------------------------------------------------------- senders (code -> spec)
class StubChannel:
    """What Protocol needs of an L2CAP channel: peer_mtu, write, sink, on()."""

    EVENT_OPEN = "open"
    EVENT_CLOSE = "close"

    def __init__(self, peer_mtu):
        self.peer_mtu = peer_mtu
        self.mtu = peer_mtu
        self.written = []
        self.sink = None
        self.connection = None

    def on(self, *a, **k):
        return None

    def once(self, *a, **k):
        return None

    def write(self, pdu):
        self.written.append(bytes(pdu))

    send_pdu = write


def tx_event(proto, mtu, lab, want_extra, want_low2, payload, written):
    """One trace event for a message handed to a sender, from the packets it wrote (own parser)."""
    ev = {"e": "tx", "L": len(payload), "lab": lab, "mtu": mtu, "types": [], "labs": [], "counts": [], "lens": [], "ok": True}
    data = b""
    hs, hst, hc = HDR[proto]
    for i, pdu in enumerate(written):
        try:
            p = parse_pdu(proto, pdu)
        except Exception:
            ev["ok"] = False
            continue
        ev["types"].append(p["type"])
        ev["labs"].append(p["lab"])
        ev["counts"].append(p["count"])
        ev["lens"].append(len(p["data"]))
        data += p["data"]
        if p["low2"] != want_low2:
            ev["ok"] = False
        if p["type"] in ("single", "start") and p["extra"] != want_extra:
            ev["ok"] = False
        # the packet as a whole must fit the MTU (the spec recomputes this from lens; double check on raw bytes)
        if len(pdu) > mtu:
            ev["ok"] = False
    if data != payload:
        ev["ok"] = False
    return ev
