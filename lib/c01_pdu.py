"""C18 helpers: cases for every protocol above HCI that uses the generic field codec, event builders for the
hand-written codecs (validated by specs/Pdu/PduTrace.tla), relational checks for classes without a spec,
and process histories for specs/Pdu/Statelessness.tla."""
from __future__ import annotations

import dataclasses
import types

from . import c01_codec as cc
from . import c01_engine as eng


def _exact(cls, extra=None):
    def chk(obj):
        if type(obj) is not cls:
            return f"a {type(obj).__name__} instead of a {cls.__name__}"
        return extra(obj) if extra else None

    return chk


def _constructible(cls, fms):
    """dataclass whose required init arguments are exactly the fields the codec knows"""
    if not dataclasses.is_dataclass(cls):
        return False
    names = set()
    for fm in fms:
        names.update([fm.name] if (not fm.is_group or fm.objcls) else [s.name for s in fm.sub])
    req = {f.name for f in dataclasses.fields(cls) if f.init and f.default is dataclasses.MISSING and f.default_factory is dataclasses.MISSING}
    return req <= names


# ----------------------------------------------------------------------------- field-codec families
def _sdp_tail(rng):
    """a well-formed SDP data element (UUID / attribute-id lists as they occur in SDP requests)"""
    def u(n):
        return {"t": 3, "sz": 0, "n": 0, "v": list(rng.randbytes(n)), "kids": []}

    def i(sz, v):
        return {"t": 1, "sz": sz, "n": v if sz <= 2 else [v >> 16, v & 0xFFFF], "v": [], "kids": []}

    kids = [rng.choice([u(2), u(4), u(16), i(2, rng.randrange(65536)), i(4, rng.getrandbits(32)), i(1, rng.randrange(256))]) for _ in range(rng.choice([0, 1, 2, 5]))]
    return el_enc({"t": 6, "sz": 0, "n": 0, "v": [], "kids": kids})


def field_cases():
    """-> (cases, custom) ; custom = [(ns, name, cls, reason)] classes the generic construction cannot build"""
    from bumble import att, avdtp, avrcp, l2cap, sdp, smp

    cc.OPAQUE_TAILS["DataElement.parse_from_bytes"] = _sdp_tail
    # lists carried by callable codecs: built value-first, so that a parser that silently accepts less is seen
    cc.OPAQUE_VALUES["set_of_handles"] = [[0x0001], [0x0001, 0x0002, 0xFFFF], [0x1234, 0x00FF]]
    cc.OPAQUE_VALUES["source_cid"] = [[0x0040], [0x0040, 0x0041, 0x0042, 0x0043, 0x0044]]
    cc.OPAQUE_VALUES["destination_cid"] = [[0x0040], [0x0041, 0x0000, 0x0043]]

    cases = []
    custom = []
    # ---- L2CAP signalling
    for code, cls in sorted(l2cap.L2CAP_Control_Frame.classes.items()):
        fms = cc.model_fields(cls.fields or ())
        for fm in fms:
            if fm.name == "psm" and fm.kind is None and hasattr(cls, "parse_psm") and hasattr(cls, "serialize_psm"):
                fm.kind, fm.how = cc.K("psm"), "psm"
        ident = (int(code) * 37 + 1) % 256
        cases.append(eng.Case("l2cap", "sig", cls.__name__, cls, fms, "l2c", [int(code), ident],
                              build=lambda d, cls=cls, ident=ident: cls(identifier=ident, **d), parse=l2cap.L2CAP_Control_Frame.from_bytes,
                              expect=_exact(cls, lambda o, ident=ident, code=code: None if (o.identifier == ident and int(o.code) == int(code)) else f"identifier {o.identifier} code {o.code}")))
    star = [cc.FM(name="payload", spec="*", kind=cc.K("star"), how="plain")]
    for code in [c for c in (0x00, 0x7F, 0xFF) if c not in l2cap.L2CAP_Control_Frame.classes][:2]:
        def build(d, code=code):
            f = l2cap.L2CAP_Control_Frame(identifier=9)
            f.code = l2cap.CommandCode(code)
            f.payload = d["payload"]
            return f
        cases.append(eng.Case("l2cap", "unknown-sig", "L2CAP_Control_Frame(unknown code)", l2cap.L2CAP_Control_Frame, star, "l2c", [code, 9], build=build,
                              parse=l2cap.L2CAP_Control_Frame.from_bytes, getter=lambda o: {"payload": o.payload},
                              expect=_exact(l2cap.L2CAP_Control_Frame, lambda o, code=code: None if int(o.code) == code and o.identifier == 9 else f"code {o.code}")))
    # ---- ATT
    # the `length` of these two responses is the size of each handle / value entry of the list that follows
    # (Vol 3 Part F 3.4.4.2 / 3.4.4.10): at least handle (2) resp. handle + end group handle (4) octets
    att_valid = {"ATT_Read_By_Type_Response": lambda d: d["length"] >= 2 and len(d["attribute_data_list"]) % d["length"] == 0,
                 "ATT_Read_By_Group_Type_Response": lambda d: d["length"] >= 4 and len(d["attribute_data_list"]) % d["length"] == 0}
    att_base = {"ATT_Read_By_Type_Response": {"length": 3}, "ATT_Read_By_Group_Type_Response": {"length": 6, "attribute_data_list": b"\x01\x00\x05\x00\x0f\x18"}}
    for op, cls in sorted(att.ATT_PDU.pdu_classes.items()):
        fms = cc.model_fields(cls.fields or ())
        cases.append(eng.Case("att", "pdu", cls.__name__, cls, fms, "pfx", [int(op)], build=lambda d, cls=cls: cls(**d), parse=att.ATT_PDU.from_bytes,
                              expect=_exact(cls, lambda o, op=op: None if int(o.op_code) == int(op) else f"opcode {o.op_code}"),
                              valid=att_valid.get(cls.__name__), base_values=att_base.get(cls.__name__, {})))
    for op in [c for c in (0x3A, 0x7F, 0xFF) if c not in att.ATT_PDU.pdu_classes][:2]:
        def build(d, op=op):
            p = att.ATT_PDU()
            p.op_code = op
            p.payload = d["payload"]
            return p
        cases.append(eng.Case("att", "unknown-pdu", "ATT_PDU(unknown opcode)", att.ATT_PDU, star, "pfx", [op], build=build, parse=att.ATT_PDU.from_bytes,
                              getter=lambda o: {"payload": o.payload}, expect=_exact(att.ATT_PDU, lambda o, op=op: None if int(o.op_code) == op else f"opcode {o.op_code}")))
    # ---- SMP
    for code, cls in sorted(smp.SMP_Command.smp_classes.items()):
        fms = cc.model_fields(cls.fields or ())
        cases.append(eng.Case("smp", "cmd", cls.__name__, cls, fms, "pfx", [int(code)], build=lambda d, cls=cls: cls(**d), parse=smp.SMP_Command.from_bytes,
                              expect=_exact(cls, lambda o, code=code: None if int(o.code) == int(code) else f"code {o.code}")))
    for code in [c for c in (0x00, 0x7F, 0xFF) if c not in {int(k) for k in smp.SMP_Command.smp_classes}][:2]:
        def build(d, code=code):
            p = smp.SMP_Command()
            p.code = smp.CommandCode(code)
            p.payload = d["payload"]
            return p
        cases.append(eng.Case("smp", "unknown-cmd", "SMP_Command(unknown code)", smp.SMP_Command, star, "pfx", [code], build=build, parse=smp.SMP_Command.from_bytes,
                              getter=lambda o: {"payload": o.payload}, expect=_exact(smp.SMP_Command, lambda o, code=code: None if int(o.code) == code else f"code {o.code}")))
    # ---- SDP PDUs
    for pid, cls in sorted(sdp.SDP_PDU.subclasses.items()):
        fms = cc.model_fields(cls.fields or ())
        tid = (int(pid) * 4099 + 258) % 65536
        cases.append(eng.Case("sdp", "pdu", cls.__name__, cls, fms, "sdp", [int(pid), tid], build=lambda d, cls=cls, tid=tid: cls(transaction_id=tid, **d),
                              parse=sdp.SDP_PDU.from_bytes, expect=_exact(cls, lambda o, tid=tid: None if o.transaction_id == tid else f"transaction id {o.transaction_id}")))
    # ---- AVDTP messages (payload only; the signalling header is a PduTrace event)
    for sig, by_type in sorted(avdtp.Message.subclasses.items()):
        for mt, cls in sorted(by_type.items()):
            fms = cc.model_fields(cls.fields or ())
            if not _constructible(cls, fms):
                custom.append(("avdtp", cls.__name__, cls, "constructor arguments beyond the codec fields"))
                continue
            cases.append(eng.Case("avdtp", "msg", cls.__name__, cls, fms, "pfx", [], build=lambda d, cls=cls: cls(**d), to_bytes=lambda o: o.payload,
                                  parse=lambda b, sig=sig, mt=mt: avdtp.Message.create(sig, mt, b), expect=_exact(cls)))
    # ---- AVRCP commands, responses, events, browseable items
    for pid, cls in sorted(avrcp.Command.subclasses.items()):
        fms = cc.model_fields(cls.fields or ())
        if not _constructible(cls, fms):
            custom.append(("avrcp", cls.__name__, cls, "constructor arguments beyond the codec fields"))
            continue
        cases.append(eng.Case("avrcp", "cmd", cls.__name__, cls, fms, "pfx", [], build=lambda d, cls=cls: cls(**d),
                              parse=lambda b, pid=pid: avrcp.Command.from_bytes(pid, b), expect=_exact(cls)))
    seen = set()
    for pid, cls in sorted(avrcp.Response.subclasses.items()):
        if cls in seen:
            continue
        seen.add(cls)
        fms = cc.model_fields(cls.fields or ())
        own_parser = "from_parameters" in vars(cls) or "from_bytes" in vars(cls)
        if own_parser or not _constructible(cls, fms):
            custom.append(("avrcp", cls.__name__, cls, "hand-written parser" if own_parser else "constructor arguments beyond the codec fields"))
            continue
        cases.append(eng.Case("avrcp", "rsp", cls.__name__, cls, fms, "pfx", [], build=lambda d, cls=cls: cls(**d),
                              parse=lambda b, pid=pid: avrcp.Response.from_bytes(b, avrcp.PduId(pid)), expect=_exact(cls)))
    for eid, cls in sorted(avrcp.Event.subclasses.items()):
        fms = cc.model_fields(cls.fields or ())
        if not _constructible(cls, fms):
            custom.append(("avrcp", cls.__name__, cls, "constructor arguments beyond the codec fields"))
            continue
        cases.append(eng.Case("avrcp", "evt", cls.__name__, cls, fms, "pfx", [int(eid)], build=lambda d, cls=cls: cls(**d), parse=avrcp.Event.from_bytes, expect=_exact(cls)))
    for it, cls in sorted(avrcp.BrowseableItem.subclasses.items()):
        fms = cc.model_fields(cls.fields or ())
        if not _constructible(cls, fms):
            custom.append(("avrcp", cls.__name__, cls, "constructor arguments beyond the codec fields"))
            continue
        cases.append(eng.Case("avrcp", "item", cls.__name__, cls, fms, "pfx", lambda p, it=it: [int(it), len(p) >> 8, len(p) & 0xFF], build=lambda d, cls=cls: cls(**d),
                              parse=lambda b: avrcp.BrowseableItem.parse_from_bytes(b, 0)[1], expect=_exact(cls), max_params=60000))
    return cases, custom


# ----------------------------------------------------------------------------- PduTrace events
def pe(e, d, r, raw, again=b"", wf="any", meta=None, **kw):
    ev = {"e": e, "dir": d, "r": r, "bytes": list(raw), "again": list(again), "wf": wf, "_meta": meta or {}}
    ev.update(kw)
    return ev


class Recorder:
    """collects PduTrace events; an exception raised by the real codec on an in-range value / well-formed bytes is
    a violation (the caller says so), never swallowed"""

    def __init__(self, ctx, rep):
        self.ctx = ctx
        self.rep = rep
        self.events = []
        self.count = {}

    def meta(self, ns, cls, tag, d):
        return {"ns": ns, "cls": cls, "tag": tag, "dir": d}

    def ser(self, e, ns, cls, tag, r, fn):
        """fn() -> bytes of an object built from the values r"""
        self.count[e] = self.count.get(e, 0) + 1
        self.rep.case((ns, e, cls, tag, "ser"))
        try:
            raw = bytes(fn())
        except Exception as ex:
            self.rep.violation(f"{ns}:build-raises:{cls}", f"{cls} {tag}: building / serialising in-range values raised {type(ex).__name__}: {ex}",
                               {"part": "pdu", "e": e, "ns": ns, "cls": cls, "tag": tag})
            return None
        self.events.append(pe(e, "ser", r, raw, meta=self.meta(ns, cls, tag, "A")))
        return raw

    def par(self, e, ns, cls, tag, raw, fn, wf="y", **kw):
        """fn(raw) -> (values r of the parsed object, re-serialised bytes)"""
        self.count[e] = self.count.get(e, 0) + 1
        self.rep.case((ns, e, cls, tag, "par"))
        try:
            r, again = fn(raw)
        except Exception as ex:
            if wf == "y":
                self.rep.violation(f"{ns}:parse-raises:{cls}", f"{cls} {tag}: parsing the well-formed {bytes(raw).hex()[:100]} raised {type(ex).__name__}: {ex}",
                                   {"part": "pdu", "e": e, "ns": ns, "cls": cls, "tag": tag, "bytes": bytes(raw).hex()[:4000]})
            return
        self.events.append(pe(e, "par", r, raw, again, wf=wf, meta=self.meta(ns, cls, tag, "B"), **kw))


def crc8_fcs(data):
    """harness FCS (bitwise CRC-8, reflected 0xE0) for building well-formed RFCOMM input frames"""
    c = 0xFF
    for b in data:
        c ^= b
        for _ in range(8):
            c = (c >> 1) ^ 0xE0 if c & 1 else c >> 1
    return 0xFF - c


def u32l(x):
    return [x & 0xFFFF, x >> 16]


# ---- L2CAP
def l2cap_events(rec, quick, rng):
    from bumble import l2cap

    seqs = [0, 1, 31, 32, 62, 63] if quick else list(range(64))
    for tx in seqs:
        for req in (seqs if quick else [0, 1, 33, 63]):
            for sar in range(4):
                for f in (0, 1):
                    r = {"t": "i", "tx": tx, "req": req, "sar": sar, "f": f, "p": 0, "s": 0}
                    tag = f"I tx={tx} req={req} sar={sar} f={f}"
                    rec.ser("ecf", "l2cap", "InformationEnhancedControlField", tag, r,
                            lambda: l2cap.InformationEnhancedControlField(tx_seq=tx, sar=sar, req_seq=req, final=f))
                    raw = bytes([tx << 1 | f << 7, req | sar << 6])
                    rec.par("ecf", "l2cap", "InformationEnhancedControlField", tag, raw, _ecf_par)
    for s in range(4):
        for p in (0, 1):
            for f in (0, 1):
                for req in (seqs if quick else range(64)):
                    r = {"t": "s", "tx": 0, "req": req, "sar": 0, "f": f, "p": p, "s": s}
                    tag = f"S s={s} p={p} f={f} req={req}"
                    rec.ser("ecf", "l2cap", "SupervisoryEnhancedControlField", tag, r,
                            lambda: l2cap.SupervisoryEnhancedControlField(supervision_function=s, poll=p, req_seq=req, final=f))
                    raw = bytes([1 | s << 2 | p << 4 | f << 7, req])
                    rec.par("ecf", "l2cap", "SupervisoryEnhancedControlField", tag, raw, _ecf_par)
    for cid in (0, 1, 0x40, 0xFFFF):
        for n in ((0, 1, 255, 256) if cid == 0x40 else (3,)):
            payload = rng.randbytes(n)
            tag = f"cid={cid:#x} len={n}"
            rec.ser("basic", "l2cap", "L2CAP_PDU", tag, {"cid": cid, "payload": list(payload)}, lambda: l2cap.L2CAP_PDU(cid, payload))
            raw = bytes([n & 0xFF, n >> 8, cid & 0xFF, cid >> 8]) + payload

            def par(b):
                p = l2cap.L2CAP_PDU.from_bytes(b)
                return {"cid": p.cid, "payload": list(p.payload)}, bytes(l2cap.L2CAP_PDU(p.cid, p.payload))

            rec.par("basic", "l2cap", "L2CAP_PDU", tag, raw, par)


def _ecf_par(b):
    from bumble import l2cap

    c = l2cap.EnhancedControlField.from_bytes(b)
    if isinstance(c, l2cap.InformationEnhancedControlField):
        r = {"t": "i", "tx": c.tx_seq, "req": c.req_seq, "sar": int(c.sar), "f": c.final, "p": 0, "s": 0}
        fresh = l2cap.InformationEnhancedControlField(tx_seq=c.tx_seq, sar=c.sar, req_seq=c.req_seq, final=c.final)
    else:
        r = {"t": "s", "tx": 0, "req": c.req_seq, "sar": 0, "f": c.final, "p": c.poll, "s": int(c.supervision_function)}
        fresh = l2cap.SupervisoryEnhancedControlField(supervision_function=c.supervision_function, poll=c.poll, req_seq=c.req_seq, final=c.final)
    return r, bytes(fresh)


# ---- SDP data elements
def el_spec(e):
    """bumble DataElement -> spec record"""
    from bumble import sdp

    t = int(e.type)
    r = {"t": t, "sz": 0, "n": 0, "v": [], "kids": []}
    if t in (1, 2):
        sz = e.value_size
        r["sz"] = sz
        v = int(e.value)
        if sz <= 2:
            r["n"] = v
        else:
            u = v & ((1 << (8 * sz)) - 1)
            r["n"] = [(u >> (16 * (sz // 2 - 1 - i))) & 0xFFFF for i in range(sz // 2)]
    elif t == 3:
        r["v"] = list(bytes(e.value))
    elif t == 5:
        r["n"] = 1 if e.value else 0
    elif t in (6, 7):
        r["kids"] = [el_spec(k) for k in e.value]
    elif t == 8:
        r["v"] = list(e.value.encode("utf8"))
    elif t == 0:
        pass
    else:
        r["v"] = list(bytes(e.value))
    return r


def el_fresh(e):
    """a new DataElement with the same value (the parsed one carries a byte cache)"""
    from bumble import sdp

    if int(e.type) in (6, 7):
        return sdp.DataElement(e.type, [el_fresh(k) for k in e.value])
    return sdp.DataElement(e.type, e.value, e.value_size)


def el_enc(r):
    """harness encoder spec record -> bytes (input generation for the from-bytes direction)"""
    t = r["t"]
    if t == 0:
        body = b""
    elif t in (1, 2):
        sz = r["sz"]
        if sz <= 2:
            body = (r["n"] & ((1 << (8 * sz)) - 1)).to_bytes(sz, "big")
        else:
            body = b"".join(x.to_bytes(2, "big") for x in r["n"])
    elif t == 3:
        body = bytes(r["v"])[::-1]
    elif t == 5:
        body = bytes([r["n"]])
    elif t in (6, 7):
        body = b"".join(el_enc(k) for k in r["kids"])
    else:
        body = bytes(r["v"])
    n = len(body)
    if t == 0:
        return bytes([0])
    if t in (1, 2, 3, 5):
        idx = {1: 0, 2: 1, 4: 2, 8: 3, 16: 4}[n]
        return bytes([t << 3 | idx]) + body
    if n <= 0xFF:
        return bytes([t << 3 | 5, n]) + body
    if n <= 0xFFFF:
        return bytes([t << 3 | 6]) + n.to_bytes(2, "big") + body
    return bytes([t << 3 | 7]) + n.to_bytes(4, "big") + body


def el_enc_w(r, w):
    """harness encoder with a width tree {idx, kids} choosing the explicit size form of each node"""
    t = r["t"]
    if t in (6, 7):
        body = b"".join(el_enc_w(k, wk) for k, wk in zip(r["kids"], w["kids"]))
    elif t in (0, 1, 2, 3, 5):
        return el_enc(r)
    else:
        body = bytes(r["v"])
    n = len(body)
    idx = w["idx"]
    if idx == 5:
        assert n <= 0xFF
        return bytes([t << 3 | 5, n]) + body
    if idx == 6:
        assert n <= 0xFFFF
        return bytes([t << 3 | 6]) + n.to_bytes(2, "big") + body
    return bytes([t << 3 | 7]) + n.to_bytes(4, "big") + body


def wleaf(i=0):
    return {"idx": i, "kids": []}


def sdp_wide_forms(quick, fresh_uuid):
    """(tag, DataElement, width tree): every legal assignment of the forms 5 / 6 / 7 over a few shapes, at least
    one node not minimal"""
    import itertools

    from bumble import sdp

    D = sdp.DataElement
    out = []
    for n, forms in ((0, (6, 7)), (3, (6, 7)), (255, (6, 7)), (256, (7,))):
        for i in forms:
            out.append((f"text[{n}] form{i}", D.text_string(bytes((k * 7) & 0xFF for k in range(n))), wleaf(i)))
    out.append(("url[4] form6", D.url("abcd"), wleaf(6)))
    for i in (6, 7):
        out.append((f"seq[0] form{i}", D.sequence([]), wleaf(i)))
        out.append((f"alt[1xu8] form{i}", D.alternative([D.unsigned_integer_8(7)]), {"idx": i, "kids": [wleaf()]}))
    # the usual shape of a record / attribute-list answer from another stack: lists announced with 0x36
    shapes = list(itertools.product((5, 6, 7), repeat=3))
    if quick:
        shapes = [s_ for s_ in shapes if s_ != (5, 5, 5) and (7 not in s_ or s_ in ((7, 7, 7), (5, 7, 5), (6, 5, 7)))]
    else:
        shapes = [s_ for s_ in shapes if s_ != (5, 5, 5)]
    for i, j, k in shapes:
        e = D.sequence([D.unsigned_integer_16(0x0102), D.sequence([D.text_string(b"ab"), D.uuid(fresh_uuid[0][1])])])
        w = {"idx": i, "kids": [wleaf(), {"idx": j, "kids": [wleaf(k), wleaf()]}]}
        out.append((f"seq(u16,seq(text,uuid)) forms {i}{j}{k}", e, w))
    rec = D.sequence([D.unsigned_integer_16(0x0001), D.sequence([D.uuid(fresh_uuid[0][1])]), D.unsigned_integer_16(0x0100), D.text_string(b"name")])
    out.append(("attribute list, lists as 0x36", rec, {"idx": 6, "kids": [wleaf(), {"idx": 6, "kids": [wleaf()]}, wleaf(), wleaf(5)]}))
    return out


def sdp_elements(quick, rng, fresh_uuid):
    """(tag, DataElement) boundary set: integer widths and signs, the 1 / 2 / 4 octet size forms at
    255 / 256 / 65535 / 65536, nesting depths up to the parser's limit, UUID widths"""
    from bumble import core, sdp

    D = sdp.DataElement
    out = [("nil", D.nil()), ("true", D.boolean(True)), ("false", D.boolean(False))]
    for sz, vals in ((1, (0, 1, 0x7F, 0x80, 0xFF)), (2, (0, 0xFF, 0x100, 0x0102, 0x8000, 0xFFFF)), (4, (0, 1, 0x01020304, 0x80000000, 0xFFFFFFFF)),
                     (8, (0, 0x0102030405060708, 1 << 63, (1 << 64) - 1))):
        for v in vals:
            out.append((f"u{sz * 8}={v:#x}", D.unsigned_integer(v, sz)))
    for sz in (1, 2, 4, 8):
        top = 1 << (8 * sz - 1)
        for v in (-top, -top + 1, -256 if sz > 1 else -2, -1, 0, 1, top - 1):
            out.append((f"s{sz * 8}={v}", D.signed_integer(v, sz)))
    lens = [0, 1, 254, 255, 256, 257, 65535, 65536] if quick else [0, 1, 2, 254, 255, 256, 257, 1000, 65534, 65535, 65536, 65537]
    for n in lens:
        out.append((f"text[{n}]", D.text_string(rng.randbytes(n))))
    for n in (0, 1, 255, 256):
        out.append((f"url[{n}]", D.url("".join(chr(0x61 + (i % 26)) for i in range(n)))))
    for n in (65535, 65536):
        # a sequence whose content is exactly n octets: one text element with a 3-octet header
        out.append((f"seq-content[{n}]", D.sequence([D.text_string(rng.randbytes(n - 3))])))
    for n in (0, 1, 2, 85, 86):
        out.append((f"seq[{n}xu16]", D.sequence([D.unsigned_integer_16(i) for i in range(n)])))
        out.append((f"alt[{n}xu16]", D.alternative([D.unsigned_integer_16(i) for i in range(n)])))
    limit = getattr(sdp, "_MAX_DATA_ELEMENT_NESTING", 32)
    depths = sorted(set([1, 2, 3, 4, limit - 1, limit] if quick else list(range(1, limit + 1))))
    for d in depths:
        e = D.unsigned_integer_16(0x0102)
        for k in range(d):
            e = D.sequence([e]) if k % 2 == 0 else D.alternative([e])
        out.append((f"nest[{d}]", e))
    for w, u in fresh_uuid:
        out.append((f"uuid{w * 8}", D.uuid(u)))
    out.append(("record", D.sequence([D.unsigned_integer_16(0x0004), D.sequence([D.sequence([D.uuid(fresh_uuid[0][1])]), D.sequence([D.uuid(fresh_uuid[0][1]), D.unsigned_integer_8(3)])]),
                                      D.unsigned_integer_16(0x0100), D.text_string(b"name"), D.unsigned_integer_16(0x0200), D.alternative([D.url("http://x"), D.nil(), D.boolean(True)])])))
    return out


def sdp_events(rec, quick, rng, fresh_uuid):
    from bumble import sdp

    for tag, e in sdp_elements(quick, rng, fresh_uuid):
        r = el_spec(e)
        rec.ser("sdpel", "sdp", "DataElement", tag, r, lambda: el_fresh(e))
        raw = el_enc(r)

        def par(b):
            p = sdp.DataElement.from_bytes(b)
            return el_spec(p), bytes(el_fresh(p))

        rec.par("sdpel", "sdp", "DataElement", tag, raw, par, orig=r)
    # legal non-minimal size forms (many stacks always announce lists with the 16-bit form): the values must be
    # those of the element and the PARSED object must re-serialise to the octets it was parsed from
    for tag, e, w in sdp_wide_forms(quick, fresh_uuid):
        r = el_spec(e)
        raw = el_enc_w(r, w)

        def par_cached(b):
            p = sdp.DataElement.from_bytes(b)
            return el_spec(p), bytes(p)

        rec.par("sdpel", "sdp", "DataElement", tag, raw, par_cached, wf="w", orig=r, ow=w)
    # non-canonical but legal size forms (a 4-octet size for a short string): values must still be right
    D = sdp.DataElement
    for tag, raw, intended in (("text[3] size32", bytes([4 << 3 | 7, 0, 0, 0, 3]) + b"abc", D.text_string(b"abc")),
                               ("seq[1] size16", bytes([6 << 3 | 6, 0, 2, 0x08, 0x07]), D.sequence([D.unsigned_integer_8(7)]))):
        def par(b):
            p = sdp.DataElement.from_bytes(b)
            return el_spec(p), bytes(el_fresh(p))

        rec.par("sdpel", "sdp", "DataElement", tag, raw, par, wf="n", orig=el_spec(intended))


# ---- RFCOMM
RFC_TYPES = {"SABM": 0x2F, "UA": 0x63, "DM": 0x0F, "DISC": 0x43, "UIH": 0xEF}


def rfcomm_events(rec, quick, rng):
    from bumble import rfcomm

    FT = rfcomm.FrameType
    lens = [0, 1, 2, 126, 127, 128, 129, 130, 255, 256] + ([] if quick else [1000, 16383, 16384, 32767])
    for name, ty in RFC_TYPES.items():
        for dlci in (0, 2, 63):
            for cr in (0, 1):
                for pf in (0, 1):
                    for n in (lens if (name == "UIH" and dlci == 2 and cr == 1) else ([0] if name != "UIH" else [5])):
                        cred = name == "UIH" and pf == 1
                        if cred and n == 0:
                            continue
                        info = rng.randbytes(n)
                        r = {"dlci": dlci, "cr": cr, "ty": ty, "pf": pf, "info": list(info)}
                        tag = f"{name} dlci={dlci} cr={cr} pf={pf} len={n}" + (" credits" if cred else "")
                        rec.ser("rfc", "rfcomm", "RFCOMM_Frame", tag, r, lambda: rfcomm.RFCOMM_Frame(FT(ty), cr, dlci, pf, info, with_credits=cred))
                        if name == "UIH":
                            rec.ser("rfc", "rfcomm", "RFCOMM_Frame.uih", tag, r, lambda: rfcomm.RFCOMM_Frame.uih(cr, dlci, info, pf))
                        L = n - (1 if cred else 0)
                        le = bytes([L << 1 | 1]) if L <= 127 else bytes([(L & 0x7F) << 1, L >> 7])
                        hdr = bytes([dlci << 2 | cr << 1 | 1, ty | pf << 4])
                        raw = hdr + le + info + bytes([crc8_fcs(hdr if name == "UIH" else hdr + le)])

                        def par(b):
                            f = rfcomm.RFCOMM_Frame.from_bytes(b)
                            return {"dlci": f.dlci, "cr": f.c_r, "ty": int(f.type), "pf": f.p_f, "info": list(f.information)}, bytes(f)

                        rec.par("rfc", "rfcomm", "RFCOMM_Frame", tag, raw, par)
    for ty in (0x08, 0x20, 0x38, 0x04, 0x3F):
        for cr in (0, 1):
            for n in ((0, 1, 8, 126, 127, 128, 129, 300) if ty == 0x08 else (2,)):
                value = rng.randbytes(n)
                r = {"ty": ty, "cr": cr, "value": list(value)}
                tag = f"mcc type={ty:#x} cr={cr} len={n}"
                rec.ser("mcc", "rfcomm", "make_mcc", tag, r, lambda: rfcomm.RFCOMM_Frame.make_mcc(ty, cr, value))
                le = bytes([n << 1 | 1]) if n <= 127 else bytes([(n & 0x7F) << 1, n >> 7])
                raw = bytes([ty << 2 | cr << 1 | 1]) + le + value

                def par(b):
                    t, c, v = rfcomm.RFCOMM_Frame.parse_mcc(b)
                    return {"ty": t, "cr": int(c), "value": list(v)}, rfcomm.RFCOMM_Frame.make_mcc(t, int(c), v)

                rec.par("mcc", "rfcomm", "parse_mcc", tag, raw, par)
    for dlci in (0, 2, 63):
        for cl in (0, 0xE0, 0xF0, 0xFF):
            for mfs in (0, 127, 128, 0x0102, 32767, 65535):
                for k in (0, 1, 7):
                    r = {"dlci": dlci, "cl": cl, "prio": 63 - dlci, "ack": cl ^ 0x55, "mfs": mfs, "retx": 255 - cl, "k": k}
                    tag = f"pn dlci={dlci} cl={cl:#x} mfs={mfs} k={k}"
                    mk = lambda r=r: rfcomm.RFCOMM_MCC_PN(dlci=r["dlci"], cl=r["cl"], priority=r["prio"], ack_timer=r["ack"], max_frame_size=r["mfs"], max_retransmissions=r["retx"], initial_credits=r["k"])
                    rec.ser("pn", "rfcomm", "RFCOMM_MCC_PN", tag, r, mk)
                    raw = bytes([r["dlci"], r["cl"], r["prio"], r["ack"], mfs & 0xFF, mfs >> 8, r["retx"], k])

                    def par(b):
                        p = rfcomm.RFCOMM_MCC_PN.from_bytes(b)
                        return ({"dlci": p.dlci, "cl": p.cl, "prio": p.priority, "ack": p.ack_timer, "mfs": p.max_frame_size, "retx": p.max_retransmissions, "k": p.initial_credits},
                                bytes(dataclasses.replace(p)))

                    rec.par("pn", "rfcomm", "RFCOMM_MCC_PN", tag, raw, par)
    for dlci in (0, 1, 63):
        for bits in range(32):
            fc, rtc, rtr, ic, dv = [(bits >> i) & 1 for i in range(5)]
            r = {"dlci": dlci, "fc": fc, "rtc": rtc, "rtr": rtr, "ic": ic, "dv": dv}
            tag = f"msc dlci={dlci} bits={bits:05b}"
            rec.ser("msc", "rfcomm", "RFCOMM_MCC_MSC", tag, r, lambda: rfcomm.RFCOMM_MCC_MSC(dlci=dlci, fc=fc, rtc=rtc, rtr=rtr, ic=ic, dv=dv))
            raw = bytes([dlci << 2 | 3, 1 | fc << 1 | rtc << 2 | rtr << 3 | ic << 6 | dv << 7])

            def par(b):
                p = rfcomm.RFCOMM_MCC_MSC.from_bytes(b)
                return {"dlci": p.dlci, "fc": p.fc, "rtc": p.rtc, "rtr": p.rtr, "ic": p.ic, "dv": p.dv}, bytes(dataclasses.replace(p))

            rec.par("msc", "rfcomm", "RFCOMM_MCC_MSC", tag, raw, par)


# ---- AVDTP / AVCTP / AV/C / RTP
class StubChannel:
    EVENT_OPEN = "open"
    EVENT_CLOSE = "close"

    def __init__(self, mtu):
        self.peer_mtu = mtu
        self.mtu = mtu
        self.sink = None
        self.written = []

    def on(self, *a, **k):
        return None

    def write(self, pdu):
        self.written.append(bytes(pdu))

    send_pdu = write


def av_events(rec, quick, rng):
    from bumble import avc, avctp, avdtp, rtp

    # ---------------- AVDTP signalling headers: single / start / continue / end
    MT = avdtp.Message.MessageType
    for mtu in (8, 48, 672):
        for n in ((0, 1, 4, 5, 6, 7, 20, 100) if mtu == 8 else (0, 45, 46, 47, 48, 200) if mtu == 48 else (0, 670, 671, 2000)):
            for label in (0, 15):
                for mt in ((0, 2) if label == 0 else (1,)):
                    # a signal identifier without a registered message class: the payload is carried as is
                    sig = rng.choice([s for s in (0x3F, 0x30, 0x2A, 0x15) if s not in avdtp.Message.subclasses])
                    payload = rng.randbytes(n)
                    tag = f"mtu={mtu} len={n} label={label} mt={mt} sig={sig}"
                    msg = avdtp.Message()
                    msg.message_type = MT(mt)
                    msg.signal_identifier = avdtp.SignalIdentifier(sig)
                    msg.payload = payload
                    ch = StubChannel(mtu)
                    m = {"label": label, "mt": mt, "sig": sig, "payload": list(payload)}
                    rec.count["avdtp"] = rec.count.get("avdtp", 0) + 1
                    rec.rep.case(("avdtp", "hdr", tag))
                    try:
                        proto = avdtp.Protocol(ch)
                        proto.send_message(label, msg)
                    except Exception as ex:
                        rec.rep.violation("avdtp:build-raises:send_message", f"AVDTP send_message {tag} raised {type(ex).__name__}: {ex}", {"part": "pdu", "e": "avdtp", "tag": tag})
                        continue
                    rec.events.append({"e": "avdtp", "dir": "ser", "m": m, "mtu": mtu, "pdus": [list(p) for p in ch.written], "wf": "any", "bytes": [], "again": [], "r": {},
                                       "_meta": rec.meta("avdtp", "Protocol.send_message", tag, "A")})
                    # receive side: a legal cut made by the harness (fragments of mtu - 1, the sender's choice is free)
                    pdus = harness_cut(label, mt, sig, payload, mtu)
                    got = []
                    asm = avdtp.MessageAssembler(lambda lbl, message: got.append((lbl, message)))
                    try:
                        for p in pdus:
                            asm.on_pdu(p)
                    except Exception as ex:
                        rec.rep.violation("avdtp:parse-raises:MessageAssembler", f"AVDTP assembler {tag} raised {type(ex).__name__}: {ex}", {"part": "pdu", "e": "avdtp", "tag": tag})
                        continue
                    if len(got) != 1:
                        rec.rep.violation("avdtp:par:message-count", f"AVDTP assembler {tag}: {len(got)} messages delivered for one well-formed packet sequence", {"part": "pdu", "e": "avdtp", "tag": tag})
                        continue
                    lbl, message = got[0]
                    rm = {"label": lbl, "mt": int(message.message_type), "sig": int(message.signal_identifier), "payload": list(message.payload)}
                    rec.events.append({"e": "avdtp", "dir": "par", "m": rm, "mtu": mtu, "pdus": [list(p) for p in pdus], "wf": "y", "bytes": [], "again": [], "r": {},
                                       "_meta": rec.meta("avdtp", "MessageAssembler", tag, "B")})
    # ---------------- AVCTP single-packet header
    for label in (0, 7, 15):
        for cr, ipid in ((0, 0), (1, 0), (1, 1)):
            for pid in (0, 0x0102, 0x110E, 0xFFFF):
                n = rng.choice([0, 1, 9])
                payload = rng.randbytes(n) if not ipid else b""
                r = {"label": label, "cr": cr, "ipid": ipid, "pid": pid, "payload": list(payload)}
                tag = f"label={label} cr={cr} ipid={ipid} pid={pid:#x} len={len(payload)}"
                ch = StubChannel(672)

                def mk():
                    proto = avctp.Protocol(ch)
                    proto.send_message(label, cr == 0, bool(ipid), pid, payload)
                    assert len(ch.written) == 1
                    return ch.written[0]

                rec.ser("avctp", "avctp", "Protocol.send_message", tag, r, mk)
                raw = bytes([label << 4 | cr << 1 | ipid, pid >> 8, pid & 0xFF]) + payload

                def par(b):
                    got = []
                    asm = avctp.MessageAssembler(lambda *a: got.append(a))
                    asm.on_pdu(b)
                    if len(got) != 1:
                        raise ValueError(f"{len(got)} messages delivered")
                    lbl, is_cmd, ip, p, pl = got[0]
                    ch2 = StubChannel(672)
                    avctp.Protocol(ch2).send_message(lbl, is_cmd, ip, p, pl)
                    return {"label": lbl, "cr": 0 if is_cmd else 1, "ipid": 1 if ip else 0, "pid": p, "payload": list(pl)}, ch2.written[0]

                rec.par("avctp", "avctp", "MessageAssembler", tag, raw, par)
    # ---------------- AV/C frames
    ST = avc.Frame.SubunitType
    for ctype in (0, 1, 3, 4, 8, 9, 0x0C, 0x0F):
        for st in (ST.PANEL, ST.UNIT, ST.MONITOR):
            for sid in (0, 4, 7):
                for op in (0x30, 0x31, 0xB0):  # opcodes without a registered subclass: generic frames
                    operands = rng.randbytes(rng.choice([0, 1, 5]))
                    r = {"ctype": ctype, "st": int(st), "sid": sid, "op": op, "operands": list(operands)}
                    tag = f"ctype={ctype} st={int(st)} sid={sid} op={op:#x} len={len(operands)}"
                    if ctype < 8:
                        mk = lambda: avc.CommandFrame(avc.CommandFrame.CommandType(ctype), st, sid, avc.Frame.OperationCode(op), operands)
                    else:
                        mk = lambda: avc.ResponseFrame(avc.ResponseFrame.ResponseCode(ctype), st, sid, avc.Frame.OperationCode(op), operands)
                    rec.ser("avc", "avc", "Frame", tag, r, mk)
                    raw = bytes([ctype, int(st) << 3 | sid, op]) + operands

                    def par(b):
                        f = avc.Frame.from_bytes(b)
                        c = int(f.ctype) if isinstance(f, avc.CommandFrame) else int(f.response)
                        if isinstance(f, avc.CommandFrame):
                            fresh = avc.CommandFrame(f.ctype, f.subunit_type, f.subunit_id, f.opcode, f.operands)
                        else:
                            fresh = avc.ResponseFrame(f.response, f.subunit_type, f.subunit_id, f.opcode, f.operands)
                        return {"ctype": c, "st": int(f.subunit_type), "sid": f.subunit_id, "op": int(f.opcode), "operands": list(f.operands)}, bytes(fresh)

                    rec.par("avc", "avc", "Frame", tag, raw, par)
    PT = avc.PassThroughFrame
    for state in (0, 1):
        for opid in (0x00, 0x44, 0x7E, 0x7F):
            for n in (0, 1, 2, 16, 255):
                data = rng.randbytes(n)
                r = {"state": state, "opid": opid, "data": list(data)}
                for kind, ctype in (("cmd", 0), ("rsp", 9)):
                    tag = f"passthrough {kind} state={state} opid={opid:#x} len={n}"
                    if kind == "cmd":
                        mk = lambda: avc.PassThroughCommandFrame(avc.CommandFrame.CommandType(0), ST.PANEL, 0, PT.StateFlag(state), PT.OperationId(opid), data).operands
                    else:
                        mk = lambda: avc.PassThroughResponseFrame(avc.ResponseFrame.ResponseCode(9), ST.PANEL, 0, PT.StateFlag(state), PT.OperationId(opid), data).operands
                    rec.ser("pass", "avc", "PassThroughFrame", tag, r, mk)
                    raw = bytes([ctype, int(ST.PANEL) << 3, 0x7C, state << 7 | opid, n]) + data

                    def par(b, kind=kind):
                        f = avc.Frame.from_bytes(b)
                        want = avc.PassThroughCommandFrame if kind == "cmd" else avc.PassThroughResponseFrame
                        if type(f) is not want:
                            raise TypeError(f"parsed into {type(f).__name__}")
                        if kind == "cmd":
                            fresh = avc.PassThroughCommandFrame(f.ctype, f.subunit_type, f.subunit_id, f.state_flag, f.operation_id, f.operation_data)
                        else:
                            fresh = avc.PassThroughResponseFrame(f.response, f.subunit_type, f.subunit_id, f.state_flag, f.operation_id, f.operation_data)
                        return {"state": int(f.state_flag), "opid": int(f.operation_id), "data": list(f.operation_data)}, bytes(fresh)[3:]

                    # the pass event is about the operands: strip the 3 header octets for the spec
                    rec.count["pass"] = rec.count.get("pass", 0) + 1
                    rec.rep.case(("avc", "pass", tag, "par"))
                    try:
                        rr, again = par(raw)
                        rec.events.append(pe("pass", "par", rr, raw[3:], again, wf="y", meta=rec.meta("avc", "PassThroughFrame", tag, "B")))
                    except Exception as ex:
                        rec.rep.violation("avc:parse-raises:PassThroughFrame", f"{tag}: parsing {raw.hex()[:80]} raised {type(ex).__name__}: {ex}", {"part": "pdu", "e": "pass", "tag": tag})
    for company in (0, 0x001958, 0x010203, 0xFFFFFF):
        for n in (0, 1, 7):
            data = rng.randbytes(n)
            r = {"company": company, "data": list(data)}
            tag = f"vendor company={company:#x} len={n}"
            rec.ser("vendor", "avc", "VendorDependentFrame", tag, r, lambda: avc.VendorDependentCommandFrame(avc.CommandFrame.CommandType(0), ST.PANEL, 0, company, data).operands)
            raw = bytes([0, int(ST.PANEL) << 3, 0x00]) + company.to_bytes(3, "big") + data
            rec.count["vendor"] = rec.count.get("vendor", 0) + 1
            rec.rep.case(("avc", "vendor", tag, "par"))
            try:
                f = avc.Frame.from_bytes(raw)
                if type(f) is not avc.VendorDependentCommandFrame:
                    raise TypeError(f"parsed into {type(f).__name__}")
                fresh = avc.VendorDependentCommandFrame(f.ctype, f.subunit_type, f.subunit_id, f.company_id, f.vendor_dependent_data)
                rec.events.append(pe("vendor", "par", {"company": f.company_id, "data": list(f.vendor_dependent_data)}, raw[3:], bytes(fresh)[3:], wf="y", meta=rec.meta("avc", "VendorDependentFrame", tag, "B")))
            except Exception as ex:
                rec.rep.violation("avc:parse-raises:VendorDependentFrame", f"{tag}: {type(ex).__name__}: {ex}", {"part": "pdu", "e": "vendor", "tag": tag})
    # ---------------- RTP
    for ncsrc in (0, 1, 2, 3, 15):
        for m in (0, 1):
            for pt in (0, 96, 127):
                seq = rng.choice([0, 1, 0x0102, 0xFFFF])
                ts = rng.choice([0, 0x01020304, 0x80000000, 0xFFFFFFFF])
                ssrc = rng.choice([0, 0x0A0B0C0D, 0xFFFFFFFF])
                csrc = [rng.choice([0x01020304 * (i + 1) & 0xFFFFFFFF, 0xFFFFFFFF - i, i]) for i in range(ncsrc)]
                x = rng.choice([0, 1])
                payload = rng.randbytes(rng.choice([0, 1, 20]))
                r = {"v": 2, "p": x, "x": 1 - x, "m": m, "pt": pt, "seq": seq, "ts": u32l(ts), "ssrc": u32l(ssrc), "csrc": [u32l(c) for c in csrc], "payload": list(payload)}
                tag = f"rtp csrc={ncsrc} m={m} pt={pt}"
                rec.ser("rtp", "rtp", "MediaPacket", tag, r, lambda: rtp.MediaPacket(2, x, 1 - x, m, seq, ts, ssrc, csrc, pt, payload))
                raw = bytes([2 << 6 | x << 5 | (1 - x) << 4 | ncsrc, m << 7 | pt]) + seq.to_bytes(2, "big") + ts.to_bytes(4, "big") + ssrc.to_bytes(4, "big") + b"".join(c.to_bytes(4, "big") for c in csrc) + payload

                def par(b):
                    p = rtp.MediaPacket.from_bytes(b)
                    fresh = rtp.MediaPacket(p.version, p.padding, p.extension, p.marker, p.sequence_number, p.timestamp, p.ssrc, list(p.csrc_list), p.payload_type, p.payload)
                    return ({"v": p.version, "p": p.padding, "x": p.extension, "m": p.marker, "pt": p.payload_type, "seq": p.sequence_number, "ts": u32l(p.timestamp),
                             "ssrc": u32l(p.ssrc), "csrc": [u32l(c) for c in p.csrc_list], "payload": list(p.payload)}, bytes(fresh))

                rec.par("rtp", "rtp", "MediaPacket", tag, raw, par)


def harness_cut(label, mt, sig, payload, mtu):
    """a legal AVDTP packet sequence for the message (input for the assembler)"""
    if len(payload) + 2 <= mtu:
        return [bytes([label << 4 | 0 << 2 | mt, sig]) + payload]
    first = payload[: mtu - 3]
    rest = payload[mtu - 3:]
    chunks = [rest[i: i + mtu - 1] for i in range(0, len(rest), mtu - 1)]
    pdus = [bytes([label << 4 | 1 << 2 | mt, sig, 1 + len(chunks)]) + first]
    for i, c in enumerate(chunks):
        pdus.append(bytes([label << 4 | (3 if i == len(chunks) - 1 else 2) << 2 | mt]) + c)
    return pdus


# ---- SMP command formats
def smp_layout_events(rec):
    """the parameter widths each registered SMP command class declares, to be compared with Smp.tla"""
    from bumble import smp

    for code, cls in sorted(smp.SMP_Command.smp_classes.items()):
        fms = cc.model_fields(cls.fields or ())
        widths = []
        for fm in fms:
            if fm.is_group:
                widths.append(-1)
            elif fm.kind is None:
                # opaque: measure what the codec consumes from a long enough buffer
                try:
                    from bumble import hci

                    _, size = hci.HCI_Object.parse_field(bytes(64), 1, fm.spec)
                    widths.append(size)
                except Exception:
                    widths.append(-1)
            else:
                k = fm.kind["k"]
                widths.append(cc.WIDTH.get(k, fm.kind["n"] if k in ("arr", "lim", "limbe") else -1))
        rec.count["smplayout"] = rec.count.get("smplayout", 0) + 1
        rec.rep.case(("smp", "layout", int(code)))
        rec.events.append({"e": "smplayout", "dir": "ser", "code": int(code), "widths": widths, "r": {}, "bytes": [], "again": [], "wf": "any",
                           "_meta": rec.meta("smp", cls.__name__, f"code={int(code):#04x}", "A")})


# ---- GAP: advertising data, UUIDs
def gap_events(rec, quick, rng, fresh16):
    from bumble import core

    AD = core.AdvertisingData
    sets = [[], [(0x09, b"A")], [(0x01, b"\x06"), (0x09, b"Bumble"), (0xFF, b"\x01\x02\x03")], [(0x16, b"")], [(0x00, b"\x01")], [(0xFF, rng.randbytes(254))],
            [(0x08, rng.randbytes(29))], [(t, rng.randbytes(rng.choice([0, 1, 5]))) for t in (0x02, 0x19, 0x2A, 0xFE)]]
    for structs in sets:
        r = [{"t": t, "d": list(d)} for t, d in structs]
        tag = "ad " + ",".join(f"{t:#x}[{len(d)}]" for t, d in structs)
        rec.ser("ad", "gap", "AdvertisingData", tag, r, lambda: AD(list(structs)))
        raw = b"".join(bytes([len(d) + 1, t]) + d for t, d in structs)

        def par(b):
            a = AD.from_bytes(b)
            return [{"t": int(t), "d": list(d)} for t, d in a.ad_structures], bytes(AD([(int(t), d) for t, d in a.ad_structures]))

        rec.par("ad", "gap", "AdvertisingData", tag, raw, par)
    # zero length octets are padding: values must ignore them (not well formed in the round-trip sense)
    for tag, raw in (("ad padding tail", b"\x02\x09A\x00\x00"), ("ad padding middle", b"\x02\x09A\x00\x02\x01\x06"), ("ad lone zero", b"\x00")):
        def par(b):
            a = AD.from_bytes(b)
            return [{"t": int(t), "d": list(d)} for t, d in a.ad_structures], bytes(AD([(int(t), d) for t, d in a.ad_structures]))

        rec.par("ad", "gap", "AdvertisingData", tag, raw, par, wf="n")
    # UUID widths, on values nobody registered before (fresh16) - the history-dependent cases are in histories()
    U = core.UUID
    for v in fresh16[:6]:
        b2 = v.to_bytes(2, "little")
        for raw in (b2, b2 + b"\x00\x00", rng.randbytes(4), rng.randbytes(16)):
            tag = f"uuid width={len(raw)}"

            def par(b):
                u = U.from_bytes(bytes(b))
                return {"u": list(bytes(u)), "v128": list(u.to_bytes(force_128=True))}, bytes(u)

            rec.par("uuid", "gap", "UUID", tag, raw, par)
            rec.ser("uuidpdu", "gap", "UUID.to_pdu_bytes", tag, {"u": list(raw)}, lambda: U.from_bytes(bytes(raw)).to_pdu_bytes())
        rec.ser("uuid", "gap", "UUID.from_16_bits", f"uuid16={v:#06x}", {"u": [v & 0xFF, v >> 8]}, lambda: U.from_16_bits(v))
        rec.ser("uuid", "gap", "UUID(int)", f"uuid16={v:#06x}", {"u": [v & 0xFF, v >> 8]}, lambda: U(v))
        rec.ser("uuid", "gap", "UUID(str)", f"uuid16={v:#06x}", {"u": [v & 0xFF, v >> 8]}, lambda: U(f"{v:04X}"))


# ----------------------------------------------------------------------------- histories (Statelessness.tla)
BASE_LOW = bytes.fromhex("00001000800000805F9B34FB")[::-1]


def fresh_uuid16(rng, n):
    """16-bit values for which no equal-valued UUID has been registered in this process"""
    from bumble import core

    taken = {bytes(u.to_bytes(force_128=True)) for u in getattr(core.UUID, "UUIDS", [])}
    out = []
    while len(out) < n:
        v = rng.randrange(0x3000, 0xF000)
        if BASE_LOW + v.to_bytes(2, "little") + b"\x00\x00" not in taken and v not in out:
            out.append(v)
    return out


def registered_uuid16(n):
    """16-bit UUID values bumble registers at import time (their 128-bit form exists as a 16-bit object)"""
    from bumble import core

    vals = sorted({int.from_bytes(u.uuid_bytes, "little") for u in getattr(core.UUID, "UUIDS", []) if len(u.uuid_bytes) == 2})
    return vals[:: max(1, len(vals) // n)][:n]


def histories(ctx, rep, rng, n_groups, fresh16):
    """Process histories for Statelessness.tla.  One trace = several histories over the SAME inputs in
    different orders, separated by "restart" (the process-wide UUID registry is put back to its import-time
    content, which is what a new process starts with).  Each operation logs op, key = input bytes,
    res = what came out (re-serialised bytes, or the exception name).  Mixes equal-valued UUIDs of
    different widths through every codec that carries UUIDs."""
    from bumble import att, core, sdp
    from bumble import data_types as dt

    registry = getattr(core.UUID, "UUIDS", None)
    snapshot = list(registry) if isinstance(registry, list) else None
    if snapshot is None:
        rep.extra["history_note"] = "core.UUID.UUIDS not found: histories run without process restarts"

    def restart():
        if snapshot is not None:
            registry[:] = snapshot

    def op_uuid(b):
        return bytes(core.UUID.from_bytes(bytes(b)))

    def op_sdp(b):
        return bytes(el_fresh(sdp.DataElement.from_bytes(bytes(b))))

    def op_att(b):
        p = att.ATT_PDU.from_bytes(bytes(b))
        d = eng.default_getter(cc.model_fields(type(p).fields))(p)
        return bytes(type(p)(**d))

    def op_adlist(b):
        return bytes(dt.CompleteListOf128BitServiceUUIDs.from_bytes(bytes(b)))

    def op_adlist16(b):
        return bytes(dt.CompleteListOf16BitServiceUUIDs.from_bytes(bytes(b)))

    def op_construct16(b):
        return bytes(core.UUID.from_16_bits(int.from_bytes(bytes(b), "little")))

    ops = {"uuid.from_bytes": op_uuid, "uuid.from_16_bits": op_construct16, "sdp.DataElement.from_bytes": op_sdp, "att.ATT_PDU.from_bytes": op_att,
           "ad.CompleteListOf128BitServiceUUIDs.from_bytes": op_adlist, "ad.CompleteListOf16BitServiceUUIDs.from_bytes": op_adlist16}
    traces = []
    metas = []
    try:
        for g in range(n_groups):
            v = fresh16[g % len(fresh16)]
            b2 = v.to_bytes(2, "little")
            b4 = b2 + b"\x00\x00"
            b16 = BASE_LOW + b4
            # the inputs of this group: (op, key)
            inputs = [("uuid.from_bytes", b2), ("uuid.from_bytes", b4), ("uuid.from_bytes", b16), ("uuid.from_16_bits", b2),
                      ("sdp.DataElement.from_bytes", bytes([3 << 3 | 1]) + b2[::-1]), ("sdp.DataElement.from_bytes", bytes([3 << 3 | 2]) + b4[::-1]),
                      ("sdp.DataElement.from_bytes", bytes([3 << 3 | 4]) + b16[::-1]),
                      ("sdp.DataElement.from_bytes", bytes([6 << 3 | 5, 20, 3 << 3 | 1]) + b2[::-1] + bytes([3 << 3 | 4]) + b16[::-1]),
                      ("att.ATT_PDU.from_bytes", bytes([0x08, 0x01, 0x00, 0xFF, 0xFF]) + b2), ("att.ATT_PDU.from_bytes", bytes([0x08, 0x01, 0x00, 0xFF, 0xFF]) + b16),
                      ("ad.CompleteListOf128BitServiceUUIDs.from_bytes", b16), ("ad.CompleteListOf16BitServiceUUIDs.from_bytes", b2)]
            tr = []
            orders = []
            n_proc = 3 if ctx.quick else 5
            for proc in range(n_proc):
                restart()
                if proc:
                    tr.append({"op": "restart", "key": [], "res": []})
                if proc == 0:
                    order = sorted(range(len(inputs)), key=lambda i: len(inputs[i][1]))  # narrow forms first
                elif proc == 1:
                    order = sorted(range(len(inputs)), key=lambda i: -len(inputs[i][1]))  # wide forms first
                else:
                    order = list(range(len(inputs)))
                    rng.shuffle(order)
                    order += [rng.randrange(len(inputs)) for _ in range(4)]  # repeats inside one process
                orders.append(order)
                for i in order:
                    name, key = inputs[i]
                    rep.case(("history", g, proc, name, key.hex()), nontrivial=True)
                    try:
                        res = list(ops[name](key))
                    except Exception as ex:  # an exception is a result too: the same input must then always raise it
                        res = ["raised " + type(ex).__name__]
                    tr.append({"op": name, "key": list(key), "res": res})
            traces.append(tr)
            metas.append({"value": v, "orders": orders})
    finally:
        restart()
    return traces, metas


# ----------------------------------------------------------------------------- relational only (no spec for the layout)
def _all_subclasses(c):
    out = []
    for s in c.__subclasses__():
        out.append(s)
        out.extend(_all_subclasses(s))
    return out


def relational(ctx, rep, rng, quick, custom):
    """classes with hand-written codecs and no layout in the spec: bytes -> object -> bytes' -> object', requiring
    object' == object and bytes(object') == bytes' (one normalisation step is allowed, e.g. padding dropped).
    Returns dict of counts; classes for which no seeded byte string parsed are named (never silently skipped)."""
    from bumble import a2dp, avdtp, avrcp, core, hci
    from bumble import data_types as dt

    stats = {"classes": 0, "cases": 0, "unparsed": [], "by_group": {}}
    lens = [0, 1, 2, 3, 4, 5, 6, 7, 8, 9, 10, 12, 16, 17, 18, 20, 22, 31]
    tries = 3 if quick else 12

    def check(ns, name, parse, ser, eq=cc.same, group="misc", inputs=()):
        """No layout in the spec, so well-formedness is only known from the codec itself: a byte string is taken
        as well formed iff the codec reproduces it (raw -> value -> raw).  For those the law is: the value parsed
        from the serialisation equals the value, and a second parse later gives the same (determinism)."""
        stats["classes"] += 1
        ok = 0
        candidates = [bytes(x) for x in inputs]
        for n in lens:
            for t in range(tries):
                candidates.append(rng.randbytes(n) if t else bytes([(7 * i + n) % 256 for i in range(n)]))
        for raw in candidates:
            n = len(raw)
            if True:
                try:
                    o = parse(raw)
                    b2 = ser(o)
                except Exception:
                    continue  # not a value of this codec
                if b2 != raw:
                    stats["non_canonical"] = stats.get("non_canonical", 0) + 1
                    raw = b2  # one normalisation step; the normal form must then be stable
                    try:
                        o = parse(raw)
                        if ser(o) != raw:
                            continue
                    except Exception:
                        continue
                ok += 1
                stats["cases"] += 1
                rep.case((ns, "relational", name, raw.hex()), nontrivial=n > 0)
                try:
                    o2 = parse(raw)
                    b3 = ser(o2)
                except Exception as ex:
                    rep.violation(f"{ns}:relational-raises:{name}", f"{name}: {raw.hex()} parsed once, the second parse / serialisation raised {type(ex).__name__}: {ex}",
                                  {"part": "relational", "ns": ns, "cls": name, "bytes": raw.hex()})
                    continue
                if not eq(o, o2) or b3 != raw:
                    rep.violation(f"{ns}:relational-value:{name}", f"{name}: {raw.hex()} parsed twice gives {o!r} then {o2!r} / {b3.hex()}",
                                  {"part": "relational", "ns": ns, "cls": name, "bytes": raw.hex()})
        stats["by_group"][group] = stats["by_group"].get(group, 0) + ok
        if ok == 0:
            stats["unparsed"].append(f"{ns}:{name}")

    # typed AD structures
    for cls in sorted(set(_all_subclasses(core.DataType)), key=lambda c: c.__name__):
        if "from_bytes" not in {k for c in cls.__mro__ if c is not core.DataType for k in vars(c)}:
            continue
        if cls is dt.GenericAdvertisingData:
            check("ad", cls.__name__, lambda b: cls.from_bytes(b, core.AdvertisingData.Type(0x2A)), bytes, group="data_types")
        else:
            check("ad", cls.__name__, cls.from_bytes, bytes, group="data_types")
    # A2DP codec information elements, AVDTP capabilities and end point infos
    for cls in sorted(set(_all_subclasses(a2dp.MediaCodecInformation)), key=lambda c: c.__name__):
        check("a2dp", cls.__name__, cls.from_bytes, bytes, group="a2dp")
    check("avdtp", "ServiceCapabilities.parse_capabilities", avdtp.ServiceCapabilities.parse_capabilities, avdtp.ServiceCapabilities.serialize_capabilities, group="avdtp")
    check("avdtp", "EndPointInfo", avdtp.EndPointInfo.from_bytes, bytes, group="avdtp")
    # classes of the field-codec families that the generic construction cannot build
    known_inputs = {"GetCapabilitiesResponse": [b"\x02\x01\x00\x19\x58", b"\x02\x02\x00\x19\x58\x01\x02\x03", b"\x03\x00", b"\x03\x03\x01\x02\x0d"]}
    for ns, name, cls, reason in custom:
        if name == "GetFolderItemsResponse":
            continue  # built value-first below
        if ns == "avrcp" and issubclass(cls, avrcp.Response):
            pid = getattr(cls, "pdu_id", None)
            if isinstance(pid, int):
                def fresh(o):
                    kw = {f.name: getattr(o, f.name) for f in dataclasses.fields(o) if f.init}
                    return bytes(type(o)(**kw))
                check(ns, name, lambda b, pid=pid: avrcp.Response.from_bytes(b, avrcp.PduId(pid)), fresh, group="avrcp-custom", inputs=known_inputs.get(name, ()))
            else:
                def fresh(o):
                    kw = {f.name: getattr(o, f.name) for f in dataclasses.fields(o) if f.init}
                    return bytes(type(o)(**kw))
                check(ns, name, lambda b, cls=cls: cls.from_bytes(b, avrcp.PduId.GET_CAPABILITIES), fresh, group="avrcp-custom")
        else:
            stats["unparsed"].append(f"{ns}:{name} ({reason}; no generic entry point)")
    # AVRCP GetFolderItems response: a list of browseable items behind a hand-written parser; built value-first
    # from the items the field-codec cases construct (layout: status, uid counter BE16, count BE16, items)
    try:
        item_cases = [c for c in field_cases()[0] if c.ns == "avrcp" and c.family == "item"]
        items = []
        for c in item_cases:
            v = cc.make_vector(c.fms, lambda f, p: cc.base(f.kind), eng.class_rng(ctx.seed, "gfi", c.name))
            items.append(c.build(v.as_dict()))
        for k in range(len(items) + 1):
            sel = items[:k] if k else []
            stats["cases"] += 1
            rep.case(("avrcp", "GetFolderItemsResponse", k))
            resp = avrcp.GetFolderItemsResponse(status=avrcp.StatusCode(4), uid_counter=0x0102, items=list(sel))
            raw = bytes(resp)
            back = avrcp.Response.from_bytes(raw, avrcp.PduId.GET_FOLDER_ITEMS)
            if type(back) is not avrcp.GetFolderItemsResponse or int(back.status) != 4 or back.uid_counter != 0x0102 or not cc.same(list(back.items), list(sel)):
                rep.violation("avrcp:relational-value:GetFolderItemsResponse", f"{k} items: {raw.hex()[:120]} parsed back to different values",
                              {"part": "relational", "ns": "avrcp", "cls": "GetFolderItemsResponse", "bytes": raw.hex()})
                continue
            again = bytes(avrcp.GetFolderItemsResponse(status=back.status, uid_counter=back.uid_counter, items=list(back.items)))
            if again != raw:
                i = cc.first_diff(again, raw)
                rep.violation("avrcp:reserialise:GetFolderItemsResponse.items", f"{k} items: parsed {raw.hex()[:100]}, a response built from the parsed items serialises to "
                              f"{again.hex()[:100]} (first difference at offset {i}, lengths {len(raw)} / {len(again)})",
                              {"part": "relational", "ns": "avrcp", "cls": "GetFolderItemsResponse", "bytes": raw.hex()})
        stats["classes"] += 1
    except cc.Unbuildable as e:
        stats["unparsed"].append(f"avrcp:GetFolderItemsResponse ({e})")
    # addresses: bytes and the string form
    stats["classes"] += 1
    for t in (hci.Address.PUBLIC_DEVICE_ADDRESS, hci.Address.RANDOM_DEVICE_ADDRESS, hci.Address.PUBLIC_IDENTITY_ADDRESS, hci.Address.RANDOM_IDENTITY_ADDRESS):
        for raw in (bytes(6), bytes([0xFF] * 6), bytes([1, 2, 3, 4, 5, 6]), rng.randbytes(6)):
            stats["cases"] += 1
            rep.case(("hci", "address", int(t), raw.hex()))
            a = hci.Address(raw, t)
            if bytes(a) != raw or not cc.same(hci.Address(bytes(a), a.address_type), a):
                rep.violation("hci:relational-value:Address", f"Address({raw.hex()}, {t}) -> {bytes(a).hex()}", {"part": "relational", "ns": "hci", "cls": "Address", "bytes": raw.hex()})
            s = a.to_string()
            b = hci.Address(s, hci.Address.RANDOM_DEVICE_ADDRESS)
            if bytes(b) != raw or b.is_public != a.is_public:
                rep.violation("hci:relational-value:Address.string", f"Address({raw.hex()}, {t}) -> '{s}' -> {bytes(b).hex()} public={b.is_public}", {"part": "relational", "ns": "hci", "cls": "Address", "bytes": raw.hex()})
    return stats
