"""C17 seeded mutators: generic fault classes applied to valid PDUs built with bumble's own classes."""
from __future__ import annotations

INTERESTING = [0x00, 0x01, 0x7F, 0x80, 0xFE, 0xFF]


def rand_bytes(rng, n):
    return bytes(rng.getrandbits(8) for _ in range(n))


def rand_len(rng, small=True):
    r = rng.random()
    if r < 0.55:
        return rng.randint(1, 8)
    if r < 0.9 or small:
        return rng.randint(9, 64)
    return rng.choice([255, 256, 300, 672, 1024, 2000])


def trunc(rng, pdu):
    """strictly shorter, at least one byte where possible"""
    if len(pdu) <= 1:
        return b""
    return pdu[: rng.randint(1, len(pdu) - 1)]


def extend(rng, pdu):
    r = rng.random()
    if r < 0.6:
        extra = rand_bytes(rng, rng.randint(1, 16))
    elif r < 0.8:
        extra = bytes([rng.choice(INTERESTING)]) * rng.randint(1, 64)
    else:
        extra = rand_bytes(rng, rng.choice([200, 512, 1000]))
    return pdu + extra


def bitflip(rng, pdu):
    if not pdu:
        return bytes([rng.getrandbits(8)])
    b = bytearray(pdu)
    for _ in range(rng.choice([1, 1, 1, 2, 3, 4])):
        i = rng.randrange(len(b))
        b[i] ^= 1 << rng.randrange(8)
    return bytes(b)


def byteset(rng, pdu):
    """overwrite one byte with an 'interesting' value"""
    if not pdu:
        return bytes([rng.choice(INTERESTING)])
    b = bytearray(pdu)
    b[rng.randrange(len(b))] = rng.choice(INTERESTING)
    return bytes(b)


def badlen(rng, pdu, fields):
    """make a length field inconsistent with the payload.
    fields: list of (offset, size, byteorder) of the length fields inside pdu; when none is known
    the payload is made inconsistent with its implied length instead (one byte inserted / removed)."""
    fields = [f for f in fields if f[0] + f[1] <= len(pdu)]
    if fields and rng.random() < 0.85:
        off, size, order = rng.choice(fields)
        cur = int.from_bytes(pdu[off : off + size], order)
        top = (1 << (8 * size)) - 1
        choices = [0, 1, top, top - 1, cur + 1, max(cur - 1, 0), cur * 2 + 1, cur // 2, rng.randint(0, top)]
        new = rng.choice([c for c in choices if c != cur and 0 <= c <= top] or [cur ^ 1])
        return pdu[:off] + new.to_bytes(size, order) + pdu[off + size :]
    if len(pdu) >= 2 and rng.random() < 0.5:
        i = rng.randrange(1, len(pdu))
        return pdu[:i] + pdu[i + 1 :]
    i = rng.randrange(0, len(pdu) + 1)
    return pdu[:i] + bytes([rng.choice(INTERESTING)]) + pdu[i:]


def random_unit(rng):
    return rand_bytes(rng, rand_len(rng, small=False))


GENERIC = ("valid", "empty", "trunc", "extend", "bitflip", "badlen", "random")


def generic(cls, rng, pdu, fields=()):
    if cls == "valid":
        return pdu
    if cls == "empty":
        return b""
    if cls == "trunc":
        return trunc(rng, pdu)
    if cls == "extend":
        return extend(rng, pdu)
    if cls == "bitflip":
        return bitflip(rng, pdu) if rng.random() < 0.8 else byteset(rng, pdu)
    if cls == "badlen":
        return badlen(rng, pdu, list(fields))
    if cls == "random":
        return random_unit(rng)
    raise KeyError(cls)


# ----------------------------------------------------------------------------- SDP data elements (structured)
def sdp_nested(depth, width16=True, leaf=b"\x08\x01"):
    """a data element sequence nested `depth` levels (each level: header + one child)."""
    e = leaf
    for _ in range(depth):
        if len(e) < 256 and not width16:
            e = bytes([0x35, len(e)]) + e
        elif len(e) < 65536:
            e = bytes([0x36]) + len(e).to_bytes(2, "big") + e
        else:
            e = bytes([0x37]) + len(e).to_bytes(4, "big") + e
    return e


def sdp_nested_siblings(rng, depth, kinds=(0x30, 0x38), before=(1, 2), after=(0, 1)):
    """well-formed containers nested `depth` levels, built inside-out; every level is a SEQUENCE (0x30) or an ALTERNATIVE
    (0x38) that holds `before` small well-formed elements, then the nested container, then `after` more of them."""
    scalars = [b"\x00", b"\x08\x01", b"\x28\x01", b"\x09\x00\x02", b"\x19\x11\x01", b"\x25\x01x", b"\x35\x00"]

    def wrap(kind, body):
        if len(body) < 256 and rng.random() < 0.3:
            return bytes([kind | 5, len(body)]) + body
        if len(body) < 65536:
            return bytes([kind | 6]) + len(body).to_bytes(2, "big") + body
        return bytes([kind | 7]) + len(body).to_bytes(4, "big") + body

    e = wrap(rng.choice(kinds), b"")
    for _ in range(depth):
        pre = b"".join(rng.choice(scalars) for _ in range(rng.randint(*before)))
        post = b"".join(rng.choice(scalars) for _ in range(rng.randint(*after)))
        e = wrap(rng.choice(kinds), pre + e + post)
    return e


def sdp_size_lie(rng):
    """data elements whose size descriptor disagrees with the bytes that follow"""
    kind = rng.randrange(7)
    if kind == 0:  # sequence claims more than present
        return bytes([0x35, rng.randint(4, 255)]) + b"\x19\x11\x01"
    if kind == 1:  # 16-bit size far too large
        return bytes([0x36, 0xFF, 0xFF]) + b"\x19\x11\x01"
    if kind == 2:  # 32-bit size
        return bytes([0x37, 0xFF, 0xFF, 0xFF, 0xFF]) + b"\x19\x11\x01"
    if kind == 3:  # uuid with illegal size index
        return bytes([0x35, 0x04, 0x18 | rng.choice([0, 3, 5, 6, 7]), 0x11, 0x01, 0x00])
    if kind == 4:  # string size without the size bytes
        return bytes([0x35, 0x01, 0x25])
    if kind == 5:  # nil with size, unsigned int of 16 bytes cut short
        return bytes([0x35, 0x03, 0x0C, 0x01, 0x02])
    return bytes([0x35, 0x02, (rng.randint(9, 31) << 3) | rng.randrange(8), 0x00])  # reserved type
