"""C01 / C18: exercise one class that uses the generic field codec in both construction directions and
turn what happened into ser / par events (validated by TLC in lib.c01_codec.validate) plus the relational
checks for opaque fields.  Shared by drivers/c01_hcicodec.py and drivers/c18_pducodec.py."""
from __future__ import annotations

import dataclasses
import random
import zlib

from . import c01_codec as cc


@dataclasses.dataclass
class Case:
    ns: str  # protocol name used in violation signatures (hci, l2cap, att, ...)
    family: str  # cmd / evt / le / vnd / rp / ...
    name: str  # class name
    cls: type
    fms: list
    frame: str
    hdr: list
    build: object  # dict(field name -> value) -> object
    parse: object  # bytes -> object
    getter: object = None  # object -> dict(field name -> value); default: attributes
    to_bytes: object = bytes
    expect: object = None  # callable(obj) -> error string or None (class identity check)
    pinned: dict = dataclasses.field(default_factory=dict)  # field name -> fixed value
    sc: bool = False  # command complete whose return parameters start with a status
    max_params: int | None = None
    header_len: int = 0
    base_values: dict = dataclasses.field(default_factory=dict)  # field name -> base value (instead of the kind's)
    valid: object = None  # dict(field name -> value) -> bool: constraints between fields the codec cannot know
    short_getter: object = None  # sc only: object -> [ncmd, opcode, status]
    rebuild: object = None  # object parsed -> fresh object built from its field values (default: build(getter))


def frame_bytes(f, h, p):
    """harness encoder of the packet framing (input generation for the from-bytes direction)"""
    if f == "cmd":
        return bytes([1, h[0] & 0xFF, h[0] >> 8, len(p)]) + p
    if f == "evt":
        return bytes([4, h[0], len(p)]) + p
    if f == "ext":
        return bytes([4, h[0], len(p) + 1, h[1]]) + p
    if f == "l2c":
        return bytes([h[0], h[1], len(p) & 0xFF, len(p) >> 8]) + p
    if f == "sdp":
        return bytes([h[0], h[1] >> 8, h[1] & 0xFF, len(p) >> 8, len(p) & 0xFF]) + p
    if f == "pfx":
        return bytes(h) + p
    raise ValueError(f)


FRAME_HDR = {"cmd": 4, "evt": 3, "ext": 4, "l2c": 4, "sdp": 5}
FRAME_MAX = {"cmd": 255, "evt": 255, "ext": 254, "l2c": 65535, "sdp": 65535, "pfx": None}


def label(fm):
    if fm.is_group:
        inner = ",".join((s.kind["k"] if s.kind else "opq") for s in fm.sub)
        return ("mgrp" if fm.mask else "grp") + "(" + inner + ")"
    if fm.kind is None:
        return "opq:" + cc.spec_name(fm.spec)
    return fm.kind["k"]


def default_getter(fms):
    def get(obj):
        d = {}
        for fm in fms:
            if fm.is_group and fm.objcls is None:
                for s in fm.sub:
                    d[s.name] = getattr(obj, s.name)
            else:
                d[fm.name] = getattr(obj, fm.name)
        return d

    return get


def dict_to_vals(fms, d):
    """dict(field name -> value) -> vals in fms order (groups as columns)"""
    vals = []
    for fm in fms:
        if fm.is_group:
            if fm.objcls is not None:
                items = list(d[fm.name])
                vals.append([[getattr(it, s.name) for it in items] for s in fm.sub])
            else:
                vals.append([list(d[s.name]) for s in fm.sub])
        else:
            vals.append(d[fm.name])
    return vals


def vals_to_dict(fms, vals):
    v = cc.Vector(fms)
    v.vals = vals
    return v.as_dict()


def class_rng(seed, *parts):
    return random.Random(zlib.crc32(("/".join(map(str, parts)) + f"#{seed}").encode()))


class Exerciser:
    def __init__(self, ctx, rep, counts=(0, 1, 2), n_random=3):
        self.ctx = ctx
        self.rep = rep
        self.events = []
        self.counts = counts
        self.n_random = n_random
        self.stats = {"classes": 0, "vectors": 0, "opaque_fields": 0, "transparent_fields": 0, "enum_closure_fields": 0,
                      "bytes_only_classes": [], "opaque_codecs": {}, "skipped_too_long": 0, "ragged_rejected": 0}

    # ------------------------------------------------------------------ helpers
    def _serialize_opaque(self, fm, value):
        from bumble import hci

        return bytes(hci.HCI_Object.serialize_field(value, fm.spec))

    def _viol(self, case, clause, what, summary, vec=None, extra=None):
        sig = f"{case.ns}:{clause}:{what}"
        rp = {"part": "fields", "ns": case.ns, "family": case.family, "cls": case.name, "tag": getattr(vec, "tag", ""), "clause": clause}
        if extra:
            rp.update(extra)
        self.rep.violation(sig, summary, rp)

    def _count_fields(self, case):
        for fm in case.fms:
            for f in (fm.sub if fm.is_group else [fm]):
                if f.kind is None:
                    self.stats["opaque_fields"] += 1
                    n = cc.spec_name(f.spec)
                    self.stats["opaque_codecs"][n] = self.stats["opaque_codecs"].get(n, 0) + 1
                else:
                    self.stats["transparent_fields"] += 1
                    if f.how == "enum-closure":
                        self.stats["enum_closure_fields"] += 1

    # ------------------------------------------------------------------ one class
    def run_case(self, case):
        self.stats["classes"] += 1
        self._count_fields(case)
        rng = class_rng(self.ctx.seed, case.ns, case.family, case.name)
        maxp = case.max_params if case.max_params is not None else FRAME_MAX.get(case.frame)
        fms = case.fms
        pinned = case.pinned

        try:
            vectors = cc.vectors_for(fms, rng, counts=self.counts, n_random=self.n_random, max_params=None, base_values=case.base_values)
        except cc.Unbuildable as e:
            self.stats["bytes_only_classes"].append(f"{case.family}:{case.name} ({e})")
            self.rep.extra.setdefault("not_constructible", []).append(f"{case.ns}:{case.family}:{case.name}: {e}")
            return
        for vec in vectors:
            # pinned fields (e.g. the command opcode of a command complete event)
            if pinned:
                changed = False
                for i, fm in enumerate(fms):
                    if fm.name in pinned and vec.vals[i] != pinned[fm.name]:
                        vec.vals[i] = pinned[fm.name]
                        changed = True
                if changed:
                    vec.params = self._reencode(fms, vec)
            if maxp is not None and len(vec.params) > maxp:
                self.stats["skipped_too_long"] += 1
                continue
            if case.valid is not None and not case.valid(vec.as_dict()):
                self.stats["skipped_invalid"] = self.stats.get("skipped_invalid", 0) + 1
                continue
            self.stats["vectors"] += 1
            self._one_vector(case, vec)

    def _reencode(self, fms, vec):
        buf = b""
        for i, (fm, v) in enumerate(zip(fms, vec.vals)):
            if fm.is_group:
                n = len(v[0]) if v else 0
                if not fm.mask:
                    buf += bytes([n])
                for item in range(n):
                    for j, s in enumerate(fm.sub):
                        buf += vec.obytes[(i, j, item)] if s.kind is None else cc.enc(s.kind, v[j][item])
            elif fm.kind is None:
                buf += vec.obytes[(i,)]
            else:
                buf += cc.enc(fm.kind, v)
        return buf

    def _one_vector(self, case, vec):
        fms = case.fms
        rep = self.rep
        ragged = vec.tag == "ragged"
        hdr = case.hdr(vec.params) if callable(case.hdr) else case.hdr
        kinds, jvals = cc.event_values(fms, vec.vals, vec.obytes)
        meta = {"ns": case.ns, "family": case.family, "cls": case.name, "tag": vec.tag, "labels": [label(f) for f in fms]}
        key = (case.ns, case.family, case.name, vec.tag)
        rep.case(key, nontrivial=bool(fms), sample={"class": case.name, "vector": vec.tag, "params": vec.params.hex()[:80]} if vec.tag == "base" else None)

        # ---------------- direction A: from field values
        data = None
        try:
            obj = case.build(vec.as_dict())
            data = case.to_bytes(obj)
        except Exception as e:
            if ragged and isinstance(e, ValueError):
                self.stats["ragged_rejected"] += 1  # explicitly refusing unequal columns is legitimate
                return
            self._viol(case, "build-raises", "ragged-group" if ragged else f"{case.family}:{case.name}",
                       f"{case.name}: building / serialising from in-range field values ({vec.tag}) raised {type(e).__name__}: {e}", vec)
        if data is not None:
            self.events.append(cc.ser_event(case.frame, hdr, kinds, jvals, data, dict(meta, dir="A")))
        harness = frame_bytes(case.frame, hdr, vec.params)
        if ragged:
            return  # the value round trip of ragged columns is implementation defined; only the bytes are judged
        # ---------------- direction B: from bytes (harness-built), and from bumble's own bytes if they differ
        inputs = [("B", harness, "y")]
        if data is not None and data != harness:
            hl = len(harness) - len(vec.params)
            try:
                framed = frame_bytes(case.frame, hdr, bytes(data[hl:])) == bytes(data)
            except (ValueError, IndexError):
                framed = False
            if framed:
                inputs.append(("A", data, "any"))
            else:
                # bumble's own bytes do not carry the header of the class that produced them: the ser event above is
                # rejected by the trace spec (bytes); feeding them to the parse side would only trip the spec's
                # harness-consistency guard, so the packet-kind clause is reported here
                self._viol(case, "ser-frame", f"{case.family}:{case.name}",
                           f"{case.name}: serialises to {bytes(data).hex()[:120]}, which does not carry the header {list(hdr)} of frame '{case.frame}' it is registered under", vec, {"bytes": bytes(data).hex()})
        for d, raw, wf in inputs:
            self._parse_side(case, vec, raw, wf, kinds, meta, d, hdr)

    def _parse_side(self, case, vec, raw, wf, kinds, meta, d, hdr):
        fms = case.fms
        try:
            obj2 = case.parse(raw)
        except Exception as e:
            self._viol(case, "parse-raises", f"{case.family}:{case.name}",
                       f"{case.name}: parsing the well-formed packet {raw.hex()[:120]} ({vec.tag}) raised {type(e).__name__}: {e}", vec, {"bytes": raw.hex()})
            return
        if case.expect:
            err = case.expect(obj2)
            if err:
                self._viol(case, "class", f"{case.family}:{case.name}", f"{case.name}: {raw.hex()[:120]} parsed into {err}", vec, {"bytes": raw.hex()})
                return
        short = case.sc and len(raw) > 6 and raw[6] != 0
        try:
            if short:
                # status short-circuit: only ncmd / opcode / status are interpreted; the rest is carried raw
                gv = case.short_getter(obj2)
                jv = [cc.tval(fms[0].kind, gv[0]), cc.tval(fms[1].kind, gv[1]), cc.tval(fms[2].kind, gv[2]), list(raw[7:])]
                again = case.to_bytes(obj2)
                self.events.append(cc.par_event(case.frame, hdr, kinds, jv, raw, again, wf="any", sc=True, meta=dict(meta, dir=d, short=True)))
                return
            got = (case.getter or default_getter(fms))(obj2)
            gvals = dict_to_vals(fms, got)
            kinds2, jv = cc.event_values(fms, gvals, None, self._serialize_opaque)
        except cc.NotRepresentable as e:
            self._viol(case, "par-type", e.kind or f"{case.family}:{case.name}", f"{case.name}: field values parsed from {raw.hex()[:120]} are not values of the field kinds: {e}", vec, {"bytes": raw.hex()})
            return
        except (AttributeError, KeyError) as e:
            self._viol(case, "par-missing-field", f"{case.family}:{case.name}", f"{case.name}: parsed object lacks a field: {e}", vec, {"bytes": raw.hex()})
            return
        try:
            fresh = case.rebuild(obj2) if case.rebuild else case.build(vals_to_dict(fms, gvals))
            again = case.to_bytes(fresh)
        except Exception as e:
            self._viol(case, "rebuild-raises", f"{case.family}:{case.name}",
                       f"{case.name}: re-serialising the field values parsed from {raw.hex()[:120]} raised {type(e).__name__}: {e}", vec, {"bytes": raw.hex()})
            return
        self.events.append(cc.par_event(case.frame, hdr, kinds2, jv, raw, again, wf=wf, sc=case.sc, meta=dict(meta, dir=d)))
        cached = case.to_bytes(obj2)
        if cached != raw and wf == "y":
            self._viol(case, "reserialise-parsed-object", f"{case.family}:{case.name}",
                       f"{case.name}: bytes(parsed object) = {cached.hex()[:120]} differs from the packet parsed {raw.hex()[:120]}", vec, {"bytes": raw.hex()})
        # relational law for opaque fields: the parsed value equals the value the bytes were made from
        for i, fm in enumerate(fms):
            if fm.is_group:
                for j, s in enumerate(fm.sub):
                    if s.kind is None and not cc.same(list(vec.vals[i][j]), list(gvals[i][j])):
                        self._viol(case, "opaque-value", cc.spec_name(s.spec),
                                   f"{case.name}.{s.name}: value {vec.vals[i][j]!r} came back as {gvals[i][j]!r} ({raw.hex()[:80]})", vec, {"bytes": raw.hex()})
            elif fm.kind is None and not cc.same(vec.vals[i], gvals[i]):
                self._viol(case, "opaque-value", cc.spec_name(fm.spec),
                           f"{case.name}.{fm.name}: value {vec.vals[i]!r} came back as {gvals[i]!r} ({raw.hex()[:80]})", vec, {"bytes": raw.hex()})

    # ------------------------------------------------------------------ verdicts of TLC
    def report_rejections(self, rejected):
        for ev, why, want in rejected:
            meta = ev.get("_meta", {})
            ns = meta.get("ns", "codec")
            labels = meta.get("labels", [])
            cls = meta.get("cls", "?")
            fam = meta.get("family", "?")
            for w in why:
                if str(w).startswith("opaque:"):
                    opq = [l for l in labels if "opq" in l] or ["opq"]
                    self.rep.violation(f"{ns}:opaque-codec:{cls}", f"{cls} ({fam}, vector {meta.get('tag')}, direction {meta.get('dir')}): the serialiser and parser of an "
                                       f"opaque field ({', '.join(opq)}) disagree on its extent ({w[7:]}): bytes {cc.hexs(ev['bytes'])[:160]}",
                                       {"part": "event", "ns": ns, "family": fam, "cls": cls, "tag": meta.get("tag"), "why": w,
                                        "event": {k: v for k, v in ev.items() if k != "_meta"}})
                    continue
                what, detail = self._locate(ev, w, want, labels)
                generic = (what.split("(")[0] in cc.INT_RANGE or what.split("(")[0] in ("arr", "v", "star", "lim", "limbe", "grp", "frame", "psm")) \
                    and not str(fam).startswith("unknown")
                sig = f"{ns}:{'ser' if w == 'bytes' else 'par' if w == 'values' else 'reserialise'}:{what}" + ("" if generic else f":{cls}")
                self.rep.violation(sig, f"{cls} ({fam}, vector {meta.get('tag')}, direction {meta.get('dir')}): {detail}",
                                   {"part": "event", "ns": ns, "family": fam, "cls": cls, "tag": meta.get("tag"), "why": w,
                                    "event": {k: v for k, v in ev.items() if k != "_meta"}})

    def _locate(self, ev, w, want, labels):
        got_b = ev["bytes"]
        if w == "bytes":
            wb = list(want.get("bytes", ())) if isinstance(want, dict) else []
            i = cc.first_diff(got_b, wb)
            what = self._field_at(ev, i, labels)
            return what, f"bytes(obj) = {cc.hexs(got_b)[:160]}, the spec's Ser gives {cc.hexs(wb)[:160]} (first difference at offset {i})"
        if w == "values":
            wv = list(want.get("vals", ())) if isinstance(want, dict) else []
            gv = ev["vals"]
            idx = next((k for k in range(min(len(wv), len(gv))) if _norm(wv[k]) != _norm(gv[k])), min(len(wv), len(gv)))
            what = labels[idx] if idx < len(labels) else "fields"
            return what, (f"parsing {cc.hexs(got_b)[:160]} gave field #{idx} = {gv[idx] if idx < len(gv) else None}, "
                          f"the spec's Par gives {wv[idx] if idx < len(wv) else None}")
        i = cc.first_diff(ev["again"], got_b)
        what = self._field_at(ev, i, labels)
        return what, f"parsed {cc.hexs(got_b)[:160]}, a fresh object with the parsed field values serialises to {cc.hexs(ev['again'])[:160]} (first difference at offset {i})"

    def _field_at(self, ev, off, labels):
        """which field covers byte offset off of the packet (layout measured from the logged values)"""
        if off is None:
            return "fields"
        hl = FRAME_HDR.get(ev["f"], len(ev["h"]))
        if off < hl:
            return f"frame({ev['f']})"
        pos = hl
        for k, (kd, v) in enumerate(zip(ev["kinds"], ev["vals"])):
            n = _size(kd, v)
            if off < pos + n:
                return labels[k] if k < len(labels) else kd["k"]
            pos += n
        return labels[-1] if labels else "fields"


def _norm(v):
    if isinstance(v, tuple):
        return [_norm(x) for x in v]
    if isinstance(v, list):
        return [_norm(x) for x in v]
    if isinstance(v, dict):  # a TLC function with non 1..n domain
        return {k: _norm(x) for k, x in v.items()}
    return v


def _size(kd, v):
    k = kd["k"]
    if k in cc.WIDTH:
        return cc.WIDTH[k]
    if k in ("lim", "limbe", "arr", "opq"):
        return kd["n"]
    if k == "v":
        return 1 + len(v)
    if k == "psm":
        return max(2, (int(v).bit_length() + 7) // 8)
    if k == "star":
        return len(v)
    if k in ("grp", "mgrp"):
        n = len(v[0]) if v else 0
        tot = 1 if k == "grp" else 0
        for item in range(n):
            for sk, col in zip(kd["sub"], v):
                tot += _size(sk, col[item])
        return tot
    return 0
