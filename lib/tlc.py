"""Run TLC / SANY; parse summaries, coverage, state-graph dumps, trace-batch verdicts."""
from __future__ import annotations

import json
import os
import re
import shutil
import subprocess
import tempfile
import time

from . import tlaval

VERIF = os.path.dirname(os.path.dirname(os.path.abspath(__file__)))
JAR = "/opt/veriftools/tla/tla2tools.jar:/opt/veriftools/tla/CommunityModules-deps.jar"


class TlcError(Exception):
    """machinery failure (exit 2), never a property violation"""


def _scratch(tag):
    base = os.path.join(VERIF, "out", "tlc")
    os.makedirs(base, exist_ok=True)
    return tempfile.mkdtemp(prefix=tag + "-", dir=base)


def sany(path):
    r = subprocess.run(["tla-sany", path], capture_output=True, text=True, cwd=os.path.dirname(path))
    out = r.stdout + r.stderr
    ok = r.returncode == 0 and "Semantic errors" not in out and "Fatal errors" not in out and "*** Errors" not in out and "Parse Error" not in out
    return ok, out


def _run(cmd, cwd, timeout, env=None):
    e = dict(os.environ)
    if env:
        e.update(env)
    t0 = time.time()
    try:
        r = subprocess.run(cmd, cwd=cwd, capture_output=True, text=True, timeout=timeout, env=e)
    except subprocess.TimeoutExpired as ex:
        raise TlcError(f"TLC timed out after {timeout}s: {' '.join(cmd)}") from ex
    return r.returncode, r.stdout + r.stderr, time.time() - t0


_SUMMARY = re.compile(r"(\d+) states generated, (\d+) distinct states found, (\d+) states left on queue")
_COV = re.compile(r"^<(\w+) line (\d+), col \d+ to line \d+, col \d+ of module (\w+)[^>\n]*>: (\d+):(\d+)", re.M)


def parse_summary(out):
    m = None
    for m in _SUMMARY.finditer(out):
        pass
    if not m:
        return None
    return {"generated": int(m.group(1)), "distinct": int(m.group(2)), "queue": int(m.group(3))}


def parse_coverage(out):
    cov = {}
    for m in _COV.finditer(out):
        name = m.group(1)
        d = cov.setdefault(name, {"distinct": 0, "taken": 0})
        d["distinct"] += int(m.group(4))
        d["taken"] += int(m.group(5))
    return cov


def mc(spec_path, cfg_path, workers=8, coverage=True, dump=None, timeout=1200, extra=(), depth_first=False, keep=False):
    """Model-check. Returns dict(ok, states, transitions, coverage, out, violation, wall_s)."""
    cwd = os.path.dirname(spec_path)
    meta = _scratch("mc")
    cmd = ["java", "-XX:+UseParallelGC", "-XX:ParallelGCThreads=4", "-Xmx4g", "-Xss64m"]
    if depth_first:
        cmd.append("-Dtlc2.tool.queue.IStateQueue=StateDeque")
    cmd += ["-cp", JAR, "tlc2.TLC", "-workers", str(workers), "-metadir", meta, "-noGenerateSpecTE", "-config", cfg_path]
    if coverage:
        cmd += ["-coverage", "1"]
    if dump:
        cmd += ["-dump", "dot,actionlabels", dump]
    cmd += list(extra) + [spec_path]
    try:
        rc, out, wall = _run(cmd, cwd, timeout)
    finally:
        if not keep:
            shutil.rmtree(meta, ignore_errors=True)
    summ = parse_summary(out)
    res = {"rc": rc, "out": out, "wall_s": wall, "coverage": parse_coverage(out) if coverage else {}, "cmd": " ".join(cmd)}
    if summ:
        res["states"] = summ["distinct"]
        res["transitions"] = summ["generated"]
    violated = None
    m = re.search(r"Error: Invariant (\w+) is violated", out)
    if m:
        violated = "invariant " + m.group(1)
    m2 = re.search(r"Error: Action property (\w+) is violated", out)
    if m2:
        violated = "action property " + m2.group(1)
    if "Temporal properties were violated" in out or re.search(r"Temporal property \w+ was violated", out):
        violated = "temporal property"
    if "Deadlock reached" in out:
        violated = "deadlock"
    res["violation"] = violated
    res["ok"] = rc == 0 and violated is None and summ is not None and "Model checking completed. No error has been found." in out
    if not res["ok"] and violated is None:
        raise TlcError(f"TLC failed (rc={rc}) on {spec_path} / {cfg_path}:\n{out[-3000:]}")
    return res


def require_actions(res, names, where=""):
    """Vacuity guard: every named action must have been taken in the MC run."""
    missing = [n for n in names if res["coverage"].get(n, {}).get("taken", 0) == 0]
    if missing:
        raise TlcError(f"vacuous model-checking run {where}: actions never taken: {missing}")


# ----------------------------------------------------------------------------- state graph
_NODE = re.compile(r'^(-?\d+) \[label="((?:[^"\\]|\\.)*)"')
_EDGE = re.compile(r'^(-?\d+) -> (-?\d+) \[label="((?:[^"\\]|\\.)*)"')


def _unesc(s):
    return s.replace("\\n", "\n").replace('\\"', '"').replace("\\\\", "\\")


class Graph:
    def __init__(self):
        self.nodes = {}  # id -> state dict
        self.edges = []  # (src, dst, action name, args tuple)
        self.init = []

    def out(self, n):
        return self._out.get(n, [])

    def index(self):
        self._out = {}
        for i, (s, d, a, args) in enumerate(self.edges):
            self._out.setdefault(s, []).append(i)


def parse_action_label(lbl):
    m = re.match(r"^(\w+)(?:\((.*)\))?$", lbl, re.S)
    if not m:
        return lbl, ()
    name, args = m.group(1), m.group(2)
    if args is None or args.strip() == "":
        return name, ()
    v = tlaval.parse_value("<<" + args + ">>")
    return name, tuple(v)


def load_graph(dot_path):
    g = Graph()
    with open(dot_path) as f:
        for line in f:
            m = _EDGE.match(line)
            if m:
                name, args = parse_action_label(_unesc(m.group(3)))
                g.edges.append((int(m.group(1)), int(m.group(2)), name, args))
                continue
            m = _NODE.match(line)
            if m:
                nid = int(m.group(1))
                g.nodes[nid] = tlaval.parse_state(_unesc(m.group(2)))
                if "style = filled" in line:
                    g.init.append(nid)
    g.index()
    return g


def dump_graph(spec_path, cfg_path, workers=4, timeout=1200):
    d = _scratch("dump")
    dot = os.path.join(d, "graph.dot")
    try:
        res = mc(spec_path, cfg_path, workers=workers, coverage=False, dump=dot, timeout=timeout)
        g = load_graph(dot)
    finally:
        shutil.rmtree(d, ignore_errors=True)
    return g, res


# ----------------------------------------------------------------------------- trace batches
_VERDICT = re.compile(r'<<"(ACCEPT|REJECT)"')


def _split_printed(out):
    """Yield each top-level <<...>> value printed by PrintT (bracket matching; strings respected)."""
    i = 0
    n = len(out)
    start = re.compile(r'<<\s*"(?:ACCEPT|REJECT)"')
    while True:
        m = start.search(out, i)
        if not m:
            return
        j = m.start()
        depth = 0
        k = j
        instr = False
        while k < n:
            c = out[k]
            if instr:
                if c == "\\":
                    k += 1
                elif c == '"':
                    instr = False
            else:
                if c == '"':
                    instr = True
                elif out.startswith("<<", k):
                    depth += 1
                    k += 1
                elif out.startswith(">>", k):
                    depth -= 1
                    k += 1
                    if depth == 0:
                        break
            k += 1
        yield out[j : k + 1]
        i = k + 1


def trace_batch(spec_path, cfg_path, traces, timeout=1800, depth_first=False, env=None, tag="trace"):
    """Validate a list of traces (each a list of event dicts) with a *Trace.tla spec.

    The spec reads JsonDeserialize(IOEnv.TRACE_FILE), chooses tid in Init, and prints
    <<"ACCEPT", tid>> or <<"REJECT", tid, l, event, info>> (see specs/*Trace.tla).
    Returns {tid(1-based): ("ACCEPT",) | ("REJECT", l, event, info)}; a trace with no verdict
    or both verdicts is resolved as: ACCEPT iff at least one ACCEPT printed (some
    nondeterministic branch explained the trace).
    """
    d = _scratch(tag)
    tf = os.path.join(d, "traces.json")
    with open(tf, "w") as f:
        json.dump(traces, f)
    cwd = os.path.dirname(spec_path)
    cmd = ["java", "-XX:+UseParallelGC", "-XX:ParallelGCThreads=4", "-Xmx4g", "-Xss64m"]
    if depth_first:
        cmd.append("-Dtlc2.tool.queue.IStateQueue=StateDeque")
    cmd += ["-cp", JAR, "tlc2.TLC", "-workers", "1", "-metadir", os.path.join(d, "meta"), "-noGenerateSpecTE", "-config", cfg_path, spec_path]
    e = {"TRACE_FILE": tf}
    if env:
        e.update(env)
    try:
        rc, out, wall = _run(cmd, cwd, timeout, env=e)
    finally:
        shutil.rmtree(d, ignore_errors=True)
    summ = parse_summary(out)
    if summ is None or ("Model checking completed" not in out):
        raise TlcError(f"trace validation run failed (rc={rc}) {spec_path}:\n{out[-3000:]}")
    verdicts = {}
    rejects = {}
    for txt in _split_printed(out):
        try:
            v = tlaval.parse_value(txt)
        except tlaval.ParseError:
            continue
        if not v or v[0] not in ("ACCEPT", "REJECT"):
            continue
        tid = v[1]
        if v[0] == "ACCEPT":
            verdicts[tid] = ("ACCEPT",)
        else:
            # keep the deepest rejection (longest matched prefix)
            if tid not in rejects or v[2] > rejects[tid][1]:
                rejects[tid] = ("REJECT",) + tuple(v[2:])
    for tid, r in rejects.items():
        if tid not in verdicts:
            verdicts[tid] = r
    for tid in range(1, len(traces) + 1):
        if tid not in verdicts:
            verdicts[tid] = ("REJECT", 0, "no verdict printed", {})
    return {"verdicts": verdicts, "states": summ["distinct"], "transitions": summ["generated"], "wall_s": wall, "out": out}


def simulate(spec_path, cfg_path, num, depth, seed=0, timeout=600):
    """tlc -simulate: returns list of behaviours, each a list of (action_name, state dict)."""
    d = _scratch("sim")
    cwd = os.path.dirname(spec_path)
    pref = os.path.join(d, "tr")
    cmd = ["java", "-XX:+UseParallelGC", "-cp", JAR, "tlc2.TLC", "-workers", "1", "-metadir", os.path.join(d, "meta"), "-noGenerateSpecTE",
           "-config", cfg_path, "-simulate", f"file={pref},num={num}", "-depth", str(depth), "-seed", str(seed), spec_path]
    try:
        rc, out, wall = _run(cmd, cwd, timeout)
        behs = []
        for fn in sorted(os.listdir(d)):
            if not fn.startswith("tr"):
                continue
            with open(os.path.join(d, fn)) as f:
                txt = f.read()
            beh = []
            for m in re.finditer(r"\\\* <?(\w+)[^\n]*\nSTATE_\d+ ==\s*\n(.*?)(?=\n\n|\n\\\*|\Z)", txt, re.S):
                beh.append((m.group(1), tlaval.parse_state(m.group(2))))
            if beh:
                behs.append(beh)
    finally:
        shutil.rmtree(d, ignore_errors=True)
    return behs, out
