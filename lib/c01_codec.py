"""C01 / C18 binding helpers: generic-field-codec introspection, boundary vectors, ser / par
event logging and TLC batch validation against specs/Hci/CodecTrace.tla.

Nothing in here decides a verdict about a *transparent* field: the functions only turn what the real
bumble objects did into events; TLC (Codec.tla) accepts or rejects them.  `enc` is an input
generator (it builds byte strings to feed to the parsers), not an oracle.  For *opaque* fields
(callable codecs) the relational law is checked here (same(...)) and reported separately.
"""
from __future__ import annotations

import concurrent.futures
import dataclasses
import enum
import inspect
import os

from . import tlc


class Unbuildable(Exception):
    """the class cannot be constructed generically from field values (bytes-only path is used)"""


# ----------------------------------------------------------------------------- kinds
def K(name, n=0, sub=()):
    return {"k": name, "n": n, "sub": list(sub)}


INT_RANGE = {
    "u8": (0, 0xFF), "s8": (-128, 127), "u16": (0, 0xFFFF), "u16be": (0, 0xFFFF), "s16": (-32768, 32767),
    "u24": (0, 0xFFFFFF), "u32": (0, 0xFFFFFFFF), "u32be": (0, 0xFFFFFFFF),
}
WIDTH = {"u8": 1, "s8": 1, "u16": 2, "u16be": 2, "s16": 2, "u24": 3, "u32": 4, "u32be": 4}
_PLAIN = {1: "u8", -1: "s8", 2: "u16", ">2": "u16be", -2: "s16", 3: "u24", 4: "u32", ">4": "u32be", "*": "star", "v": "v"}


def _plain_kind(t):
    if isinstance(t, bool):
        return None
    if isinstance(t, (int, str)) and t in _PLAIN:
        return K(_PLAIN[t])
    if isinstance(t, int) and 4 < t <= 256:
        return K("arr", t)
    return None


def _enum_closure(spec):
    """SpecableEnum / SpecableFlag.type_spec(size, byteorder): the width and byte order live in the
    closure of the two lambdas.  Optional introspection: anything unexpected -> None (opaque)."""
    try:
        ser = spec.get("serializer")
        par = spec.get("parser")
        if ser is None or par is None or "size" in spec:
            return None
        if "type_spec" not in getattr(ser, "__qualname__", ""):
            return None
        fv = dict(zip(ser.__code__.co_freevars, (c.cell_contents for c in ser.__closure__ or ())))
        pv = dict(zip(par.__code__.co_freevars, (c.cell_contents for c in par.__closure__ or ())))
        size, order = fv.get("size"), fv.get("byteorder")
        if pv.get("size") != size or pv.get("byteorder") != order:
            return None
        cls = pv.get("cls")
        if not (isinstance(size, int) and 1 <= size <= 32 and order in ("little", "big") and isinstance(cls, type) and issubclass(cls, int)):
            return None
        return size, order
    except Exception:
        return None


def kind_of_spec(spec):
    """field spec -> (kind or None if opaque, how) ; how in plain / sized-dict / enum-closure / opaque"""
    if isinstance(spec, dict):
        if "size" in spec and "serializer" not in spec:
            k = _plain_kind(spec["size"])
            if k:
                return k, "sized-dict"
        ec = _enum_closure(spec)
        if ec:
            size, order = ec
            table = {(1, "little"): "u8", (1, "big"): "u8", (2, "little"): "u16", (2, "big"): "u16be", (3, "little"): "u24",
                     (4, "little"): "u32", (4, "big"): "u32be"}
            if (size, order) in table:
                return K(table[(size, order)]), "enum-closure"
            return K("lim" if order == "little" else "limbe", size), "enum-closure"
        return None, "opaque"
    k = _plain_kind(spec)
    if k:
        return k, "plain"
    return None, "opaque"


def _fn_name(f):
    while hasattr(f, "func") and not hasattr(f, "__qualname__"):  # functools.partial
        f = f.func
    return getattr(f, "__qualname__", type(f).__name__).replace(".<locals>", "").replace(".<lambda>", ".lambda")


def spec_name(spec):
    if isinstance(spec, dict):
        return "dict:" + _fn_name(spec.get("parser") or spec.get("serializer"))
    return _fn_name(spec)


@dataclasses.dataclass
class FM:
    """field model"""
    name: str
    spec: object = None
    kind: dict | None = None  # None = opaque
    how: str = ""
    sub: list | None = None  # group: list of FM (columns)
    objcls: type | None = None  # group whose single sub-field is an HCI_Dataclass_Object: its class
    mask: bool = False  # group without count byte; count = popcount of the previous field (hand-written PHY lists)

    @property
    def is_group(self):
        return self.sub is not None


def model_fields(fields):
    from bumble import hci

    out = []
    for f in fields:
        if isinstance(f, list):
            subs = model_fields(f)
            g = FM(name="+".join(s.name for s in subs), sub=subs)
            # a list of dataclass objects: make the object's own fields the columns
            if len(subs) == 1 and subs[0].kind is None:
                p = subs[0].spec
                owner = getattr(p, "__self__", None)
                if (getattr(p, "__func__", None) is getattr(hci.HCI_Dataclass_Object.parse_from_bytes, "__func__", object())
                        and isinstance(owner, type) and dataclasses.is_dataclass(owner)):
                    inner = model_fields(hci.HCI_Object.fields_from_dataclass(owner))
                    if not any(i.is_group for i in inner):
                        g = FM(name=subs[0].name, sub=inner, objcls=owner)
            out.append(g)
        else:
            name, spec = f
            kind, how = kind_of_spec(spec)
            out.append(FM(name=name, spec=spec, kind=kind, how=how))
    return out


def kinds_json(fms, opq_len=None):
    """kinds for the trace; opaque widths come from opq_len[(i,)] / opq_len[(i, j, item)] -> fixed per event,
    so an opaque sub-field of a group must have one width for all items (checked by the caller)."""
    out = []
    for i, fm in enumerate(fms):
        if fm.is_group:
            sub = []
            for j, s in enumerate(fm.sub):
                sub.append(s.kind if s.kind else K("opq", (opq_len or {}).get((i, j), 0)))
            out.append(K("mgrp" if fm.mask else "grp", 0, sub))
        else:
            out.append(fm.kind if fm.kind else K("opq", (opq_len or {}).get((i,), 0)))
    return out


# ----------------------------------------------------------------------------- values
class NotRepresentable(Exception):
    kind = None  # name of the field kind the value does not belong to (set by event_values)


def as_int(v):
    if isinstance(v, bool):
        return int(v)
    if isinstance(v, int):
        return int(v)
    raise NotRepresentable(f"{type(v).__name__} where an integer is expected")


def as_bytes(v):
    if isinstance(v, (bytes, bytearray)):
        return bytes(v)
    if isinstance(v, str) or isinstance(v, int) or v is None:
        raise NotRepresentable(f"{type(v).__name__} where bytes are expected")
    if hasattr(v, "__bytes__"):
        return bytes(v)
    raise NotRepresentable(f"{type(v).__name__} where bytes are expected")


def tval(kind, v):
    """python value -> JSON value of the spec's value domain"""
    k = kind["k"]
    if k in INT_RANGE:
        i = as_int(v)
        lo, hi = INT_RANGE[k]
        if not lo <= i <= hi:
            raise NotRepresentable(f"{i} out of range for {k}")
        if k in ("u32", "u32be"):
            return [i & 0xFFFF, i >> 16]
        return i
    if k == "psm":
        i = as_int(v)
        if not 0 <= i < (1 << 31):
            raise NotRepresentable(f"{i} out of range for psm")
        return i
    if k in ("lim", "limbe"):
        i = as_int(v)
        if not 0 <= i < (1 << (8 * kind["n"])):
            raise NotRepresentable(f"{i} out of range for {k}{kind['n']}")
        return [(i >> (8 * x)) & 0xFF for x in range(kind["n"])]
    return list(as_bytes(v))


def enc(kind, v):
    """harness encoder: builds *inputs* for the parsers (never compared against bumble's output)"""
    k = kind["k"]
    if k in INT_RANGE:
        i = as_int(v)
        w = WIDTH[k]
        return (i & ((1 << (8 * w)) - 1)).to_bytes(w, "big" if k.endswith("be") else "little")
    if k == "psm":
        i = as_int(v)
        return i.to_bytes(max(2, (i.bit_length() + 7) // 8), "little")
    if k == "lim":
        return as_int(v).to_bytes(kind["n"], "little")
    if k == "limbe":
        return as_int(v).to_bytes(kind["n"], "big")
    b = as_bytes(v)
    if k == "arr":
        return (b + bytes(kind["n"]))[: kind["n"]]
    if k == "v":
        return bytes([len(b)]) + b
    return b


def pattern(n, s=0):
    return bytes((s + 37 * (i + 1)) % 256 for i in range(n))


def boundary(kind):
    k = kind["k"]
    n = kind["n"]
    if k == "u8":
        return [0, 1, 0x7F, 0x80, 0xFF]
    if k == "s8":
        return [-128, -1, 0, 1, 127]
    if k in ("u16", "u16be"):
        return [0, 1, 0xFF, 0x100, 0x7FFF, 0x8000, 0xFFFF]
    if k == "s16":
        return [-32768, -256, -1, 0, 1, 0xFF, 0x100, 0x7FFF]
    if k == "u24":
        return [0, 1, 0xFF, 0x100, 0xFFFF, 0x10000, 0x7FFFFF, 0x800000, 0xFFFFFF]
    if k in ("u32", "u32be"):
        return [0, 1, 0xFFFF, 0x10000, 0x7FFFFFFF, 0x80000000, 0xFFFFFFFF]
    if k == "psm":
        return [0x0001, 0x0003, 0x0019, 0x1001, 0xFEFF, 0x02FF01, 0xFE0101, 0x7E010101]
    if k in ("lim", "limbe"):
        return [0, 1, (1 << (8 * n - 1)) - 1, 1 << (8 * n - 1), (1 << (8 * n)) - 1]
    if k == "arr":
        return [bytes(n), bytes([0xFF]) * n, pattern(n, 3), pattern(n - 1, 5), b"\x01", pattern(n + 1, 9)]
    if k == "v":
        return [b"", b"\x00", b"\xff\x01", pattern(31, 1)]
    if k == "star":
        return [b"", b"\x00", pattern(3, 7), pattern(17, 2)]
    raise ValueError(k)


def base(kind):
    k = kind["k"]
    n = kind["n"]
    return {
        "u8": 0x12, "s8": -2, "u16": 0x1234, "u16be": 0x1234, "s16": -300, "u24": 0x123456, "u32": 0x12345678, "u32be": 0x12345678,
    }.get(k) if k in INT_RANGE else 0x1003 if k == "psm" else (
        int.from_bytes(pattern(n, 1), "little") if k in ("lim", "limbe") else
        pattern(n, 11) if k == "arr" else b"\xaa\xbb" if k == "v" else b"\xc0\xc1\xc2")


def rand(kind, rng):
    k = kind["k"]
    n = kind["n"]
    if k in INT_RANGE:
        lo, hi = INT_RANGE[k]
        return rng.randint(lo, hi)
    if k == "psm":
        return rng.choice([1 | (rng.getrandbits(7) << 1) | (rng.getrandbits(7) << 9), 0x0101 | ((1 + rng.getrandbits(5)) << 17) | (rng.getrandbits(6) << 1)])
    if k in ("lim", "limbe"):
        return rng.getrandbits(8 * n)
    if k == "arr":
        return rng.randbytes(n)
    return rng.randbytes(rng.choice([0, 1, 2, 5, 9]))


def same(a, b, depth=0):
    """equality of field values, free in which Python type carries a number (int vs enum / bool)"""
    if depth > 12:
        return a == b
    if isinstance(a, (bool, int)) and isinstance(b, (bool, int)):
        return int(a) == int(b)
    if isinstance(a, (bytes, bytearray)) and isinstance(b, (bytes, bytearray)):
        return bytes(a) == bytes(b)
    if isinstance(a, (list, tuple)) and isinstance(b, (list, tuple)):
        return len(a) == len(b) and all(same(x, y, depth + 1) for x, y in zip(a, b))
    if type(a) is not type(b):
        # a codec may hand back bytes for a bytes-like value it was given
        if hasattr(a, "__bytes__") and isinstance(b, (bytes, bytearray)) and not isinstance(a, (str, int)):
            return bytes(a) == bytes(b)
        if hasattr(b, "__bytes__") and isinstance(a, (bytes, bytearray)) and not isinstance(b, (str, int)):
            return bytes(a) == bytes(b)
        return False
    if dataclasses.is_dataclass(a) and not isinstance(a, type):
        return all(same(getattr(a, f.name), getattr(b, f.name), depth + 1) for f in dataclasses.fields(a) if f.compare)
    if type(a).__eq__ is not object.__eq__:
        return a == b
    if hasattr(a, "__dict__"):
        da = {k: v for k, v in vars(a).items() if not k.startswith("_")}
        db = {k: v for k, v in vars(b).items() if not k.startswith("_")}
        return da.keys() == db.keys() and all(same(da[k], db[k], depth + 1) for k in da)
    return a == b


# ----------------------------------------------------------------------------- opaque sampling
OPAQUE_VALUES = {}  # field name -> list of python values to build from (value-first: the parser is not asked)
OPAQUE_TAILS = {}  # spec_name -> callable(rng) -> bytes: well-formed encodings for codecs whose values random bytes rarely hit


def sample_opaque(fm, prefix, rng, tries=8, reuse=None):
    """A value for a field with a callable codec: parse seeded bytes *in context* (after the bytes of the
    preceding fields, which some parsers look at), then require the field serialiser to accept the value.
    Returns (value, its bytes)."""
    from bumble import hci

    cands = OPAQUE_VALUES.get(fm.name)
    if cands and rng.random() < 0.75:
        value = cands[rng.randrange(len(cands))]
        try:
            b = bytes(hci.HCI_Object.serialize_field(value, fm.spec))
            sample_opaque.last_tail = b
            return value, b
        except Exception:
            pass  # this codec does not take such a value: fall back to sampling through its parser
    last = None
    hint = fm.spec.get("size") if isinstance(fm.spec, dict) and isinstance(fm.spec.get("size"), int) else None
    for t in range(tries):
        tails = []
        if reuse is not None:
            tails.append(reuse)  # the tail that worked for the first item of the group: same width
        gen = OPAQUE_TAILS.get(spec_name(fm.spec))
        if gen is not None:
            tails = [gen(rng) for _ in range(4)]
        if hint:
            tails.append(rng.randbytes(hint))
        for n in (rng.choice([1, 2, 3, 4, 5, 6, 8]), 6, 16, 5, 2, 1, 8, 12, 0, 32):
            tails.append(rng.randbytes(n))
            if n >= 1:
                tails.append(bytes([n - 1]) + rng.randbytes(n - 1))  # a length-prefixed guess
        for ln in (0, 1, 5, 31):
            tails.append(bytes([ln]) + rng.randbytes(ln) + bytes(31 - ln))  # length-prefixed, zero padded to 32
        for tail in tails:
            n = len(tail)
            try:
                value, size = hci.HCI_Object.parse_field(prefix + tail, len(prefix), fm.spec)
                if size < 0 or size > n:
                    continue
                b = bytes(hci.HCI_Object.serialize_field(value, fm.spec))
                sample_opaque.last_tail = tail[:size]
                return value, b
            except Exception as e:  # this length / content is not a value of that codec: try another
                last = e
                continue
    raise Unbuildable(f"no sample for opaque field {fm.name} ({spec_name(fm.spec)}): {type(last).__name__}: {last}")


# ----------------------------------------------------------------------------- vectors
def popcount(x):
    return bin(int(x)).count("1")


class Vector:
    """values for one object: vals[i] = python value, or for a group a list of columns"""

    def __init__(self, fms):
        self.fms = fms
        self.vals = [None] * len(fms)
        self.obytes = {}  # opaque field bytes: (i,) or (i, j, item) -> bytes
        self.tag = ""

    def as_dict(self):
        d = {}
        for fm, v in zip(self.fms, self.vals):
            if fm.is_group:
                if fm.objcls is not None:
                    n = len(v[0]) if v else 0
                    d[fm.name] = [fm.objcls(**{s.name: v[j][i] for j, s in enumerate(fm.sub)}) for i in range(n)]
                else:
                    for s, col in zip(fm.sub, v):
                        d[s.name] = list(col)
            else:
                d[fm.name] = v
        return d


def make_vector(fms, choose, rng, count=1, ragged=False):
    """choose(fm, path) -> value for a transparent field (path = (i,) or (i, j, item)).
    Opaque fields are sampled in context.  Builds the harness-encoded bytes alongside."""
    vec = Vector(fms)
    buf = b""
    prev = 0
    for i, fm in enumerate(fms):
        if fm.is_group:
            n = popcount(prev) if fm.mask else count
            cols = [[] for _ in fm.sub]
            if not fm.mask:
                buf += bytes([n])
            first_tail = {}
            for item in range(n):
                for j, s in enumerate(fm.sub):
                    if s.kind is None:
                        v, b = sample_opaque(s, buf, rng, reuse=first_tail.get(j))
                        first_tail.setdefault(j, sample_opaque.last_tail)
                        vec.obytes[(i, j, item)] = b
                    else:
                        v = choose(s, (i, j, item))
                        b = enc(s.kind, v)
                    cols[j].append(v)
                    buf += b
            if ragged:
                for j, s in enumerate(fm.sub):
                    if j > 0 and s.kind is not None:
                        cols[j].append(choose(s, (i, j, n)))
            vec.vals[i] = cols
        elif fm.kind is None:
            v, b = sample_opaque(fm, buf, rng)
            vec.obytes[(i,)] = b
            vec.vals[i] = v
            buf += b
        else:
            v = choose(fm, (i,))
            vec.vals[i] = v
            buf += enc(fm.kind, v)
            prev = v if isinstance(v, int) else 0
    vec.params = buf
    return vec


def vectors_for(fms, rng, counts=(0, 1, 2), n_random=3, max_params=None, base_values=None):
    """each transparent field at each boundary with the others at base, each group at each count,
    a ragged-columns vector per multi-column group, plus seeded random vectors"""
    out = []

    def add(choose, tag, count=1, ragged=False):
        st = rng.getstate()
        try:
            v = make_vector(fms, choose, rng, count=count, ragged=ragged)
        except Unbuildable:
            rng.setstate(st)
            raise
        v.tag = tag
        if max_params is not None and len(v.params) > max_params:
            return False
        out.append(v)
        return True

    bv_over = base_values or {}

    def base_of(fm):
        return bv_over[fm.name] if fm.name in bv_over else base(fm.kind)

    def base_choose(fm, path):
        return base_of(fm)

    has_group = any(fm.is_group and not fm.mask for fm in fms)
    add(base_choose, "base")
    paths = []
    for i, fm in enumerate(fms):
        if fm.is_group:
            for j, s in enumerate(fm.sub):
                if s.kind is not None:
                    paths.append(((i, j), s))
        elif fm.kind is not None:
            paths.append(((i,), fm))
    for path, fm in paths:
        for bi, bv in enumerate(boundary(fm.kind)):
            def choose(f, p, path=path, bv=bv):
                if p[: len(path)] == path and (len(p) == len(path) or p[-1] == 0):
                    return bv
                return base_of(f)
            add(choose, f"{fm.name}={bi}", count=1)
    if has_group:
        for c in counts:
            if c != 1:
                def choose(f, p):
                    bl = boundary(f.kind)
                    return bl[(sum(p)) % len(bl)]
                add(choose, f"count={c}", count=c)
        if any(fm.is_group and not fm.mask and fm.objcls is None and len(fm.sub) > 1 and fm.sub[0].kind is not None for fm in fms):
            add(base_choose, "ragged", count=1, ragged=True)
    if any(fm.mask for fm in fms):
        # PHY-mask lists: the list length is the number of bits set in the preceding field
        mi = [i for i, fm in enumerate(fms) if fm.mask][0] - 1
        for mval in (0, 1, 2, 3, 5, 7):
            def choose(f, p, mval=mval):
                if p == (mi,):
                    return mval
                bl = boundary(f.kind)
                return bl[sum(p) % len(bl)] if len(p) > 1 else base_of(f)
            add(choose, f"mask={mval}")
    for r in range(n_random):
        def choose(f, p):
            if f.name in bv_over and rng.random() < 0.7:
                return bv_over[f.name]
            return rand(f.kind, rng)
        add(choose, f"random{r}", count=rng.choice(list(counts)))
    return out


# ----------------------------------------------------------------------------- events
def event_values(fms, vals, obytes=None, serialize_opaque=None, truncate_groups=True):
    """python values -> (kinds json, vals json).  Opaque values are replaced by their bytes
    (obytes if known, else serialize_opaque(fm, value))."""
    opq_len = {}
    jv = []
    for i, (fm, v) in enumerate(zip(fms, vals)):
        if fm.is_group:
            cols = []
            n = len(v[0]) if v else 0
            for j, (s, col) in enumerate(zip(fm.sub, v)):
                if s.kind is None:
                    bl = []
                    for item, x in enumerate(col):
                        b = (obytes or {}).get((i, j, item))
                        if b is None:
                            b = serialize_opaque(s, x)
                        bl.append(list(b))
                    lens = {len(b) for b in bl}
                    if len(lens) > 1:
                        raise NotRepresentable("opaque sub-field of a group with varying width")
                    opq_len[(i, j)] = lens.pop() if lens else 0
                    cols.append(bl)
                else:
                    cols.append([_tval_named(s.kind, x) for x in col])
            jv.append(cols)
        elif fm.kind is None:
            b = (obytes or {}).get((i,))
            if b is None:
                b = serialize_opaque(fm, v)
            opq_len[(i,)] = len(b)
            jv.append(list(b))
        else:
            jv.append(_tval_named(fm.kind, v))
    return kinds_json(fms, opq_len), jv


def _tval_named(kind, v):
    try:
        return tval(kind, v)
    except NotRepresentable as e:
        e.kind = kind["k"]
        raise


def ser_event(f, h, kinds, vals, data, meta=None):
    return {"e": "ser", "f": f, "h": list(h), "kinds": kinds, "vals": vals, "bytes": list(data), "again": [], "wf": "any", "sc": False,
            "_meta": meta or {}}


def par_event(f, h, kinds, vals, data, again, wf="any", sc=False, meta=None):
    return {"e": "par", "f": f, "h": list(h), "kinds": kinds, "vals": vals, "bytes": list(data), "again": list(again), "wf": wf, "sc": bool(sc),
            "_meta": meta or {}}


# ----------------------------------------------------------------------------- model checking
def mc_with_actions(spec, cfg, workers=2):
    """TLC's -coverage mode is pathologically slow on these specs (deep recursive operators over byte
    sequences: minutes and gigabytes instead of seconds), so the per-action counts needed by the vacuity guard
    are taken from the dumped state graph (edge labels) instead."""
    g, res = tlc.dump_graph(spec, cfg, workers=workers)
    cov = {}
    for (_, _, name, _) in g.edges:
        d = cov.setdefault(name, {"distinct": 0, "taken": 0})
        d["taken"] += 1
        d["distinct"] += 1
    res["coverage"] = cov
    return res


# ----------------------------------------------------------------------------- TLC batches
def _cfg(ctx, name, spec="TraceSpec"):
    p = os.path.join(ctx.out, name)
    with open(p, "w") as f:
        f.write(f"SPECIFICATION {spec}\nCHECK_DEADLOCK FALSE\n")
    return p


JVM_ENV = {"JAVA_TOOL_OPTIONS": "-Xss64m"}  # nested SDP elements recurse deeply in TLC's evaluator


def validate(ctx, rep, events, trace_spec, chunk=1500, jobs=6, tag="codec"):
    """events: list of event dicts (a '_meta' key is stripped before TLC sees them); each event is a
    one-event trace.  Returns list of (event, verdict) for rejected events; raises on harness
    inconsistencies reported by the spec ("harness:*")."""
    cfg = _cfg(ctx, f"{tag}_trace.cfg")
    chunks = [events[i: i + chunk] for i in range(0, len(events), chunk)]

    def run(ch):
        traces = [[{k: v for k, v in e.items() if k != "_meta"}] for e in ch]
        return tlc.trace_batch(trace_spec, cfg, traces, tag=tag, env=JVM_ENV)

    rejected = []
    states = 0
    trans = 0
    wall = 0.0
    with concurrent.futures.ThreadPoolExecutor(max_workers=jobs) as ex:
        for ch, res in zip(chunks, ex.map(run, chunks)):
            states += res["states"]
            trans += res["transitions"]
            wall += res["wall_s"]
            for tid, v in res["verdicts"].items():
                if v[0] == "REJECT":
                    ev = ch[tid - 1]
                    why = v[2] if len(v) > 2 else frozenset()
                    if not isinstance(why, (set, frozenset)):
                        raise tlc.TlcError(f"trace validation gave no reason for event {ev.get('_meta')}: {v}")
                    harness = [w for w in why if str(w).startswith("harness:")]
                    if harness and _has_opaque(ev.get("kinds", [])) and not any(str(w) == "harness:unknown-event" for w in harness):
                        # the harness builds the bytes of opaque fields with bumble's own serialiser of that field type and
                        # measures them with its parser: an inconsistent claim on such an event means that pair is not
                        # self-consistent (serialise / parse disagree on the extent of the field) - a codec defect, not ours
                        rejected.append((ev, ["opaque:" + ",".join(sorted(str(w)[8:] for w in harness))], {}))
                        continue
                    if harness:
                        raise tlc.TlcError(f"harness error {sorted(harness)} for event meta={ev.get('_meta')} {str({k: ev[k] for k in ev if k != '_meta'})[:600]}")
                    rejected.append((ev, sorted(why), v[3] if len(v) > 3 else {}))
    rep.extra["trace_states"] = rep.extra.get("trace_states", 0) + states
    rep.extra["trace_transitions"] = rep.extra.get("trace_transitions", 0) + trans
    rep.extra["events_validated"] = rep.extra.get("events_validated", 0) + len(events)
    rep.traces += len(events)
    return rejected


def _has_opaque(kinds):
    return any(k.get("k") == "opq" or _has_opaque(k.get("sub", [])) for k in kinds)


def first_diff(a, b):
    a, b = list(a), list(b)
    for i in range(min(len(a), len(b))):
        if a[i] != b[i]:
            return i
    return None if len(a) == len(b) else min(len(a), len(b))


def hexs(b):
    return bytes(b).hex()
