"""Rigs: real Device/Host/Controller stacks on a LocalLink with HCI taps and
order-preserving delay lines.  Everything must be constructed inside a running
(virtual-time) loop: use `vt.run(coro)`."""
from __future__ import annotations

import asyncio
import collections
import random

from bumble import hci
from bumble.controller import Controller
from bumble.device import Device
from bumble.hci import Address
from bumble.host import Host
from bumble.link import LocalLink


class DelayLine:
    """Order-preserving delay: delivery times are monotone per line."""

    def __init__(self, deliver, rng=None, max_delay=0.0):
        self.deliver = deliver
        self.rng = rng
        self.max_delay = max_delay
        self.last = 0.0
        self.fifo = collections.deque()

    @property
    def in_transit(self):
        return len(self.fifo)

    def push(self, item):
        loop = asyncio.get_running_loop()
        d = self.rng.uniform(0, self.max_delay) if (self.rng and self.max_delay) else 0.0
        t = max(self.last, loop.time() + d)
        self.last = t
        self.fifo.append(item)
        loop.call_at(t, self._fire)

    def _fire(self):
        # timers with equal deadlines are not ordered by asyncio's heap: always deliver the
        # oldest item, whichever timer fires
        self.deliver(self.fifo.popleft())


class _Sink:
    def __init__(self, fn):
        self.on_packet = fn


class HciTap:
    """Sits between a Host and a Controller.  Records every packet in both directions
    (T1: host->controller, T2: controller->host), optionally delays (order-preserving)
    and filters them."""

    def __init__(self, host, controller, rng=None, max_delay=0.0, record=None):
        self.host = host
        self.controller = controller
        self.record = record  # callable(direction, bytes)
        self.filter_h2c = None  # callable(bytes) -> bool (True = swallow)
        self.filter_c2h = None
        self.log = []
        self.line_h2c = DelayLine(self._to_controller, rng, max_delay)
        self.line_c2h = DelayLine(self._to_host, rng, max_delay)
        self.h2c = _Sink(self._h2c)
        self.h2c.controller = controller  # lets lib.hcimon see that the peer is the real virtual controller
        self.c2h = _Sink(self._c2h)
        host.set_packet_sink(self.h2c)
        if controller is not None:
            controller.set_packet_sink(self.c2h)

    def _h2c(self, packet):
        packet = bytes(packet)
        self.log.append(("h2c", packet))
        if self.record:
            self.record("h2c", packet)
        if self.filter_h2c and self.filter_h2c(packet):
            return
        self.line_h2c.push(packet)

    def _c2h(self, packet):
        packet = bytes(packet)
        self.log.append(("c2h", packet))
        if self.record:
            self.record("c2h", packet)
        if self.filter_c2h and self.filter_c2h(packet):
            return
        self.line_c2h.push(packet)

    def _to_controller(self, packet):
        if self.controller is not None:
            self.controller.on_packet(packet)

    def _to_host(self, packet):
        self.host.on_packet(packet)

    def inject_to_host(self, packet):
        """An HCI packet 'from the controller' made up by the harness."""
        self.line_c2h.push(bytes(packet))


class Stack:
    def __init__(self, name, link, public_address, rng=None, max_delay=0.0, controller_cfg=None, device_cfg=None):
        self.name = name
        self.controller = Controller(name, link=link, public_address=public_address)
        for k, v in (controller_cfg or {}).items():
            setattr(self.controller, k, v)
        self.host = Host()
        self.tap = HciTap(self.host, self.controller, rng=rng, max_delay=max_delay)
        self.device = Device(name=name, address=Address(public_address), host=self.host, **(device_cfg or {}))


def addr(i):
    return ":".join([f"F{i}"] * 6)


class Net:
    """N real stacks on one LocalLink."""

    def __init__(self, n, seed=0, max_delay=0.0, controller_cfg=None, link=None, device_cfg=None):
        self.rng = random.Random(seed)
        self.link = link or LocalLink()
        self.stacks = [
            Stack(f"D{i}", self.link, addr(i), rng=self.rng, max_delay=max_delay,
                  controller_cfg=(controller_cfg[i] if isinstance(controller_cfg, list) else controller_cfg),
                  device_cfg=(device_cfg[i] if isinstance(device_cfg, list) else device_cfg))
            for i in range(n)
        ]

    def __getitem__(self, i):
        return self.stacks[i].device

    @property
    def devices(self):
        return [s.device for s in self.stacks]

    async def power_on(self):
        for s in self.stacks:
            await s.device.power_on()

    async def connect_le(self, central=0, peripheral=1, own_address_type=None):
        """LE connection central -> peripheral (peripheral advertises with its random address).
        Returns (central_side_connection, peripheral_side_connection)."""
        c = self.stacks[central].device
        p = self.stacks[peripheral].device
        fut = asyncio.get_running_loop().create_future()
        p.once("connection", lambda conn: fut.done() or fut.set_result(conn))
        await p.start_advertising(advertising_interval_min=1000.0, advertising_interval_max=1000.0)
        kw = {}
        if own_address_type is not None:
            kw["own_address_type"] = own_address_type
        cc = await c.connect(p.random_address, **kw)
        pc = await fut
        return cc, pc

    async def connect_classic(self, a=0, b=1):
        from bumble.core import PhysicalTransport

        da = self.stacks[a].device
        db = self.stacks[b].device
        r = await asyncio.gather(
            da.connect(db.public_address, transport=PhysicalTransport.BR_EDR),
            db.accept(da.public_address),
        )
        return r[0], r[1]


def enable_classic(net):
    for s in net.stacks:
        s.device.classic_enabled = True
        s.controller.lmp_features = (
            hci.LmpFeatureMask(s.controller.lmp_features) & ~hci.LmpFeatureMask.BR_EDR_NOT_SUPPORTED
        )
