"""C12 (i): adversarial raw ATT server ("puppet") for the termination clause.

A real LE connection (lib.rig.Net); the peer device's ATT fixed channel (CID 4) is taken over by
a handler that answers the real bumble gatt_client.Client with raw ATT PDUs dictated by one path
of the Strict state graph of specs/Gatt/Discovery.tla.  PDUs are encoded here with struct, from
Core Vol 3 Part F 3.4, never with bumble's att module.
"""
from __future__ import annotations

import asyncio
import struct

from lib import rig, vt

PROCS = ("services", "service", "included", "chars", "descs", "attrs")
GROUP = ("services", "service")
RANGED = ("included", "chars", "descs")

REQ_OPCODE = {"services": 0x10, "service": 0x06, "included": 0x08, "chars": 0x08, "descs": 0x04, "attrs": 0x04}
UUID16 = 0x1234  # UUID carried in the fabricated entries


def cfg_text(procs, ng, nn, ranges, maxlist, strict, liveness=True):
    props = "PROPERTY Progress\nPROPERTY Decreases\n" + ("PROPERTY Terminates\n" if liveness else "")
    ps = ", ".join(f'"{p}"' for p in procs)
    rs = ", ".join(str(100 * lo + hi) for lo, hi in ranges)
    return (f"SPECIFICATION Spec\nCONSTANTS\n  NG = {ng}\n  NN = {nn}\n  Procs = {{{ps}}}\n  Ranges = {{{rs}}}\n  MaxList = {maxlist}\n"
            f"  Strict = {'TRUE' if strict else 'FALSE'}\nINVARIANT TypeOK\nINVARIANT Bound\n{props}CHECK_DEADLOCK FALSE\n")


# ----------------------------------------------------------------------------- model paths -> scripts
def script_of_path(g, path):
    """(responses, predicted starts) of one path of the Strict graph.
    responses: list of ("nf",) ("err",) ("empty",) ("none",) ("list", ((h, e), ...))"""
    rsps, starts = [], []
    for ei in path:
        _, _, name, args = g.edges[ei]
        if name == "Request":
            starts.append(args[0])
        elif name == "RespondNotFound":
            rsps.append(("nf",))
        elif name == "RespondError":
            rsps.append(("err",))
        elif name == "RespondEmpty":
            rsps.append(("empty",))
        elif name == "RespondNothing":
            rsps.append(("none",))
        elif name == "RespondList":
            rsps.append(("list", tuple(tuple(x) for x in args[0])))
        elif name == "Finish":
            pass
        else:
            raise ValueError(f"unknown action {name}")
    return rsps, starts


# ----------------------------------------------------------------------------- PDU encoders
def encode(proc, rsp, base, req_start):
    """Raw ATT PDU for abstract response rsp (None = stay silent)."""
    kind = rsp[0]
    op = REQ_OPCODE[proc]
    if kind == "none":
        return None
    if kind == "nf":
        return struct.pack("<BBHB", 0x01, op, req_start & 0xFFFF, 0x0A)
    if kind == "err":
        return struct.pack("<BBHB", 0x01, op, req_start & 0xFFFF, 0x0E)
    es = rsp[1] if kind == "list" else ()
    real = [(base + h, base + e) for h, e in es]
    if proc == "services":
        return bytes([0x11, 6]) + b"".join(struct.pack("<HHH", h, e, UUID16) for h, e in real)
    if proc == "service":
        return bytes([0x07]) + b"".join(struct.pack("<HH", h, e) for h, e in real)
    if proc == "included":
        return bytes([0x09, 8]) + b"".join(struct.pack("<HHHH", h, h, h, UUID16) for h, _ in real)
    if proc == "chars":
        return bytes([0x09, 7]) + b"".join(struct.pack("<HBHH", h, 0x0A, min(h + 1, 0xFFFF), UUID16) for h, _ in real)
    if proc in ("descs", "attrs"):
        return bytes([0x05, 1]) + b"".join(struct.pack("<HH", h, UUID16) for h, _ in real)
    raise ValueError(proc)


# ----------------------------------------------------------------------------- one network, many runs
class PuppetRig:
    """central = real bumble client, peripheral = puppet."""

    def __init__(self, seed=0, client_factory=None):
        self.seed = seed
        self.client_factory = client_factory
        self.script = []
        self.events = None

    async def setup(self):
        self.net = rig.Net(2, seed=self.seed)
        await self.net.power_on()
        self.cc, self.pc = await self.net.connect_le(0, 1)
        self.puppet = self.net[1]
        self.puppet.l2cap_channel_manager.register_fixed_channel(4, self._on_att)

    def _on_att(self, handle, pdu):
        pdu = bytes(pdu)
        if self.events is None or len(pdu) < 5 or pdu[0] & 1:
            return
        start, end = struct.unpack_from("<HH", pdu, 1)
        k = self.nreq
        self.nreq += 1
        want = 0
        if self.lockstep and k < len(self.wants):
            want = self.wants[k]
            if start != want:
                self.lockstep = False
        else:
            self.lockstep = False
        self.events.append(ev("req", s=start, t=end, want=want, op=pdu[0]))
        if k >= self.cap:
            return  # the adversary has said everything it had to say: silence (30 s time-out)
        rsp = self.script[k] if k < len(self.script) else (self.script[-1] if self.script else ("nf",))
        out = encode(self.proc, rsp, self.base, start)
        if out is None:
            return
        self.events.append(ev("rsp", k=rsp[0]))
        self.puppet.send_l2cap_pdu(handle, 4, out)

    async def run_one(self, proc, n, lo, hi, base, rsps, starts):
        """Run one discovery call of the real client against the script; returns the trace."""
        from bumble import gatt_client
        from bumble.core import UUID

        self.proc, self.base, self.script = proc, base, list(rsps)
        self.cap = n + 3
        self.nreq = 0
        self.lockstep = True
        # starting handles of the reference client (Part G): first request at the bottom of the range
        self.wants = []
        for i, s in enumerate(starts):
            if i == 0:
                self.wants.append(base + lo if proc in RANGED else 1)
            else:
                self.wants.append(base + s)
        self.events = []
        factory = self.client_factory or gatt_client.Client
        client = factory(self.cc)
        self.cc.gatt_client = client
        uuid = UUID.from_16_bits(UUID16)
        if proc == "services":
            call = client.discover_services()
        elif proc == "service":
            call = client.discover_service(uuid)
        elif proc == "included":
            call = client.discover_included_services(gatt_client.ServiceProxy(client, base + lo, base + hi, uuid, True))
        elif proc == "chars":
            call = client.discover_characteristics([], gatt_client.ServiceProxy(client, base + lo, base + hi, uuid, True))
        elif proc == "descs":
            call = client.discover_descriptors(start_handle=base + lo, end_handle=base + hi)
        elif proc == "attrs":
            call = client.discover_attributes()
        else:
            raise ValueError(proc)
        pending = 0
        try:
            await asyncio.wait_for(call, 50 * (self.cap + 4))
            self.events.append(ev("ret", o="return"))
        except asyncio.TimeoutError:
            pending = 1  # the harness gave up: the call never ended
        except Exception as e:  # the procedure ended by raising: that is an end
            self.events.append(ev("ret", o=type(e).__name__))
        events, self.events = self.events, None
        events.append(ev("end", p=pending, b=n + 1))
        return events


def ev(e, **kw):
    d = {"e": e, "s": 0, "t": 0, "want": 0, "k": "", "o": "", "p": 0, "b": 0, "op": 0}
    d.update(kw)
    return d


def run_scripts(jobs, seed=0, client_factory=None, batch=400):
    """jobs: list of (proc, n, lo, hi, base, rsps, starts).  Returns list of traces (same order).
    One LE connection per batch of jobs."""
    traces = []

    async def go(chunk):
        r = PuppetRig(seed, client_factory)
        await r.setup()
        out = []
        for j in chunk:
            out.append(await r.run_one(*j))
        return out

    for i in range(0, len(jobs), batch):
        traces.extend(vt.run(go(jobs[i : i + batch])))
    return traces
