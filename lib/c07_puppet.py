"""C07 puppet: a scripted raw L2CAP peer on top of a real Device/Host/Controller.

Everything below L2CAP is bumble's real stack; the LE signalling channel (CID 5) and the K-frames on the
dynamic CIDs are spoken by this file (reference behaviour of the specification LeCoc.tla executed in
Python; none of bumble's l2cap.py is used).  The puppet takes the Host's public 'l2cap_pdu' event away from
the Device for CID 5 and the dynamic range and sends with Device.send_l2cap_pdu.

The puppet logs nothing on the wire itself (both hosts are observed at their HCI boundary by
lib.c07_wire.L2capTap); it only reports what its *application* does: writes and sink deliveries.
"""
from __future__ import annotations

import asyncio
import collections
import struct

from lib import c07_wire as w

MAX_CREDITS = 65535


class PChan:
    def __init__(self, lcid, rcid, mine, peer, cfg):
        self.lcid = lcid
        self.rcid = rcid
        self.mtu, self.mps, self.init = mine  # what the puppet announced (its receive side)
        self.peer_mtu, self.peer_mps, self.tx_credits = peer  # what the other side announced
        # transmit side
        self.queue = collections.deque()
        self.sdu = None
        self.sdu_first = False
        self.seg = cfg.get("seg", {"sdu": "max", "frame": "max"})
        # receive side
        self.ledger = self.init
        self.rx_buf = None
        self.rx_need = None
        self.grant = cfg.get("grant", {"policy": "each"})
        self.acc = 0
        self.pending_grants = 0
        self.bonus_done = False
        self.wire_chan = None


class Puppet:
    def __init__(self, ep, stack, wire, rng, on_open=None):
        self.ep = ep
        self.device = stack.device
        self.host = stack.host
        self.wire = wire
        self.rng = rng
        self.on_open = on_open
        self.handle = None
        self.chans = {}  # local cid -> PChan
        self.ident = 0
        self.requests = {}  # ident -> (mode, [lcid...], mine, [cfg...])
        self.server = None  # dict(psm, mine, cids, cfgs, early_grant)
        self.rejects = []
        self.errors = []
        self.host.remove_listener("l2cap_pdu", self.device.on_l2cap_pdu)
        self.host.on("l2cap_pdu", self._on_pdu)

    # ------------------------------------------------------------------ plumbing
    def _next_ident(self):
        self.ident = self.ident % 255 + 1
        return self.ident

    def _send(self, cid, payload):
        self.device.send_l2cap_pdu(self.handle, cid, bytes(payload))

    def _on_pdu(self, handle, cid, pdu):
        if cid == w.SIG_CID:
            self._on_signal(handle, pdu)
        elif cid >= 0x40:
            pc = self.chans.get(cid)
            if pc is not None:
                self._on_kframe(pc, pdu)
        else:
            self.device.on_l2cap_pdu(handle, cid, pdu)  # ATT, SMP: the real device

    # ------------------------------------------------------------------ opening channels
    def listen(self, psm, mine, cids, cfgs, early_grant=0):
        self.server = {"psm": psm, "mine": mine, "cids": list(cids), "cfgs": list(cfgs), "early_grant": early_grant}

    def connect(self, mode, psm, mine, cids, cfgs):
        ident = self._next_ident()
        self.requests[ident] = (mode, list(cids), mine, list(cfgs))
        mtu, mps, credits = mine
        if mode == "le":
            self._send(w.SIG_CID, w.le_conn_req(ident, psm, cids[0], mtu, mps, credits))
        else:
            self._send(w.SIG_CID, w.ecred_conn_req(ident, psm, mtu, mps, credits, cids))

    def _opened(self, pc):
        self.chans[pc.lcid] = pc
        if self.on_open:
            self.on_open(pc)
        if pc.init == 0:
            # opened with zero initial credits (legal): the first credits come on their own, a little later
            asyncio.get_running_loop().call_later(pc.grant.get("kick_delay", 0.3), self._grant, pc, pc.grant.get("kick", 2))

    def _on_signal(self, handle, pdu):
        p = w.sig_parse(pdu)
        if p is None:
            return
        code, ident, data = p
        self.handle = handle if self.handle is None else self.handle
        if code == w.LE_CONN_REQ:
            psm, scid, mtu, mps, credits = struct.unpack_from("<HHHHH", data, 0)
            s = self.server
            if not s or s["psm"] != psm or not s["cids"]:
                self._send(w.SIG_CID, w.le_conn_rsp(ident, 0, 23, 23, 0, result=2))
                return
            lcid = s["cids"].pop(0)
            cfg = s["cfgs"].pop(0) if s["cfgs"] else {}
            pc = PChan(lcid, scid, s["mine"], (mtu, mps, credits), cfg)
            self._send(w.SIG_CID, w.le_conn_rsp(ident, lcid, *s["mine"]))
            self._opened(pc)
            if s["early_grant"]:
                self._grant(pc, s["early_grant"])
        elif code == w.ECRED_CONN_REQ:
            spsm, mtu, mps, credits = struct.unpack_from("<HHHH", data, 0)
            scids = w.u16s(data, 8)
            s = self.server
            if not s or s["psm"] != spsm or len(s["cids"]) < len(scids):
                self._send(w.SIG_CID, w.ecred_conn_rsp(ident, 23, 23, 0, 2, []))
                return
            pcs = []
            for scid in scids:
                lcid = s["cids"].pop(0)
                cfg = s["cfgs"].pop(0) if s["cfgs"] else {}
                pcs.append(PChan(lcid, scid, s["mine"], (mtu, mps, credits), cfg))
            self._send(w.SIG_CID, w.ecred_conn_rsp(ident, *s["mine"], 0, [pc.lcid for pc in pcs]))
            for pc in pcs:
                self._opened(pc)
            if s["early_grant"]:
                for pc in pcs:
                    self._grant(pc, s["early_grant"])
        elif code == w.LE_CONN_RSP:
            req = self.requests.pop(ident, None)
            if req is None:
                return
            dcid, mtu, mps, credits, result = struct.unpack_from("<HHHHH", data, 0)
            if result != 0:
                self.rejects.append(("le", result))
                return
            self._opened(PChan(req[1][0], dcid, req[2], (mtu, mps, credits), req[3][0] if req[3] else {}))
        elif code == w.ECRED_CONN_RSP:
            req = self.requests.pop(ident, None)
            if req is None:
                return
            mtu, mps, credits, result = struct.unpack_from("<HHHH", data, 0)
            dcids = w.u16s(data, 8)
            if result != 0 and not any(dcids):
                self.rejects.append(("ecred", result))
                return
            for i, (lcid, dcid) in enumerate(zip(req[1], dcids)):
                if dcid:
                    self._opened(PChan(lcid, dcid, req[2], (mtu, mps, credits), req[3][i] if i < len(req[3]) else {}))
        elif code == w.FLOW_CREDIT:
            cid, credits = struct.unpack_from("<HH", data, 0)
            # the CID field names the SENDER's endpoint of the channel = our remote cid
            for pc in self.chans.values():
                if pc.rcid == cid:
                    pc.tx_credits += credits
                    self.pump(pc)
                    break
        elif code == w.DISC_REQ:
            dcid, scid = struct.unpack_from("<HH", data, 0)
            self._send(w.SIG_CID, w.sig(w.DISC_RSP, ident, struct.pack("<HH", dcid, scid)))
            self.chans.pop(dcid, None)
        elif code == w.CMD_REJECT:
            self.rejects.append(("reject", data.hex()))

    # ------------------------------------------------------------------ sender side
    def write(self, pc, data):
        self.wire.write(self.ep, pc.wire_chan, data)
        pc.queue.append(bytes(data))
        self.pump(pc)

    def _next_sdu(self, pc):
        pol = pc.seg.get("sdu", "max")
        avail = sum(len(c) for c in pc.queue)
        if pol == "write":
            k = min(pc.peer_mtu, len(pc.queue[0]))
        elif pol == "rand":
            k = self.rng.randint(1, min(pc.peer_mtu, avail)) if avail else 0
        else:
            k = min(pc.peer_mtu, avail)
        out = bytearray()
        while len(out) < k:
            c = pc.queue.popleft()
            take = k - len(out)
            out += c[:take]
            if len(c) > take:
                pc.queue.appendleft(c[take:])
        while pc.queue and len(pc.queue[0]) == 0 and k > 0:
            pc.queue.popleft()
        if k == 0 and pc.queue and len(pc.queue[0]) == 0:
            pc.queue.popleft()  # an empty write becomes an empty SDU
        return struct.pack("<H", k) + bytes(out)

    def pump(self, pc):
        while pc.tx_credits > 0:
            if pc.sdu is None:
                if not pc.queue:
                    return
                pc.sdu = self._next_sdu(pc)
                pc.sdu_first = True
            pol = pc.seg.get("frame", "max")
            top = min(pc.peer_mps, len(pc.sdu))
            low = min(2, top) if pc.sdu_first else 1
            if pol == "rand":
                n = self.rng.randint(low, top)
            elif pol == "hdr" and pc.sdu_first:
                n = low  # first frame carries the SDU length only
            elif pol == "one":
                n = low  # smallest legal frames: as many frames per byte as possible
            elif pol == "small":
                n = min(top, max(low, self.rng.choice([1, 2, 3, 5])))
            else:
                n = top
            frame, rest = pc.sdu[:n], pc.sdu[n:]
            pc.sdu = rest if rest else None
            pc.sdu_first = False
            pc.tx_credits -= 1
            self._send(pc.rcid, frame)

    def unsent(self, pc):
        return sum(len(c) for c in pc.queue) + (len(pc.sdu) if pc.sdu else 0)

    # ------------------------------------------------------------------ receiver side
    def _on_kframe(self, pc, pdu):
        pc.ledger -= 1  # may go negative if the peer sends without credit: the specification decides, we carry on
        if pc.rx_need is None:
            pc.rx_buf = bytearray(pdu)
            if len(pc.rx_buf) >= 2:
                pc.rx_need = pc.rx_buf[0] | (pc.rx_buf[1] << 8)
                del pc.rx_buf[:2]
            else:
                pc.rx_need = -1  # header split: not produced by a conforming sender, resynchronise on the next frame
        else:
            pc.rx_buf += pdu
        if pc.rx_need is not None and pc.rx_need >= 0 and len(pc.rx_buf) >= pc.rx_need:
            self.wire.sink(self.ep, pc.wire_chan, bytes(pc.rx_buf[: pc.rx_need]))
            pc.rx_buf = None
            pc.rx_need = None
        elif pc.rx_need == -1:
            pc.rx_buf = None
            pc.rx_need = None
        self._after_frame(pc)

    def _after_frame(self, pc):
        g = pc.grant
        pol = g.get("policy", "each")
        have = max(pc.ledger, 0) + pc.pending_grants
        room = MAX_CREDITS - have
        k = 0
        pc.acc += 1
        if pol == "each":
            k = pc.acc
        elif pol == "batch":
            if pc.acc >= g.get("batch", 3):
                k = pc.acc
        elif pol == "lazy":
            if have == 0:
                k = self.rng.randint(1, max(1, g.get("top", pc.init)))
        elif pol == "bonus":
            # one early grant while the peer still holds credits, then only when it has none left
            if not pc.bonus_done:
                pc.bonus_done = True
                k = g.get("bonus", 5)
            elif have == 0:
                k = self.rng.randint(1, max(1, g.get("top", pc.init)))
        elif pol == "huge":
            if not pc.bonus_done:
                pc.bonus_done = True
                k = room
            elif have == 0:
                k = self.rng.randint(1, 1000)
        elif pol == "rand":
            if self.rng.random() < 0.4:
                k = self.rng.randint(1, 1 + 2 * pc.init)
        # progress obligation of a receiver that keeps consuming: never leave the sender without a credit
        if k == 0 and have == 0:
            k = max(1, min(pc.acc, pc.init))
        k = min(k, room)
        if k <= 0:
            return
        pc.acc = 0
        d = g.get("delay", 0.0)
        if d:
            pc.pending_grants += k
            asyncio.get_running_loop().call_later(self.rng.uniform(0, d), self._grant, pc, k, True)
        else:
            self._grant(pc, k)

    def _grant(self, pc, k, was_pending=False):
        if was_pending:
            pc.pending_grants -= k
        pc.ledger += k
        self._send(w.SIG_CID, w.flow_credit(self._next_ident(), pc.lcid, k))
