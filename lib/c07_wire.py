"""C07 observation layer: L2CAP frames at the HCI boundary of a real stack, the LE signalling
codec used by the harness (written from Core Vol 3 Part A 4.22-4.26, NOT bumble's classes), and the
`Wire` object that turns what the observers see into one trace per (channel, direction) in the
vocabulary of specs/L2cap/LeCocTrace.tla.

Endpoints are numbered 0 and 1.  Direction d = the index of the SENDING endpoint (data flows d -> 1-d).
"""
from __future__ import annotations

import struct

SIG_CID = 0x0005
CMD_REJECT = 0x01
DISC_REQ = 0x06
DISC_RSP = 0x07
LE_CONN_REQ = 0x14
LE_CONN_RSP = 0x15
FLOW_CREDIT = 0x16
ECRED_CONN_REQ = 0x17
ECRED_CONN_RSP = 0x18


# ----------------------------------------------------------------------------- signalling codec
def sig(code, ident, data):
    return struct.pack("<BBH", code, ident, len(data)) + data


def sig_parse(pdu):
    """-> (code, ident, data) or None if malformed."""
    if len(pdu) < 4:
        return None
    code, ident, ln = struct.unpack_from("<BBH", pdu, 0)
    if len(pdu) < 4 + ln:
        return None
    return code, ident, pdu[4 : 4 + ln]


def le_conn_req(ident, psm, scid, mtu, mps, credits):
    return sig(LE_CONN_REQ, ident, struct.pack("<HHHHH", psm, scid, mtu, mps, credits))


def le_conn_rsp(ident, dcid, mtu, mps, credits, result=0):
    return sig(LE_CONN_RSP, ident, struct.pack("<HHHHH", dcid, mtu, mps, credits, result))


def flow_credit(ident, cid, credits):
    return sig(FLOW_CREDIT, ident, struct.pack("<HH", cid, credits))


def ecred_conn_req(ident, spsm, mtu, mps, credits, scids):
    return sig(ECRED_CONN_REQ, ident, struct.pack("<HHHH", spsm, mtu, mps, credits) + b"".join(struct.pack("<H", c) for c in scids))


def ecred_conn_rsp(ident, mtu, mps, credits, result, dcids):
    return sig(ECRED_CONN_RSP, ident, struct.pack("<HHHH", mtu, mps, credits, result) + b"".join(struct.pack("<H", c) for c in dcids))


def u16s(data, off):
    n = (len(data) - off) // 2
    return list(struct.unpack_from("<" + "H" * n, data, off))


# ----------------------------------------------------------------------------- HCI boundary observer
class L2capTap:
    """Observes L2CAP PDUs at the HCI boundary of one lib.rig.Stack with its own ACL reassembly.

    outbound (host -> controller): `on_out_start(cid, length, head)` when the FIRST fragment of a PDU
        leaves the host (head = the payload bytes present in that fragment), `on_out(cid, payload)` when the last one has left;
    inbound (controller -> host): `on_in(cid, payload)` immediately BEFORE the last fragment is handed to the
        host (so what the host does in reaction is logged after the cause).
    """

    def __init__(self, stack, on_out_start=None, on_out=None, on_in=None):
        self.on_out_start = on_out_start
        self.on_out = on_out
        self.on_in = on_in
        self._out = {}  # handle -> [need, cid, bytearray]
        self._in = {}
        tap = stack.tap
        prev_record = tap.record

        def record(direction, packet):
            if prev_record:
                prev_record(direction, packet)
            if direction == "h2c":
                self._acl(packet, self._out, outbound=True)

        tap.record = record
        orig = tap.line_c2h.deliver

        def deliver(packet):
            self._acl(packet, self._in, outbound=False)
            orig(packet)

        tap.line_c2h.deliver = deliver

    def _acl(self, packet, table, outbound):
        if not packet or packet[0] != 0x02 or len(packet) < 5:
            return
        hf, ln = struct.unpack_from("<HH", packet, 1)
        handle = hf & 0x0FFF
        pb = (hf >> 12) & 3
        data = packet[5 : 5 + ln]
        if pb in (0, 2):  # start of an L2CAP PDU
            if len(data) < 4:
                raise RuntimeError("harness: ACL start fragment shorter than the L2CAP header")
            plen, cid = struct.unpack_from("<HH", data, 0)
            st = [plen, cid, bytearray(data[4:])]
            table[handle] = st
            if outbound and self.on_out_start:
                self.on_out_start(cid, plen, bytes(st[2]))
        else:
            st = table.get(handle)
            if st is None:
                return  # continuation without start: below L2CAP, not ours to judge (C05)
            st[2] += data
        if len(st[2]) >= st[0]:
            table.pop(handle, None)
            payload = bytes(st[2][: st[0]])
            if outbound:
                if self.on_out:
                    self.on_out(st[1], payload)
            elif self.on_in:
                self.on_in(st[1], payload)


# ----------------------------------------------------------------------------- channels and traces
class Chan:
    def __init__(self, idx, mode, cids, params, requester):
        self.idx = idx
        self.mode = mode  # "le" | "ecred"
        self.cid = cids  # [cid at endpoint 0, cid at endpoint 1]
        self.params = params  # [ (mtu, mps, credits) announced by endpoint 0, by endpoint 1 ]
        self.requester = requester
        # per direction d (sender = d)
        self.trace = [[], []]
        self.stream = [bytearray(), bytearray()]  # bytes written by endpoint d
        self.delivered = [0, 0]  # bytes of direction d handed to the sink of 1-d
        self.tx_left = [0, 0]  # observer's parse of the SDU in progress in direction d
        self.frames = [0, 0]
        self.close_asked = [False, False]  # the application of endpoint e called disconnect() on this channel
        self.closed_by = None  # endpoint whose Disconnection Request was seen first
        for d in (0, 1):
            mtu, mps, credits = params[1 - d]  # what the RECEIVER of direction d announced
            self.trace[d].append(_ev("open", n=credits, mtu=mtu, mps=mps))


def _ev(e, n=0, k=0, first=False, ok=True, mtu=0, mps=0):
    return {"e": e, "n": int(n), "k": int(k), "first": bool(first), "ok": bool(ok), "mtu": int(mtu), "mps": int(mps)}


class Wire:
    """Learns the channels from the signalling it is shown and files every observed event in the trace of
    its (channel, direction)."""

    def __init__(self):
        self.chans = []
        self.by_cid = [{}, {}]  # endpoint -> local cid -> Chan
        self.pending = {}  # (requester endpoint, ident) -> parsed request
        self.refused = []
        self.strays = []
        self.anomalies = []

    # --- signalling, shown at the SENDER's boundary (ep = sender)
    def sig_out(self, ep, pdu):
        p = sig_parse(pdu)
        if p is None:
            return
        code, ident, data = p
        if code == LE_CONN_REQ and len(data) >= 10:
            psm, scid, mtu, mps, credits = struct.unpack_from("<HHHHH", data, 0)
            self.pending[(ep, ident)] = ("le", [scid], (mtu, mps, credits))
        elif code == ECRED_CONN_REQ and len(data) >= 8:
            spsm, mtu, mps, credits = struct.unpack_from("<HHHH", data, 0)
            self.pending[(ep, ident)] = ("ecred", u16s(data, 8), (mtu, mps, credits))
        elif code == LE_CONN_RSP and len(data) >= 10:
            req = self.pending.pop((1 - ep, ident), None)
            dcid, mtu, mps, credits, result = struct.unpack_from("<HHHHH", data, 0)
            if req is None or req[0] != "le":
                return
            if result != 0:
                self.refused.append(("le", result))
                return
            self._open("le", 1 - ep, req[1], [dcid], req[2], (mtu, mps, credits))
        elif code == ECRED_CONN_RSP and len(data) >= 8:
            req = self.pending.pop((1 - ep, ident), None)
            mtu, mps, credits, result = struct.unpack_from("<HHHH", data, 0)
            dcids = u16s(data, 8)
            if req is None or req[0] != "ecred":
                return
            if result != 0 and not any(dcids):
                self.refused.append(("ecred", result))
                return
            self._open("ecred", 1 - ep, req[1], dcids, req[2], (mtu, mps, credits))
        elif code == FLOW_CREDIT and len(data) >= 4:
            cid, credits = struct.unpack_from("<HH", data, 0)
            ch = self.by_cid[ep].get(cid)  # the CID field is the sender's own endpoint of the channel
            if ch is None:
                self.stray(ep, f"credit packet for cid 0x{cid:04x} which is no open channel of its sender")
                return
            ch.trace[1 - ep].append(_ev("grant", n=credits))  # ep is the receiver of direction 1-ep
        elif code == DISC_REQ and len(data) >= 4:
            # Disconnection Request (Core Vol 3 Part A 4.6): DCID = the channel's endpoint at the receiver of the request,
            # SCID = its endpoint at the sender.  Logged in both directions of the channel: `first` = the request comes
            # from the SENDER of that direction, `ok` = the application on the requesting endpoint asked for it
            dcid, scid = struct.unpack_from("<HH", data, 0)
            ch = self.by_cid[ep].get(scid)
            if ch is None or self.by_cid[1 - ep].get(dcid) is not ch:
                self.stray(ep, f"disconnection request for (dcid 0x{dcid:04x}, scid 0x{scid:04x}) which is no open channel")
                return
            if ch.closed_by is None:
                ch.closed_by = ep
                for d in (0, 1):
                    ch.trace[d].append(_ev("close", first=(ep == d), ok=ch.close_asked[ep]))

    def _open(self, mode, requester, scids, dcids, req_params, rsp_params):
        for scid, dcid in zip(scids, dcids):
            if dcid == 0:
                continue
            cids = [0, 0]
            cids[requester] = scid
            cids[1 - requester] = dcid
            params = [None, None]
            params[requester] = req_params
            params[1 - requester] = rsp_params
            ch = Chan(len(self.chans), mode, cids, params, requester)
            self.chans.append(ch)
            self.by_cid[0][cids[0]] = ch
            self.by_cid[1][cids[1]] = ch

    # --- signalling, shown at the RECEIVER's boundary (ep = receiver of the packet)
    def sig_in(self, ep, pdu):
        p = sig_parse(pdu)
        if p is None:
            return
        code, ident, data = p
        if code == FLOW_CREDIT and len(data) >= 4:
            cid, credits = struct.unpack_from("<HH", data, 0)
            ch = self.by_cid[1 - ep].get(cid)
            if ch is None:
                return  # already reported as stray at the sender's boundary
            ch.trace[ep].append(_ev("credit", n=credits))  # ep is the sender of direction ep

    # --- K-frames
    def kframe_out(self, ep, cid, length, head):
        """endpoint ep emits a K-frame addressed to `cid` (a CID of the other endpoint)."""
        ch = self.by_cid[1 - ep].get(cid)
        if ch is None:
            self.stray(ep, f"frame addressed to cid 0x{cid:04x} which is no open channel of the receiver")
            return
        d = ep
        ch.frames[d] += 1
        if ch.tx_left[d] <= 0:
            if length >= 2 and len(head) >= 2:
                k = head[0] | (head[1] << 8)
                ch.tx_left[d] = k - (length - 2)
            else:
                k = 0
            ch.trace[d].append(_ev("send", n=length, first=True, k=k))
        else:
            ch.tx_left[d] -= length
            ch.trace[d].append(_ev("send", n=length, first=False))

    def kframe_in(self, ep, cid, payload):
        """endpoint ep is about to be handed a K-frame on its own cid."""
        ch = self.by_cid[ep].get(cid)
        if ch is None:
            return None
        ch.trace[1 - ep].append(_ev("recv", n=len(payload)))
        return ch

    # --- application level
    def write(self, ep, ch, data):
        ch.stream[ep] += data
        ch.trace[ep].append(_ev("write", n=len(data)))

    def sink(self, ep, ch, data):
        d = 1 - ep
        off = ch.delivered[d]
        ok = bytes(ch.stream[d][off : off + len(data)]) == bytes(data)
        ch.delivered[d] = off + len(data)
        ch.trace[d].append(_ev("sink", n=len(data), ok=ok))

    def app_close(self, ep, ch):
        """the application on endpoint ep is about to call disconnect() on its end of the channel."""
        ch.close_asked[ep] = True

    def raised(self, ep, ch, what, etype="Exception"):
        """the stack of endpoint ep raised out of a public call / receive path."""
        self.anomalies.append((ep, what, etype))
        targets = [ch] if ch is not None else self.chans
        for c in targets:
            c.trace[ep].append(_ev("raise"))

    def stray(self, ep, what):
        self.strays.append((ep, what))
        for c in self.chans:
            c.trace[ep].append(_ev("stray"))

    def quiesce(self, pending_drains):
        """pending_drains: {(chan idx, endpoint): n}"""
        for ch in self.chans:
            for d in (0, 1):
                ch.trace[d].append(_ev("quiesce", n=pending_drains.get((ch.idx, d), 0)))
