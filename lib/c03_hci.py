"""C03 helper: byte-level view of the HCI packets crossing the host<->controller tap, written from the
Bluetooth Core specification (Vol 4 Part E), NOT with bumble's parsers: opcodes, Command Complete /
Command Status fields, and the catalogue of procedures (command that starts it, event that concludes it,
how the two are matched).  Everything here is a pure function of packet bytes."""
from __future__ import annotations

# ----------------------------------------------------------------------------- procedure catalogue
# opcode -> (kind, how the key is taken from the command parameters)
OP_LE_CREATE_CONNECTION = 0x200D
OP_LE_CREATE_CONNECTION_CANCEL = 0x200E
OP_LE_EXTENDED_CREATE_CONNECTION = 0x2043
OP_CREATE_CONNECTION = 0x0405
OP_DISCONNECT = 0x0406
OP_CREATE_CONNECTION_CANCEL = 0x0408
OP_ACCEPT_CONNECTION_REQUEST = 0x0409
OP_REMOTE_NAME_REQUEST = 0x0419
OP_REMOTE_NAME_REQUEST_CANCEL = 0x041A
OP_READ_REMOTE_SUPPORTED_FEATURES = 0x041B
OP_READ_REMOTE_EXTENDED_FEATURES = 0x041C
OP_READ_REMOTE_VERSION_INFORMATION = 0x041D
OP_LE_READ_REMOTE_FEATURES = 0x2016
OP_LE_ENABLE_ENCRYPTION = 0x2019
OP_LE_CREATE_CIS = 0x2064

HANDLE_KINDS = ("disc", "lefeat", "enc", "feat", "xfeat", "ver", "cis")


def _h(b, off):
    return (b[off] | (b[off + 1] << 8)) & 0x0FFF if len(b) >= off + 2 else 0xFFFF


def _addr(b, off):
    return bytes(b[off:off + 6]).hex()


def opcode_of(cmd: bytes) -> int:
    return cmd[1] | (cmd[2] << 8)


def proc_keys(cmd: bytes):
    """Procedures the command packet starts if the controller accepts it as pending."""
    op = opcode_of(cmd)
    p = cmd[4:]
    if op in (OP_LE_CREATE_CONNECTION, OP_LE_EXTENDED_CREATE_CONNECTION):
        return ["lecon"]  # one LE connection can be pending per controller
    if op in (OP_CREATE_CONNECTION, OP_ACCEPT_CONNECTION_REQUEST):
        # 7.1.5 / 7.1.8: Command Status, then Connection Complete for that BD_ADDR on the local host - whichever
        # end of the page the controller is on (for the acceptor also when the role switch it asked for is refused)
        return ["con:" + _addr(p, 0)]
    if op == OP_DISCONNECT:
        return [f"disc:{_h(p, 0):04x}"]
    if op == OP_REMOTE_NAME_REQUEST:
        return ["name:" + _addr(p, 0)]
    if op == OP_READ_REMOTE_SUPPORTED_FEATURES:
        return [f"feat:{_h(p, 0):04x}"]
    if op == OP_READ_REMOTE_EXTENDED_FEATURES:
        return [f"xfeat:{_h(p, 0):04x}"]
    if op == OP_READ_REMOTE_VERSION_INFORMATION:
        return [f"ver:{_h(p, 0):04x}"]
    if op == OP_LE_READ_REMOTE_FEATURES:
        return [f"lefeat:{_h(p, 0):04x}"]
    if op == OP_LE_ENABLE_ENCRYPTION:
        return [f"enc:{_h(p, 0):04x}"]
    if op == OP_LE_CREATE_CIS:
        n = p[0] if p else 0
        return sorted({f"cis:{_h(p, 1 + 4 * i):04x}" for i in range(n) if len(p) >= 1 + 4 * (i + 1)})
    return []


def cancel_key(cmd: bytes) -> str:
    op = opcode_of(cmd)
    p = cmd[4:]
    if op == OP_LE_CREATE_CONNECTION_CANCEL:
        return "lecon"
    if op == OP_CREATE_CONNECTION_CANCEL:
        return "con:" + _addr(p, 0)
    if op == OP_REMOTE_NAME_REQUEST_CANCEL:
        return "name:" + _addr(p, 0)
    return ""


def classify_c2h(pkt: bytes):
    """-> None (not command flow control, not a completion event) or a dict:
    {"ty": "rep", "k": "cc"|"cs", "op", "status", "n"} | {"ty": "nop", "n"} | {"ty": "evt", "keys": [...], "status", "name"}"""
    if len(pkt) < 3 or pkt[0] != 0x04:
        return None
    code = pkt[1]
    b = pkt[3:]
    if code == 0x0E and len(b) >= 3:  # Command Complete: ncmd, opcode, return parameters
        op = b[1] | (b[2] << 8)
        if op == 0:
            return {"ty": "nop", "n": b[0]}
        return {"ty": "rep", "k": "cc", "op": op, "status": (b[3] if len(b) > 3 else 0), "n": b[0]}
    if code == 0x0F and len(b) >= 4:  # Command Status: status, ncmd, opcode
        op = b[2] | (b[3] << 8)
        if op == 0:
            return {"ty": "nop", "n": b[1]}
        return {"ty": "rep", "k": "cs", "op": op, "status": b[0], "n": b[1]}
    if code == 0x03 and len(b) >= 9:  # Connection Complete: status, handle, bd_addr
        return {"ty": "evt", "keys": ["con:" + _addr(b, 3)], "status": b[0], "name": "Connection_Complete", "handle": _h(b, 1), "up": b[0] == 0}
    if code == 0x05 and len(b) >= 4:  # Disconnection Complete: status, handle, reason
        h = _h(b, 1)
        if b[0] == 0:  # the link is gone: every procedure on that handle is over
            keys = [f"{k}:{h:04x}" for k in HANDLE_KINDS]
        else:
            keys = [f"disc:{h:04x}"]
        return {"ty": "evt", "keys": keys, "status": b[0], "name": "Disconnection_Complete", "handle": h, "down": b[0] == 0}
    if code == 0x07 and len(b) >= 7:  # Remote Name Request Complete: status, bd_addr
        return {"ty": "evt", "keys": ["name:" + _addr(b, 1)], "status": b[0], "name": "Remote_Name_Request_Complete"}
    if code in (0x08, 0x59, 0x30) and len(b) >= 3:  # Encryption Change v1/v2, Encryption Key Refresh Complete
        return {"ty": "evt", "keys": [f"enc:{_h(b, 1):04x}"], "status": b[0], "name": "Encryption_Change"}
    if code == 0x0B and len(b) >= 3:
        return {"ty": "evt", "keys": [f"feat:{_h(b, 1):04x}"], "status": b[0], "name": "Read_Remote_Supported_Features_Complete"}
    if code == 0x23 and len(b) >= 3:
        return {"ty": "evt", "keys": [f"xfeat:{_h(b, 1):04x}"], "status": b[0], "name": "Read_Remote_Extended_Features_Complete"}
    if code == 0x0C and len(b) >= 3:
        return {"ty": "evt", "keys": [f"ver:{_h(b, 1):04x}"], "status": b[0], "name": "Read_Remote_Version_Information_Complete"}
    if code == 0x3E and len(b) >= 2:  # LE Meta
        sub = b[0]
        if sub in (0x01, 0x0A, 0x29) and len(b) >= 5:  # LE (Enhanced) Connection Complete: status, handle, role
            status, role = b[1], b[4]
            # an incoming connection (role peripheral, success) is not the conclusion of an own create connection
            keys = ["lecon"] if (status != 0 or role == 0) else []
            return {"ty": "evt", "keys": keys, "status": status, "name": "LE_Connection_Complete", "handle": _h(b, 2), "up": status == 0}
        if sub == 0x04 and len(b) >= 4:
            return {"ty": "evt", "keys": [f"lefeat:{_h(b, 2):04x}"], "status": b[1], "name": "LE_Read_Remote_Features_Complete"}
        if sub == 0x19 and len(b) >= 4:
            return {"ty": "evt", "keys": [f"cis:{_h(b, 2):04x}"], "status": b[1], "name": "LE_CIS_Established", "handle": _h(b, 2), "up": b[1] == 0}
    return None


# ----------------------------------------------------------------------------- scripted ("puppet") controller packets
def make_cc(op, ncmd=1, ret=b"\x00"):
    body = bytes([ncmd, op & 0xFF, op >> 8]) + bytes(ret)
    return bytes([0x04, 0x0E, len(body)]) + body


def make_cs(op, status=0, ncmd=1):
    return bytes([0x04, 0x0F, 4, status, ncmd, op & 0xFF, op >> 8])


def make_nop(ncmd=1):
    return bytes([0x04, 0x0E, 3, ncmd, 0, 0])
