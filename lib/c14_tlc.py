"""TLC runs specific to C14 (lib/tlc.py is shared and keeps one verdict per trace; LawsTrace.tla
prints one REJECT per offending event and goes on, so every REJECT line is collected here)."""
from __future__ import annotations

import json
import os
import re
import shutil
import subprocess
import tempfile
import time

from . import tlaval, tlc


def _run(cmd, cwd, timeout, env):
    t0 = time.time()
    try:
        r = subprocess.run(cmd, cwd=cwd, capture_output=True, text=True, timeout=timeout, env=dict(os.environ, **env))
    except subprocess.TimeoutExpired as ex:
        raise tlc.TlcError(f"TLC timed out after {timeout}s: {' '.join(cmd)}") from ex
    return r.returncode, r.stdout + r.stderr, time.time() - t0


def _printed(out, tags):
    """Every top-level <<"TAG", ...>> tuple printed by PrintT (bracket matching, strings respected)."""
    start = re.compile(r'<<\s*"(?:%s)"' % "|".join(tags))
    i, n = 0, len(out)
    while True:
        m = start.search(out, i)
        if not m:
            return
        j = k = m.start()
        depth, instr = 0, False
        while k < n:
            c = out[k]
            if instr:
                if c == "\\":
                    k += 1
                elif c == '"':
                    instr = False
            elif c == '"':
                instr = True
            elif out.startswith("<<", k):
                depth += 1
                k += 1
            elif out.startswith(">>", k):
                depth -= 1
                k += 1
                if depth == 0:
                    break
            k += 1
        yield out[j : k + 1]
        i = k + 1


def _tlc(spec_path, cfg_path, env, timeout, tag):
    base = os.path.join(tlc.VERIF, "out", "tlc")
    os.makedirs(base, exist_ok=True)
    d = tempfile.mkdtemp(prefix=tag + "-", dir=base)
    cmd = ["java", "-XX:+UseParallelGC", "-XX:ParallelGCThreads=4", "-Xmx4g", "-Xss32m", "-cp", tlc.JAR, "tlc2.TLC", "-workers", "1", "-metadir", os.path.join(d, "meta"),
           "-noGenerateSpecTE", "-config", cfg_path, spec_path]
    return d, cmd


def validate(spec_path, cfg_path, traces, timeout=1800, tag="c14"):
    """Validate traces with LawsTrace.tla.  Returns dict(rejects={tid: [(l, event info, broken laws)]},
    states, transitions, wall_s).  Every trace must reach DONE, else TlcError (machinery)."""
    d, cmd = _tlc(spec_path, cfg_path, None, timeout, tag)
    try:
        tf = os.path.join(d, "traces.json")
        with open(tf, "w") as f:
            json.dump(traces, f)
        rc, out, wall = _run(cmd, os.path.dirname(spec_path), timeout, env={"TRACE_FILE": tf})
    finally:
        shutil.rmtree(d, ignore_errors=True)
    summ = tlc.parse_summary(out)
    if summ is None or "Model checking completed. No error has been found." not in out:
        raise tlc.TlcError(f"trace validation run failed (rc={rc}) {spec_path}:\n{out[-3000:]}")
    rejects, done = {}, set()
    for txt in _printed(out, ("DONE", "REJECT")):
        v = tlaval.parse_value(txt)
        if v[0] == "DONE":
            done.add(v[1])
        else:
            rejects.setdefault(v[1], []).append((v[2], v[3], sorted(v[4])))
    missing = [t for t in range(1, len(traces) + 1) if t not in done]
    if missing:
        raise tlc.TlcError(f"trace validation: traces {missing[:10]} never reached DONE:\n{out[-2000:]}")
    for r in rejects.values():
        r.sort()
    return {"rejects": rejects, "states": summ["distinct"], "transitions": summ["generated"], "wall_s": wall}


def dump_vectors(spec_path, out_dir):
    """Ask LawsTrace.tla (DumpSpec) for CoreVectors; returns a list of {f, args, r}."""
    os.makedirs(out_dir, exist_ok=True)
    cfg = os.path.join(out_dir, f"dump_vectors.{os.getpid()}.cfg")
    with open(cfg, "w") as f:
        f.write('SPECIFICATION DumpSpec\nCONSTANTS\n  Backends = {"cryptography", "builtin"}\n  Vectors <- CoreVectors\n  Funcs = {}\n'
                '  MaxCalls = 0\n  Fault = "none"\n  Bad = "builtin"\nCHECK_DEADLOCK FALSE\n')
    d, cmd = _tlc(spec_path, cfg, None, 300, "c14dump")
    vf = os.path.join(d, "core_vectors.json")  # private to this run (concurrent checks do not collide)
    try:
        rc, out, wall = _run(cmd, os.path.dirname(spec_path), 300, env={"VECTOR_FILE": vf})
        if rc != 0 or not os.path.exists(vf):
            raise tlc.TlcError(f"could not obtain CoreVectors from the specification (rc={rc}):\n{out[-2000:]}")
        with open(vf) as f:
            vs = json.load(f)
    finally:
        shutil.rmtree(d, ignore_errors=True)
        os.remove(cfg)
    if not vs or not all(set(v) >= {"f", "args", "r"} for v in vs):
        raise tlc.TlcError(f"CoreVectors dump is malformed: {str(vs)[:300]}")
    return vs
