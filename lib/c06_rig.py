"""C06 rig: N real Device + Host + Controller stacks on one LocalLink, with
order-preserving seeded delays on every HCI direction and on every controller's link input,
an HCI tap at T2 (controller -> host), and a logger that writes the ndjson vocabulary of
specs/Link/LinkTrace.tla.  Devices are numbered 1..n like the spec's Devs.

Nothing here decides a verdict: the trace is judged by TLC."""
from __future__ import annotations

import asyncio
import random
import struct
import warnings

from bumble import hci, hfp
from bumble.controller import Controller
from bumble.core import PhysicalTransport
from bumble.device import AdvertisingEventProperties, AdvertisingParameters, Device
from bumble.hci import Address, OwnAddressType
from bumble.host import Host
from bumble.link import LocalLink

from lib import rig

warnings.filterwarnings("ignore", category=FutureWarning, module=r"bumble\..*")  # utils.experimental on the (e)SCO paths

TEST_CID = 0x3A  # a fixed channel nobody else uses (LE and BR/EDR)
ADV_INTERVAL_MS = 100.0
MAGIC = b"\xc6\x06"

EXT_COMMANDS = {
    hci.HCI_LE_SET_ADVERTISING_SET_RANDOM_ADDRESS_COMMAND,
    hci.HCI_LE_SET_EXTENDED_ADVERTISING_PARAMETERS_COMMAND,
    hci.HCI_LE_SET_EXTENDED_ADVERTISING_DATA_COMMAND,
    hci.HCI_LE_SET_EXTENDED_SCAN_RESPONSE_DATA_COMMAND,
    hci.HCI_LE_SET_EXTENDED_ADVERTISING_ENABLE_COMMAND,
    hci.HCI_LE_REMOVE_ADVERTISING_SET_COMMAND,
    hci.HCI_LE_CLEAR_ADVERTISING_SETS_COMMAND,
    hci.HCI_LE_READ_MAXIMUM_ADVERTISING_DATA_LENGTH_COMMAND,
    hci.HCI_LE_READ_NUMBER_OF_SUPPORTED_ADVERTISING_SETS_COMMAND,
    hci.HCI_LE_EXTENDED_CREATE_CONNECTION_COMMAND,
}

FIELDS = dict(e="", d=0, tr="", ctr="", a=0, ak="", fl="", own="", h=0, role="", n=0, fd=0, ok=0, rt="", what="", src=0, m="")
ESCO = hfp.ESCO_PARAMETERS[hfp.DefaultCodecParameters.ESCO_CVSD_S1].asdict()


def pub_addr(i, same_bytes=False):
    return Address(f"F{i}:F{i}:F{i}:F{i}:F{i}:0{i}", Address.PUBLIC_DEVICE_ADDRESS)


def rnd_addr(i, same_bytes=False):
    # same_bytes: the static random address has the bytes of the public one (what tests/test_utils.py does)
    return Address(f"F{i}:F{i}:F{i}:F{i}:F{i}:0{i}" if same_bytes else f"C{i}:C{i}:C{i}:C{i}:C{i}:1{i}", Address.RANDOM_DEVICE_ADDRESS)


def set_addr(i):
    """the random address of device i's extended advertising set when it has one of its own (kind "set")"""
    return Address(f"D{i}:D{i}:D{i}:D{i}:D{i}:2{i}", Address.RANDOM_DEVICE_ADDRESS)


class BandDelayLine(rig.DelayLine):
    """order-preserving delay drawn from [min_delay, max_delay] (rig.DelayLine draws from [0, max_delay])"""

    def __init__(self, deliver, rng, min_delay, max_delay):
        super().__init__(deliver, rng, max_delay)
        self.min_delay = min_delay

    def push(self, item):
        loop = asyncio.get_running_loop()
        t = max(self.last, loop.time() + self.rng.uniform(self.min_delay, self.max_delay))
        self.last = t
        self.fifo.append(item)
        loop.call_at(t, self._fire)


class Stack:
    def __init__(self, world, i, ext, classic, rng, hci_delay, link_delay, slow=None):
        self.i = i
        self.ext = ext
        c = self.controller = Controller(f"C{i}", link=world.link, public_address=pub_addr(i))
        if ext:
            c.supported_commands = set(Controller.supported_commands) | EXT_COMMANDS
            c.le_features = c.le_features | hci.LeFeatureMask.LE_EXTENDED_ADVERTISING
        if classic:
            c.lmp_features = hci.LmpFeatureMask(c.lmp_features) & ~hci.LmpFeatureMask.BR_EDR_NOT_SUPPORTED
        self.host = Host()
        self.tap = rig.HciTap(self.host, c, rng=rng, max_delay=hci_delay, record=lambda dirn, pkt: world.on_hci(i, dirn, pkt))
        if slow:  # a host that lags behind its controller by at least slow[0] in both directions
            self.tap.line_h2c = BandDelayLine(self.tap._to_controller, rng, slow[0], slow[1])
            self.tap.line_c2h = BandDelayLine(self.tap._to_host, rng, slow[0], slow[1])
        self.device = Device(name=f"D{i}", address=rnd_addr(i, world.same_bytes), host=self.host)
        self.device.classic_enabled = bool(classic)
        # one order-preserving delay line for everything the link hands to this controller
        self.link_in = rig.DelayLine(lambda f: f(), rng, link_delay)
        if link_delay:
            for name in ("on_link_acl_data", "on_ll_advertising_pdu", "on_ll_control_pdu", "on_lmp_packet"):
                setattr(c, name, self._delayed(getattr(c, name)))
        self.adv_set = None

    def _delayed(self, fn):
        def later(*a, **k):
            self.link_in.push(lambda: fn(*a, **k))

        return later


class OrderedControllers:
    """LocalLink.controllers is a set of objects: its iteration order (who hears an advertising PDU first, which
    controller find_le_controller meets first) depends on memory addresses.  The rig keeps it in an order
    drawn from the seed instead, so that a run can be repeated."""

    def __init__(self):
        self.items = []

    def add(self, c):
        if c not in self.items:
            self.items.append(c)

    def remove(self, c):
        self.items.remove(c)

    def discard(self, c):
        if c in self.items:
            self.items.remove(c)

    def __iter__(self):
        return iter(list(self.items))

    def __contains__(self, c):
        return c in self.items

    def __len__(self):
        return len(self.items)


class World:
    def __init__(self, n, ext=(), classic=False, seed=0, hci_delay=0.0, link_delay=0.0, same_bytes=False, patch=None, slow=None, vary_rsp=False):
        self.n = n
        self.vary_rsp = vary_rsp  # every other advertising round of a device has an EMPTY scan response (and other advertising data)
        self.adv_round = {}
        self.rng = random.Random(seed)
        self.same_bytes = same_bytes
        self.hci_delay, self.link_delay = hci_delay, link_delay
        self.link = LocalLink()
        self.events = []
        self.errors = []  # exceptions of API calls the scenario made (diagnosis only)
        self.sent = {}  # (sender, serial, n) -> payload
        self.serial = {}  # id(Connection) -> (serial, count)
        self.next_serial = 1
        self.tasks = []
        self.link.controllers = OrderedControllers()
        slow = {int(k): tuple(v) for k, v in (slow or {}).items()}
        self.slowest = max([hci_delay] + [v[1] for v in slow.values()])
        self.stacks = {i: Stack(self, i, i in ext, classic, self.rng, hci_delay, link_delay, slow.get(i)) for i in range(1, n + 1)}
        self.rng.shuffle(self.link.controllers.items)
        self.adv_payload = {}
        for i in self.stacks:
            body = bytes(self.rng.randrange(256) for _ in range(6))
            self.adv_payload[i] = (bytes([8, 0xFF, 0xA0 + i]) + body, bytes([8, 0xFF, 0xB0 + i]) + body[::-1])
        self.base_payload = dict(self.adv_payload)
        if patch:
            patch(self)

    # ------------------------------------------------------------------ naming
    def dev(self, i):
        return self.stacks[i].device

    def addr(self, i, kind):
        return pub_addr(i) if kind == "pub" else set_addr(i) if kind == "set" else rnd_addr(i, self.same_bytes)

    def who(self, address):
        """(device number, kind) of an address, (0, "pub") if nobody owns it"""
        if isinstance(address, Address):
            for i in self.stacks:
                for kind in ("pub", "rnd", "set"):
                    if self.addr(i, kind) == address:
                        return i, kind
        return 0, "pub"

    def classify(self, data):
        """-> (what, src) for an advertising / scan-response / advertisement payload"""
        data = bytes(data)
        if data == b"" and not self.vary_rsp:
            return "empty", 0
        for i, (ad, sr) in self.adv_payload.items():
            if data == ad:
                return "adv", i
            if data == sr and (sr or (self.vary_rsp and self.adv_round.get(i))):
                return "rsp", i  # (an empty scan response of a device that has set an empty one is its scan response)
            if data == ad + sr:
                return "advrsp", i
        if data == b"":
            return "empty", 0
        return "other", 0

    def log(self, e, **kw):
        ev = dict(FIELDS)
        ev["e"] = e
        ev.update(kw)
        self.events.append(ev)

    # ------------------------------------------------------------------ observation
    def on_hci(self, i, dirn, packet):
        if dirn != "c2h":
            return
        try:
            p = hci.HCI_Packet.from_bytes(packet)
        except Exception:
            return
        if isinstance(p, hci.HCI_AclDataPacket):
            data = bytes(p.data)
            if p.pb_flag != hci.HCI_ACL_PB_CONTINUATION and len(data) >= 4:
                ln, cid = struct.unpack_from("<HH", data)
                if cid == TEST_CID:
                    fd, _, n, _ = self.parse_payload(data[4:4 + ln])
                    self.log("t2_acl", d=i, h=p.connection_handle, fd=fd, n=n)
            return
        if isinstance(p, (hci.HCI_LE_Connection_Complete_Event, hci.HCI_LE_Enhanced_Connection_Complete_Event)):
            if p.status == 0:
                a, ak = self.who(p.peer_address)
                self.log("t2_conn", d=i, h=p.connection_handle, role="central" if p.role == hci.Role.CENTRAL else "peripheral", tr="le", a=a, ak=ak)
        elif isinstance(p, hci.HCI_Connection_Complete_Event):
            if p.status == 0 and p.link_type == hci.HCI_Connection_Complete_Event.LinkType.ACL:
                a, ak = self.who(p.bd_addr)
                self.log("t2_conn", d=i, h=p.connection_handle, role="", tr="br", a=a, ak=ak)
        elif isinstance(p, hci.HCI_Synchronous_Connection_Complete_Event):
            if p.status == 0:
                a, ak = self.who(p.bd_addr)
                self.log("t2_conn", d=i, h=p.connection_handle, role="", tr="sco", a=a, ak=ak)
        elif isinstance(p, hci.HCI_Disconnection_Complete_Event):
            if p.status == 0:
                self.log("t2_disc", d=i, h=p.connection_handle)
        elif isinstance(p, hci.HCI_LE_Advertising_Report_Event):
            for r in p.reports:
                a, ak = self.who(r.address)
                what, src = self.classify(r.data)
                rt = "rsp" if r.event_type == hci.HCI_LE_Advertising_Report_Event.EventType.SCAN_RSP else "adv"
                self.log("t2_report", d=i, a=a, ak=ak, rt=rt, what=what, src=src or a)
        elif isinstance(p, hci.HCI_LE_Extended_Advertising_Report_Event):
            for r in p.reports:
                a, ak = self.who(r.address)
                what, src = self.classify(r.data)
                rt = "rsp" if (r.event_type & hci.HCI_LE_Extended_Advertising_Report_Event.EventType.SCAN_RESPONSE) else "adv"
                self.log("t2_report", d=i, a=a, ak=ak, rt=rt, what=what, src=src or a)

    def parse_payload(self, data):
        """-> (sender, serial, n, ok)"""
        data = bytes(data)
        if len(data) != 16 or data[:2] != MAGIC:
            return 0, 0, 0, 0
        fd, serial, n = struct.unpack_from("<BHH", data, 2)
        return fd, serial, n, int(self.sent.get((fd, serial, n)) == data)

    def watch(self, i):
        d = self.dev(i)

        def on_connection(conn):
            a, ak = self.who(conn.peer_address)
            self.log("conn_evt", d=i, h=conn.handle, role="central" if conn.role == hci.Role.CENTRAL else "peripheral",
                     tr="le" if conn.transport == PhysicalTransport.LE else "br", a=a, ak=ak)
            conn.on("disconnection", lambda reason: self.log("disc_evt", d=i, h=conn.handle))

        def on_pdu(handle, pdu):
            fd, _, n, ok = self.parse_payload(pdu)
            self.log("recv", d=i, h=handle, fd=fd, n=n, ok=ok)

        def on_advertisement(adv):
            a, ak = self.who(adv.address)
            try:
                data = bytes(adv.data)
            except Exception:
                data = adv.data_bytes
            what, src = self.classify(data)
            if what not in ("adv", "advrsp"):
                what = "other"
            self.log("advert", d=i, a=a, ak=ak, what=what, src=src or a)

        def on_sco_request(conn, link_type):
            # the application accepts every (e)SCO link it is asked for
            self.spawn(d.send_command(hci.HCI_Enhanced_Accept_Synchronous_Connection_Request_Command(bd_addr=conn.peer_address, **ESCO)), "sco_accept", i)

        def on_sco_connection(sco):
            a, ak = self.who(sco.acl_connection.peer_address)
            self.log("conn_evt", d=i, h=sco.handle, role="", tr="sco", a=a, ak=ak)
            sco.on("disconnection", lambda reason: self.log("disc_evt", d=i, h=sco.handle))

        d.on("connection", on_connection)
        d.on("sco_request", on_sco_request)
        d.on("sco_connection", on_sco_connection)
        d.on("advertisement", on_advertisement)
        d.l2cap_channel_manager.register_fixed_channel(TEST_CID, on_pdu)

    async def power_on(self):
        for i in self.stacks:
            await self.dev(i).power_on()
            self.watch(i)

    # ------------------------------------------------------------------ operations
    def spawn(self, coro, what, i):
        async def run():
            try:
                await coro
            except Exception as e:
                self.errors.append((what, i, repr(e)))

        t = asyncio.get_running_loop().create_task(run())
        self.tasks.append(t)
        return t

    def find(self, i, j, tr):
        """the live Connection (tr = "sco": ScoLink) of device i whose peer is device j on that transport"""
        if tr == "sco":
            for sco in self.dev(i).sco_links.values():
                if self.who(sco.acl_connection.peer_address)[0] == j:
                    return sco
            return None
        want = PhysicalTransport.LE if tr == "le" else PhysicalTransport.BR_EDR
        for conn in self.dev(i).connections.values():
            if conn.transport == want and self.who(conn.peer_address)[0] == j:
                return conn
        return None

    async def start_adv(self, i, kind, flav):
        st = self.stacks[i]
        own = OwnAddressType.PUBLIC if kind == "pub" else OwnAddressType.RANDOM
        if self.vary_rsp:
            # what a scanner is given is what the advertiser has set NOW: the payload changes from round to round, and
            # every other round has no scan response at all (classify() only knows the current round's payload)
            r = self.adv_round[i] = self.adv_round.get(i, 0) + 1
            base_ad, base_sr = self.base_payload[i]
            self.adv_payload[i] = (base_ad[:-1] + bytes([r & 0xFF]), base_sr if r % 2 else b"")
        ad, sr = self.adv_payload[i]
        self.log("adv", d=i, ak=kind, fl=flav)
        if flav == "ext":
            st.adv_set = await st.device.create_advertising_set(
                advertising_parameters=AdvertisingParameters(
                    advertising_event_properties=AdvertisingEventProperties(is_connectable=True, is_scannable=False, is_legacy=False),
                    primary_advertising_interval_min=ADV_INTERVAL_MS, primary_advertising_interval_max=ADV_INTERVAL_MS,
                    own_address_type=own),
                random_address=set_addr(i) if kind == "set" else None,
                advertising_data=ad)
        else:
            await st.device.start_advertising(own_address_type=own, advertising_data=ad, scan_response_data=sr,
                                              advertising_interval_min=ADV_INTERVAL_MS, advertising_interval_max=ADV_INTERVAL_MS)

    async def stop_adv(self, i):
        st = self.stacks[i]
        self.log("advstop_call", d=i)
        s, st.adv_set = st.adv_set, None
        try:
            if s is not None:
                if s.enabled:
                    await s.stop()
            else:
                await st.device.stop_advertising()
        except Exception as e:  # stopping what a connection already stopped
            self.errors.append(("stop_adv", i, repr(e)))
        # PDUs of this advertiser may still be on their way to the other controllers (and a CONNECT_IND for it on its
        # way here: the set, and with it its address, is removed after that)
        await asyncio.sleep(2 * self.link_delay + 0.001)
        if s is not None:
            try:
                await s.remove()
            except Exception as e:
                self.errors.append(("remove_adv_set", i, repr(e)))
        self.log("advstop", d=i)

    async def set_scan(self, i, mode):
        d = self.dev(i)
        if mode == "off":
            await d.stop_scanning(legacy=True)
            self.log("scan", d=i, m="off")
        else:
            self.log("scan", d=i, m=mode)
            await d.start_scanning(legacy=True, active=(mode == "active"))

    def connect(self, i, tr, j, kind, own):
        """starts Device.connect as a task (the scenario goes on while it is pending)"""
        self.log("connect", d=i, tr=tr, a=j, ak=kind, own=own)

        async def run():
            try:
                conn = await self.dev(i).connect(
                    self.addr(j, kind), transport=PhysicalTransport.LE if tr == "le" else PhysicalTransport.BR_EDR,
                    own_address_type=OwnAddressType.PUBLIC if own == "pub" else OwnAddressType.RANDOM, timeout=None)
            except Exception as e:
                self.errors.append(("connect", i, repr(e)))
                self.log("ret_err", d=i, tr=tr, ctr=tr, a=j, ak=kind)
                return None
            a, ak = self.who(conn.peer_address)
            self.log("ret_connect", d=i, ctr=tr, h=conn.handle, role="central" if conn.role == hci.Role.CENTRAL else "peripheral",
                     tr="le" if conn.transport == PhysicalTransport.LE else "br", a=a, ak=ak)
            return conn

        t = asyncio.get_running_loop().create_task(run())
        self.tasks.append(t)
        return t

    def send(self, i, conn):
        serial, count = self.serial.get(id(conn), (None, 0))
        if serial is None:
            serial = self.next_serial
            self.next_serial += 1
        count += 1
        self.serial[id(conn)] = (serial, count)
        payload = MAGIC + struct.pack("<BHH", i, serial, count) + bytes(self.rng.randrange(256) for _ in range(9))
        self.sent[(i, serial, count)] = payload
        self.log("send", d=i, h=conn.handle, n=count)
        conn.send_l2cap_pdu(TEST_CID, payload)

    def sco(self, i, conn):
        """asks for an (e)SCO link on the BR/EDR connection conn of device i"""
        self.log("sco", d=i, h=conn.handle)
        return self.spawn(self.dev(i).send_command(hci.HCI_Enhanced_Setup_Synchronous_Connection_Command(connection_handle=conn.handle, **ESCO)), "sco", i)

    def disconnect(self, i, conn):
        """conn: a Connection or a ScoLink"""
        self.log("disconnect", d=i, h=conn.handle)

        async def run():
            try:
                await conn.disconnect()
            except Exception as e:
                self.errors.append(("disconnect", i, repr(e)))

        t = asyncio.get_running_loop().create_task(run())
        self.tasks.append(t)
        return t

    async def settle(self, log=True):
        """run well past every advertising interval and delay, then say so"""
        await asyncio.sleep(10 * ADV_INTERVAL_MS / 1000.0 + 8 * (self.slowest + self.link_delay))
        if log:
            self.log("settle")

    def still_keeping(self, conn):
        return any(c is conn for s in self.stacks.values() for c in s.device.connections.values())
