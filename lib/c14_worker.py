"""C14 worker: run a list of jobs through bumble's crypto toolbox and report one event per call.

Used twice by drivers/c14_crypto.py:
  * in-process (`run_jobs`) - `bumble.crypto` has selected the `cryptography` back end;
  * as a subprocess (`python -B lib/c14_worker.py`, jobs on stdin, result on stdout) in which
    `cryptography` cannot be imported (a sys.meta_path blocker installed BEFORE bumble is
    imported), so the real `except ImportError` path of bumble/crypto/__init__.py selects
    bumble.crypto.builtin.

Every value crossing the boundary is a hex string in the Core specification's MSB-first
notation (the toolbox functions take little-endian bytes: the adapters below reverse).
An event: {"id": job id, "e": "call" | "reject", "b": back end, "f": function, "args": [...],
"r": result, "valid": input classification supplied by the driver, "exc": text of the exception}.
"""
from __future__ import annotations

import hashlib
import json
import os
import sys


# ----------------------------------------------------------------------------- import control
def block_cryptography():
    """Make `import cryptography` (and any sub-module) fail with ImportError."""
    import importlib.abc

    class _NoCryptography(importlib.abc.MetaPathFinder):
        def find_spec(self, name, path=None, target=None):
            if name == "cryptography" or name.startswith("cryptography."):
                raise ModuleNotFoundError(f"No module named {name!r} (blocked by the C14 harness)", name=name)
            return None

    for m in [m for m in sys.modules if m == "cryptography" or m.startswith("cryptography.")]:
        del sys.modules[m]
    sys.meta_path.insert(0, _NoCryptography())


def backend_name():
    from bumble import crypto

    mods = {crypto.e.__module__, crypto.aes_cmac.__module__, crypto.EccKey.__module__}
    if len(mods) != 1:
        raise RuntimeError(f"bumble.crypto mixes back ends: {sorted(mods)}")
    return mods.pop().rsplit(".", 1)[-1]  # "cryptography" | "builtin"


class HarnessError(Exception):
    """A defect of the harness itself: propagates (machinery failure), never becomes an event."""


# ----------------------------------------------------------------------------- helpers
def le(h):  # MSB-first hex -> little-endian bytes (what the SMP toolbox takes)
    return bytes.fromhex(h)[::-1]


def msb(b):  # little-endian bytes -> MSB-first hex
    return bytes(b)[::-1].hex()


def gen_message(seed, length):
    """Deterministic message of `length` bytes (same in both processes)."""
    out = bytearray()
    i = 0
    while len(out) < length:
        out += hashlib.sha256(f"c14:{seed}:{i}".encode()).digest()
        i += 1
    return bytes(out[:length])


def message_arg(m):
    """How a CMAC message is named in the trace: itself up to 80 bytes, else digest + length."""
    return m.hex() if len(m) <= 80 else f"sha256:{hashlib.sha256(m).hexdigest()}:len={len(m)}"


class _Rand:
    """Stand-in for secrets.token_bytes during one generate_private_address call."""

    def __init__(self, data):
        self.data = data

    def __call__(self, n=None):
        n = 32 if n is None else n
        return (self.data * (n // len(self.data) + 1))[:n]


# ----------------------------------------------------------------------------- the calls
def _toolbox(f, a):
    """Call toolbox function f with MSB-first hex arguments a; return the MSB-first hex result."""
    from bumble import crypto

    if f == "e":
        return msb(crypto.e(le(a[0]), le(a[1])))
    if f == "cmac":  # big-endian interface
        return bytes(crypto.aes_cmac(bytes.fromhex(a[0]), bytes.fromhex(a[1]))).hex()
    if f == "ah":
        return msb(crypto.ah(le(a[0]), le(a[1])))
    if f == "c1":
        return msb(crypto.c1(le(a[0]), le(a[1]), le(a[2]), le(a[3]), int(a[4], 16), int(a[5], 16), le(a[6]), le(a[7])))
    if f == "s1":
        return msb(crypto.s1(le(a[0]), le(a[1]), le(a[2])))
    if f == "f4":
        return msb(crypto.f4(le(a[0]), le(a[1]), le(a[2]), le(a[3])))
    if f == "f5":
        mac_key, ltk = crypto.f5(le(a[0]), le(a[1]), le(a[2]), le(a[3]), le(a[4]))
        return msb(mac_key) + msb(ltk)
    if f == "f6":
        return msb(crypto.f6(le(a[0]), le(a[1]), le(a[2]), le(a[3]), le(a[4]), le(a[5]), le(a[6])))
    if f == "g2":
        v = crypto.g2(le(a[0]), le(a[1]), le(a[2]), le(a[3]))
        return f"{v:08x}"
    if f == "h6":  # key id is a character string, not byte-swapped
        return msb(crypto.h6(le(a[0]), bytes.fromhex(a[1])))
    if f == "h7":  # salt is not byte-swapped
        return msb(crypto.h7(bytes.fromhex(a[0]), le(a[1])))
    if f == "pub":
        key = crypto.EccKey.from_private_key_bytes(bytes.fromhex(a[0]))
        x, y = bytes(key.x), bytes(key.y)
        if len(x) != 32 or len(y) != 32:
            raise ValueError(f"public key coordinates of {len(x)} / {len(y)} bytes")
        return x.hex() + y.hex()
    if f == "dh":
        key = crypto.EccKey.from_private_key_bytes(bytes.fromhex(a[0]))
        return bytes(key.dh(bytes.fromhex(a[1][:64]), bytes.fromhex(a[1][64:]))).hex()
    raise HarnessError(f"unknown function {f!r}")


class Runner:
    def __init__(self, backend=None):
        self.backend = backend or backend_name()
        self.events = []

    def one(self, job, f, args, valid=True, thunk=None):
        ev = {"id": job["id"], "b": self.backend, "f": f, "args": list(args), "valid": bool(valid)}
        try:
            r = thunk() if thunk else _toolbox(f, args)
            if not isinstance(r, str):
                raise HarnessError(f"non-string result {r!r}")
            ev.update(e="call", r=r, exc="")
        except HarnessError:
            raise
        except Exception as ex:  # the back end refused the input
            ev.update(e="reject", r="", exc=f"{type(ex).__name__}: {ex}"[:200])
        self.events.append(ev)
        return ev

    def run(self, job):
        f = job["f"]
        if f == "cmac":
            m = gen_message(*job["gen"]) if "gen" in job else bytes.fromhex(job["m"])
            from bumble import crypto

            self.one(job, "cmac", [message_arg(m), job["k"]], thunk=lambda: bytes(crypto.aes_cmac(m, bytes.fromhex(job["k"]))).hex())
        elif f == "dhpair":
            d1, d2 = job["a"]
            p1 = self.one(job, "pub", [d1])
            p2 = self.one(job, "pub", [d2])
            if p1["e"] == "call" and p2["e"] == "call":
                self.one(job, "dh", [d1, p2["r"]])
                self.one(job, "dh", [d2, p1["r"]])
        elif f == "dhseq":
            from bumble import crypto

            d, pts = job["a"]
            key = crypto.EccKey.from_private_key_bytes(bytes.fromhex(d))  # ONE key object for the whole sequence
            for pt in pts:
                self.one(job, "dh", [d, pt], thunk=lambda pt=pt: bytes(key.dh(bytes.fromhex(pt[:64]), bytes.fromhex(pt[64:]))).hex())
        elif f == "rpa":
            self.rpa(job)
        elif f == "rpaseq":
            self.rpaseq(job)
        elif f == "rpastore":
            self.rpastore(job)
        elif f == "padd":
            self.padd(job)
        else:
            self.one(job, f, job["a"], valid=job.get("valid", True))

    # -- RPA generation / resolution through hci.Address and smp.AddressResolver
    def rpa(self, job):
        from unittest import mock

        from bumble import hci, smp

        irk = le(job["irk"])
        made = {}

        def gen():
            with mock.patch("secrets.token_bytes", _Rand(bytes.fromhex(job["rand"]))):
                a = hci.Address.generate_private_address(irk)
            made["a"] = a
            return msb(bytes(a))

        # the prand is chosen inside generate_private_address; it is read back from the address
        ev = self.one(job, "rpa", [job["irk"], "?"], thunk=gen)
        if ev["e"] != "call":
            return
        address = made["a"]
        ab = bytes(address)
        ev["args"][1] = msb(ab[3:6])
        ev["wellformed"] = len(ab) == 6 and (ab[5] >> 6) == 1 and bool(address.is_resolvable)
        id_type = hci.Address.PUBLIC_DEVICE_ADDRESS if job.get("idtype") else hci.Address.RANDOM_DEVICE_ADDRESS
        identity = hci.Address("C4:F0:11:22:33:44", id_type)
        for k in [job["irk"]] + list(job.get("others", [])):

            def res(k=k):
                got = smp.AddressResolver([(le(k), identity)]).resolve(address)
                if got is None:
                    return "F"
                if bytes(got) == bytes(identity):  # the identity's address type encoding is outside C14
                    return "T"
                return f"X:{got!s}"

            self.one(job, "resolve", [k, ev["r"]], thunk=res)

    # -- one resolver object across several addresses that share their prand
    def rpaseq(self, job):
        from unittest import mock

        from bumble import hci, smp

        identity = hci.Address("C4:F0:11:22:33:44", hci.Address.RANDOM_DEVICE_ADDRESS)
        resolver = smp.AddressResolver([(le(job["irk"]), identity)])  # ONE resolver for the whole sequence
        made = []
        for k in [job["irk"]] + list(job["others"]) + [job["irk"]]:
            box = {}

            def gen(k=k, box=box):
                with mock.patch("secrets.token_bytes", _Rand(bytes.fromhex(job["rand"]))):
                    box["a"] = hci.Address.generate_private_address(le(k))
                return msb(bytes(box["a"]))

            ev = self.one(job, "rpa", [k, "?"], thunk=gen)
            if ev["e"] != "call":
                return
            ab = bytes(box["a"])
            ev["args"][1] = msb(ab[3:6])
            ev["wellformed"] = len(ab) == 6 and (ab[5] >> 6) == 1 and bool(box["a"].is_resolvable)
            made.append((k, box["a"], ev["r"]))
        for k, address, text in made:

            def res(address=address):
                got = resolver.resolve(address)
                if got is None:
                    return "F"
                return "T" if bytes(got) == bytes(identity) else f"X:{got!s}"

            # the question put to the resolver is always "is this an address of the peer whose key is job['irk']"
            self.one(job, "resolve", [job["irk"], text], thunk=res)

    # -- the resolver as the Device builds it: from the bonds in a key store (some of them without an IRK)
    def rpastore(self, job):
        import asyncio
        from unittest import mock

        from bumble import hci, keys, smp

        store = keys.MemoryKeyStore()
        peers = []  # (irk or None, identity address)
        for i, irk in enumerate(job["bonds"]):
            addr = f"C{i}:F0:11:22:33:4{i}"
            pk = keys.PairingKeys()
            pk.address_type = hci.Address.RANDOM_DEVICE_ADDRESS
            if irk is None:
                pk.link_key = keys.PairingKeys.Key(value=bytes(16))
            else:
                pk.irk = keys.PairingKeys.Key(value=le(irk))
            asyncio.run(store.update(addr, pk))
            peers.append((irk, hci.Address(addr, hci.Address.RANDOM_DEVICE_ADDRESS)))
        resolver = smp.AddressResolver(asyncio.run(store.get_resolving_keys()))
        for irk, identity in peers:
            if irk is None:
                continue
            box = {}

            def gen(irk=irk, box=box):
                with mock.patch("secrets.token_bytes", _Rand(bytes.fromhex(job["rand"]))):
                    box["a"] = hci.Address.generate_private_address(le(irk))
                return msb(bytes(box["a"]))

            ev = self.one(job, "rpa", [irk, "?"], thunk=gen)
            if ev["e"] != "call":
                return
            ab = bytes(box["a"])
            ev["args"][1] = msb(ab[3:6])
            ev["wellformed"] = len(ab) == 6 and (ab[5] >> 6) == 1 and bool(box["a"].is_resolvable)

            def res(address=box["a"], identity=identity):
                got = resolver.resolve(address)
                if got is None:
                    return "F"
                return "T" if bytes(got) == bytes(identity) else f"X:{got!s}"

            # "is this an address of the peer whose key is irk" - answered by the identity the resolver names
            self.one(job, "resolve", [irk, ev["r"]], thunk=res)

    # -- diagnostic only (never a verdict): the fallback's private point addition
    def padd(self, job):
        ev = {"id": job["id"], "b": self.backend, "f": "padd", "args": list(job["a"]), "e": "diag-skip", "r": "", "valid": True, "exc": ""}
        try:
            from bumble.crypto import builtin

            curve = builtin._EllipticCurve.SECP256R1()
            g = curve._generator_jacobian
            d1, d2 = int(job["a"][0], 16), int(job["a"][1], 16)
            s = ((g * d1) + (g * d2)).to_affine()
            ev["r"] = "inf" if s.infinite else f"{s.x:064x}{s.y:064x}"
            ev["e"] = "diag"
        except Exception as ex:  # private API absent or different: skip silently
            ev["exc"] = f"{type(ex).__name__}: {ex}"[:200]
        self.events.append(ev)


def run_jobs(jobs, backend=None):
    r = Runner(backend)
    for job in jobs:
        r.run(job)
    return r.events


# ----------------------------------------------------------------------------- subprocess entry
def main():
    req = json.load(sys.stdin)
    if req.get("block", True):
        block_cryptography()
    repo = os.environ.get("VERIF_REPO", "/repo")
    sys.path.insert(0, repo)
    import logging

    logging.disable(logging.CRITICAL)
    import bumble

    if not os.path.abspath(bumble.__file__).startswith(os.path.abspath(repo) + os.sep):
        raise RuntimeError(f"bumble imported from {bumble.__file__}, expected {repo}")
    be = backend_name()
    blocked = True
    try:
        import cryptography  # noqa: F401

        blocked = False
    except ImportError:
        pass
    events = run_jobs(req["jobs"], be)
    json.dump({"backend": be, "bumble": os.path.dirname(bumble.__file__), "cryptography_blocked": blocked, "events": events}, sys.stdout)


if __name__ == "__main__":
    main()
