"""C15 helper: file-system step interception for bumble.keys, in the harness process only.

`FsTracer.install()` replaces the names `bumble.keys` resolves when it touches the file system
  * `open`            (a module global that shadows builtins.open for that module only)
  * `os`              (a proxy module object: replace / rename / remove / mkdir / fsync ... are counted)
  * `pathlib.Path.mkdir / open / replace / rename / unlink / touch`  (class attributes; counted only
                       while an operation is being traced and only for paths below the scratch root)
and the file objects returned by the wrapped `open` are proxies whose write / flush / close are counted.

Every counted call is an *event*.  Before an event is performed the tracer takes a raw snapshot of the
directory (main file bytes, tmp file bytes, directory present) with the real, unwrapped functions: that
is what would be on disk if the process died at that instant (data still in Python's write buffer is
lost).  If the event is the chosen crash point the tracer additionally flushes the open files, takes a
second snapshot (the other possible outcome: the io layer had already flushed) and raises `Crash`, a
BaseException no `except Exception` in the code under test can swallow.
"""
from __future__ import annotations

import io
import os
import pathlib
import shutil


class Crash(BaseException):
    """the process dies here"""


_OS_EVENTS = {
    "replace": "rename", "rename": "rename", "renames": "rename", "link": "link", "symlink": "link",
    "remove": "unlink", "unlink": "unlink", "mkdir": "mkdir", "makedirs": "mkdir", "rmdir": "rmdir",
    "fsync": "fsync", "fdatasync": "fsync", "truncate": "truncate", "ftruncate": "truncate",
}
_PATH_EVENTS = {"mkdir": "mkdir", "replace": "rename", "rename": "rename", "unlink": "unlink", "touch": "open_w"}


def read_bytes(path):
    try:
        with io.open(path, "rb") as f:
            return f.read()
    except (FileNotFoundError, NotADirectoryError):
        return None


class _FileProxy:
    def __init__(self, tracer, real, path, writing):
        self.__dict__["_t"] = tracer
        self.__dict__["_real"] = real
        self.__dict__["_path"] = path
        self.__dict__["_writing"] = writing
        try:
            st = os.fstat(real.fileno())
            self.__dict__["_id"] = (st.st_dev, st.st_ino)
        except (OSError, ValueError):
            self.__dict__["_id"] = None

    # counted
    def write(self, data):
        t = self._t
        if t.active:
            t.event("write", None, self._id)
        return self._real.write(data)

    def writelines(self, lines):
        for line in lines:
            self.write(line)

    def flush(self):
        self._t.event("flush", self._path)
        return self._real.flush()

    def close(self):
        if not self._real.closed and self._writing:
            self._t.event("close", self._path)
        return self._real.close()

    def __enter__(self):
        return self

    def __exit__(self, et, ev, tb):
        if et is not None and issubclass(et, Crash):
            return False  # the process is dead; the tracer closes the descriptors itself
        self.close()
        return False

    # not counted
    def __iter__(self):
        return iter(self._real)

    def __getattr__(self, name):
        return getattr(self._real, name)

    def __setattr__(self, name, value):
        setattr(self._real, name, value)


class _OsProxy:
    def __init__(self, tracer):
        self.__dict__["_t"] = tracer

    def __getattr__(self, name):
        v = getattr(os, name)
        kind = _OS_EVENTS.get(name)
        if kind is None or not callable(v):
            return v
        t = self._t

        def counted(*a, **k):
            p = a[0] if a else None
            t.event(kind, p if isinstance(p, (str, bytes, os.PathLike)) else None)
            return v(*a, **k)

        return counted


class FsTracer:
    def __init__(self, keys_module, root):
        self.mod = keys_module
        self.root = os.path.realpath(root)
        self.main = None
        self.tmp = None
        self.active = False
        self.depth = 0
        self.events = []  # (kind, snapshot taken before the event)
        self.crash_sel = None
        self.crashed = None  # (index, kind, snapshot_unflushed, snapshot_flushed)
        self.writers = []
        self.record = True
        self._ours_cache = {}
        self._installed = False

    # ------------------------------------------------------------------ install
    def install(self):
        assert not self._installed
        self._had_open = "open" in self.mod.__dict__
        self._old_open = self.mod.__dict__.get("open")
        self._old_os = self.mod.__dict__.get("os")
        self.mod.open = self._open
        if self._old_os is not None:
            self.mod.os = _OsProxy(self)
        self._old_path = {}
        tracer = self
        for name, kind in _PATH_EVENTS.items():
            orig = getattr(pathlib.Path, name)
            self._old_path[name] = orig

            def make(orig, kind):
                def counted(pself, *a, **k):
                    if tracer.depth:
                        return orig(pself, *a, **k)
                    tracer.event(kind, pself)
                    tracer.depth += 1
                    try:
                        return orig(pself, *a, **k)
                    finally:
                        tracer.depth -= 1

                return counted

            setattr(pathlib.Path, name, make(orig, kind))
        orig_open = pathlib.Path.open
        self._old_path["open"] = orig_open

        def path_open(pself, mode="r", *a, **k):
            if tracer.active and tracer._ours(pself) and not tracer.depth:
                return tracer._open(pself, mode, *a, **k)
            return orig_open(pself, mode, *a, **k)

        pathlib.Path.open = path_open
        self._installed = True

    def uninstall(self):
        if not self._installed:
            return
        if self._had_open:
            self.mod.open = self._old_open
        else:
            del self.mod.open
        if self._old_os is not None:
            self.mod.os = self._old_os
        for name, orig in self._old_path.items():
            setattr(pathlib.Path, name, orig)
        self._installed = False

    # ------------------------------------------------------------------ per operation
    def set_paths(self, main):
        self.main = str(main)
        self.tmp = self.main + ".tmp"

    def snapshot(self):
        return (read_bytes(self.main), read_bytes(self.tmp), os.path.isdir(os.path.dirname(self.main)))

    def restore(self, snap):
        """Put the directory back to a snapshot (harness-level, not an event)."""
        main, tmp, has_dir = snap
        d = os.path.dirname(self.main)
        if not has_dir:
            shutil.rmtree(d, ignore_errors=True)
            return
        os.makedirs(d, exist_ok=True)
        for path, data in ((self.main, main), (self.tmp, tmp)):
            if data is None:
                try:
                    os.remove(path)
                except FileNotFoundError:
                    pass
            else:
                with io.open(path, "wb") as f:
                    f.write(data)

    def begin(self, crash_sel=None, record=True):
        """crash_sel: None | ("index", k) = before the k-th event (0-based) | ("kind", kind, n) = before the
        n-th (1-based) event of that kind."""
        self.events = []
        self.crash_sel = tuple(crash_sel) if crash_sel else None
        self.crashed = None
        self.writers = []
        self.record = record
        self.kind_count = {}
        self.n_events = 0
        self._clean = False
        self._last = None
        self._main_id = False
        self.active = True

    def end(self):
        self.active = False
        for f in self.writers:
            try:
                f.close()
            except Exception:
                pass
        self.writers = []

    def _ours(self, path):
        if path is None:
            return True
        try:
            key = os.fspath(path)
        except TypeError:
            return False
        r = self._ours_cache.get(key)
        if r is None:
            p = os.path.realpath(key)
            if isinstance(p, bytes):
                p = os.fsdecode(p)
            # the scratch tree contains no symbolic links, so the answer never changes for a given name
            r = self._ours_cache[key] = (p == self.root or p.startswith(self.root + os.sep))
        return r

    def event(self, kind, path=None, fobj=None):
        if not self.active or (path is not None and not self._ours(path)):
            return
        idx = self.n_events
        self.n_events += 1
        n = self.kind_count[kind] = self.kind_count.get(kind, 0) + 1
        sel = self.crash_sel
        hit = sel is not None and ((sel[0] == "index" and sel[1] == idx) or (sel[0] == "kind" and sel[1] == kind and sel[2] == n))
        # a write to a file other than the main file cannot have changed the main file: the previous snapshot
        # still describes it (the tmp file's content is only needed at the crash point and at the end)
        if self._clean and not hit:
            snap = self._last
        elif self.record or hit:
            snap = self._last = self.snapshot()
        else:
            snap = None
        self.events.append((kind, snap))
        if kind == "write":
            self._clean = snap is not None and not self._is_main(fobj)
        else:
            self._clean = False
            self._main_id = False
        if hit:
            self.active = False
            for f in self.writers:
                try:
                    f.flush()
                except Exception:
                    pass
            flushed = self.snapshot()
            self.crashed = (idx, kind, snap, flushed)
            raise Crash(f"crash before event {idx} ({kind})")

    def _is_main(self, file_id):
        """is this open file the main file (by identity, whatever name it was opened under)?"""
        if file_id is None:
            return True
        if self._main_id is False:  # not known since the last non-write event
            try:
                b = os.stat(self.main)
                self._main_id = (b.st_dev, b.st_ino)
            except OSError:
                self._main_id = None
        return file_id == self._main_id

    def _open(self, file, mode="r", *a, **k):
        if not self.active or isinstance(file, int) or not self._ours(file):
            return io.open(file, mode, *a, **k)
        writing = any(ch in mode for ch in "wax+")
        self.event("open_w" if writing else "open_r", file)
        real = io.open(file, mode, *a, **k)
        if writing:
            self.writers.append(real)
        return _FileProxy(self, real, os.fspath(file), writing)
