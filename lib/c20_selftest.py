"""C20 binding self-test: documented misbehaviours wrapped around the REAL objects (shims) and damaged recorded traces
must be flagged by the same machinery that decides the verdicts.  Nothing under /repo is touched."""
from __future__ import annotations

import copy
import json
import random

from lib import tlc


def _rf_scenarios(drv, rng):
    """a few scenarios with enough traffic to need credit returns, large L2CAP MTUs (so the maximum frame size is what binds)"""
    out = []
    for k, (cm, sm) in enumerate([(23, 127), (128, 24), (127, 128), (24, 23)]):
        chans = [dict(ch=3 + k, cmfs=cm, ck=1 + k, smfs=sm, sk=7 - k)]
        x = {"0": [[[0, 60 * sm + 5], [0.1, 3]], [[0, 50 * cm + 1], [0, cm]]]}
        out.append(dict(family="selftest", seed=100 + k, client_dev=k % 2, central=0, l2mtu=[2048, 1024], chans=chans, acl_len=64, acl_bufs=8, hci_delay=0.002,
                        script=[["open", 0], ["xfer", x], ["close", [[0, k % 2]]]]))
    chans = [dict(ch=2, cmfs=127, ck=2, smfs=128, sk=3), dict(ch=9, cmfs=24, ck=7, smfs=23, sk=1)]
    x = {"0": [[[0, 4000]], [[0, 3000]]], "1": [[[0, 900]], [[0, 700]]]}
    out.append(dict(family="selftest", seed=105, client_dev=0, central=1, l2mtu=[672, 672], chans=chans, acl_len=27, acl_bufs=64, hci_delay=0.0,
                    script=[["open", 1], ["open", 0], ["xfer", x], ["close", [[0, 0]]], ["close", [[1, 1]]]]))
    return out


def _shims():
    def no_credit_check(side, dlc):  # sends data although it holds no credit
        orig = dlc.process_tx

        def ptx():
            if dlc.tx_buffer and dlc.tx_credits == 0:
                dlc.tx_credits = 1
            orig()

        dlc.process_tx = ptx

    def own_frame_size(side, dlc):  # cuts frames one octet above what the peer announced
        dlc.mtu = dlc.mtu + 1

    def no_credit_return(side, dlc):  # never returns credits
        dlc.rx_credits_threshold = -1

    def flip_byte(side, dlc):  # corrupts one byte of what it is asked to write
        orig = dlc.write

        def wr(data):
            if isinstance(data, bytes) and len(data) > 3:
                data = data[:3] + bytes([data[3] ^ 1]) + data[4:]
            orig(data)

        dlc.write = wr

    def swallow(side, dlc):  # does not deliver every 3rd chunk to the application
        inner = dlc.sink
        st = {"n": 0}

        def sink(data):
            st["n"] += 1
            if st["n"] % 3:
                inner(data)

        dlc.sink = sink

    def passive_close_stays(side, dlc):  # answers DISC but keeps the data link
        from bumble import rfcomm

        dlc.on_disc_frame = lambda frame: dlc.send_frame(rfcomm.RFCOMM_Frame.ua(c_r=1 - dlc.c_r, dlci=dlc.dlci))

    def ignores_disc(side, dlc):  # never answers DISC
        dlc.on_disc_frame = lambda frame: None

    def shared_ledger(side, dlc):  # all data links of a multiplexer spend from one credit pool (the first link's)
        first = next(iter(dlc.multiplexer.dlcs.values()))
        if first is dlc:
            return
        orig = dlc.process_tx

        def ptx():
            orig()
            while dlc.tx_buffer and dlc.tx_credits == 0 and first.tx_credits > 0:
                first.tx_credits -= 1
                dlc.tx_credits += 1
                orig()

        dlc.process_tx = ptx

    return {
        "no-credit-check": (no_credit_check, ["data-without-credit"]),
        "own-frame-size": (own_frame_size, ["above-negotiated-frame-size"]),
        "no-credit-return": (no_credit_return, ["no-credits-returned"]),
        "flip-byte": (flip_byte, ["bytes-differ"]),
        "swallow-chunk": (swallow, ["bytes-differ", "received-not-delivered"]),
        "passive-close-stays-open": (passive_close_stays, ["link-state-differs"]),
        "ignores-disc": (ignores_disc, ["call-outcome", "answer-never-sent", "call-never-returned"]),
        "shared-ledger": (shared_ledger, ["data-without-credit"]),
    }


def _hfp_shims():
    def double_ok(when, hf, ag):  # the AG concludes AT+BRSF twice
        if when == "before" and ag is not None:
            orig = ag._on_brsf

            def h(*a):
                orig(*a)
                ag.send_ok()

            ag._on_brsf = h

    def no_final(when, hf, ag):  # the AG answers AT+CIND? without a final result code
        if when == "before" and ag is not None:
            ag._on_cind_read = lambda: ag.send_response("+CIND: " + ",".join(str(i.current_status) for i in ag.ag_indicators))

    def forgets_codecs(when, hf, ag):  # the AG drops the codecs it was told
        if when == "after" and ag is not None:
            ag.supported_audio_codecs = []

    def wrong_peer_features(when, hf, ag):  # the HF holds another AG feature set than the AG reported
        if when == "after" and hf is not None:
            hf.supported_ag_features ^= 0x20

    def flips_enabled(when, hf, ag):  # the HF holds another enabled flag than reported
        if when == "after" and hf is not None:
            for st in hf.hf_indicators.values():
                st.enabled = not st.enabled

    return {
        "ag-double-ok": (double_ok, ["second-final-result"]),
        "ag-no-final": (no_final, ["no-final-result", "not-completed"]),
        "ag-forgets-codecs": (forgets_codecs, ["codecs-differ"]),
        "hf-wrong-peer-features": (wrong_peer_features, ["feature-sets-differ"]),
        "hf-flips-enabled": (flips_enabled, ["hf-indicator-enabled-flags-differ"]),
    }


def _damage(kind, tr, rng):
    """-> [(name, damaged trace)]"""
    out = []
    t = lambda: copy.deepcopy(tr)
    if kind == "dlc":
        s = tr[0]["side"]
        tx = [i for i, e in enumerate(tr) if e["e"] == "uih" and e["side"] == s and e["at"] == "tx" and e["n"] > 0]
        rx = [i for i, e in enumerate(tr) if e["e"] == "uih" and e["side"] == 1 - s and e["at"] == "rx" and e["pf"] == 1 and e["credits"] > 0]
        sk = [i for i, e in enumerate(tr) if e["e"] == "sink" and e["side"] == 1 - s]
        if tx:
            d = t(); del d[tx[0]]; out.append(("drop-frame", d))
            d = t(); d[tx[-1]]["n"] += 40000; out.append(("longer-frame", d))
            d = t(); d.insert(tx[-1], dict(d[tx[-1]])); d.insert(tx[-1], dict(d[tx[-1]])); out.append(("frames-out-of-thin-air", d))
        if rx:
            d = t(); d[rx[0]]["credits"] += 1; out.append(("credit-amount", d))
        if sk:
            d = t(); d[sk[0]]["ok"] = False; out.append(("sink-bytes", d))
            d = t(); del d[sk[-1]]; out.append(("drop-delivery", d))
    elif kind == "mux":
        ua = [i for i, e in enumerate(tr) if e["e"] == "ctl" and e["kind"] == "UA" and e["at"] == "rx" and e["dlci"] != 0]
        stt = [i for i, e in enumerate(tr) if e["e"] == "state" and e["open"][0]]
        api = [i for i, e in enumerate(tr) if e["e"] == "api" and e["kind"] in ("open", "close")]
        if ua:
            d = t(); del d[ua[0]]; out.append(("drop-ua", d))
        if stt:
            d = t(); d[stt[0]]["open"][1] = []; out.append(("state-differs", d))
            d = t(); d[stt[0]]["busy"][0] = [d[stt[0]]["open"][0][0]]; out.append(("state-busy", d))
        if api:
            d = t(); d[api[0]]["what"] = "timeout"; out.append(("api-timeout", d))
        sab = [i for i, e in enumerate(tr) if e["e"] == "ctl" and e["kind"] == "SABM" and e["at"] == "tx" and e["dlci"] != 0]
        if sab:
            d = t(); d[sab[0]]["kind"] = "DISC"; out.append(("wrong-frame", d))
    else:
        fin = [i for i, e in enumerate(tr) if e["e"] == "at" and e["cls"] == "final"]
        brsf = [i for i, e in enumerate(tr) if e["e"] == "at" and e["code"] == "+BRSF"]
        slc = [i for i, e in enumerate(tr) if e["e"] == "slc"]
        if fin:
            d = t(); del d[fin[0]]; out.append(("drop-final", d))
            d = t(); d.insert(fin[-1], dict(d[fin[-1]])); out.append(("double-final", d))
        if brsf and tr[0]["mode"] == "slc":
            d = t(); d[brsf[0]]["bits"] = [b for b in range(14) if b not in d[brsf[0]]["bits"]][:3]; out.append(("brsf-bits", d))
        if slc:
            d = t(); d[slc[0]]["peer"] = d[slc[0]]["peer"] + [20]; out.append(("held-peer-features", d))
            d = t(); d[slc[0]]["done"] = False; out.append(("not-done", d))
    return out


def run(ctx, rep):
    import importlib

    drv = importlib.import_module("drivers.c20_rfcomm_hfp")
    from lib import c20_hfp, c20_scen, c20_wire

    rng = random.Random(ctx.seed + 20)
    results = {}
    R = type(rep)
    rf = _rf_scenarios(drv, rng)

    def rf_runner(patch):
        def go(sc):
            r = c20_scen.run_scenario(sc, dlc_patch=patch)
            head = c20_wire.public(c20_wire._ev("cfg", listed=[[], sorted(c["ch"] * 2 for c in sc["chans"])]))
            return {"dlc": r.rec.dlc_traces(), "mux": [head] + r.rec.mux_trace(), "info": r.info, "anomalies": r.rec.anomalies[:6], "loop_errors": r.loop_errors[:4]}

        return go

    with drv._pool() as pool:
        # --- shims around the real DLC objects: every (shim, scenario) pair run in-process, all traces validated in one go
        shims = _shims()
        scs = [dict(sc, _shim=name) for name in shims for sc in rf]
        found, _ = drv.run_rfcomm(ctx, R(rep.prop, rep.level), pool, scs, count=False,
                                  runner=lambda sc: rf_runner(shims[sc["_shim"]][0])({k: v for k, v in sc.items() if k != "_shim"}))
        for name, (shim, expect) in shims.items():
            sigs = sorted({f[0] for f in found if f[2]["scenario"]["_shim"] == name})
            results[name] = sigs
            if not any(x in s for s in sigs for x in expect):
                rep.violation(f"selftest:{name}", f"binding self-test: shim {name} was not detected as {expect}; sigs {sigs}")
        # --- shims around the real HFP objects
        base = dict(seed=7, hf_bits=[0, 1, 2, 5, 7, 8], hf_inds=[1, 2], hf_codecs=[1, 2], ag_bits=[0, 3, 5, 6, 9, 10],
                    ag_inds=[["call", [0, 1], 0], ["service", [0, 1], 1]], ag_hfinds=[1, 2], ag_holds=["1", "2"], ag="real", hf_is_client=True, family="selftest")
        pup = dict(base, ag="puppet", enabled={"1": 0, "2": 1})
        hshims = _hfp_shims()
        scs = [dict(sc, _shim=name) for name in hshims for sc in (base, dict(base, hf_is_client=False), pup)]
        found, _, _ = drv.run_hfp(ctx, R(rep.prop, rep.level), pool, scs, [], count=False, slc_runner=lambda sc: c20_hfp.run_slc(sc, patch=hshims[sc["_shim"]][0]))
        for name, (shim, expect) in hshims.items():
            sigs = sorted({f[0] for f in found if f[2]["scenario"]["_shim"] == name})
            results[name] = sigs
            if not any(x in s for s in sigs for x in expect):
                rep.violation(f"selftest:{name}", f"binding self-test: shim {name} was not detected as {expect}; sigs {sigs}")
        # --- damaged traces: accepted traces of the unmodified stack, one field / one event changed
        good_runs = [rf_runner(None)(sc) for sc in rf]
        slc_runs = [c20_hfp.run_slc(sc) for sc in (base, dict(base, hf_bits=[0], ag_bits=[3]), dict(base, hf_bits=[7], ag_bits=[9]), pup)]
        at_runs = [c20_hfp.run_at(dict(drv.AT_AG, family="selftest", cls="x", seed=5, lines=[l])) for l in ("AT+VGS=7", "AT+NREC=0", "AT+CLCC")]
        families = {
            "dlc": (ctx.spec("Rfcomm", "DlcTrace.tla"), drv._dlc_trace_cfg(ctx), [t for r in good_runs for _, _, t in r["dlc"]]),
            "mux": (ctx.spec("Rfcomm", "MuxTrace.tla"), drv._mux_trace_cfg(ctx), [r["mux"] for r in good_runs]),
            "slc": (ctx.spec("Hfp", "SlcTrace.tla"), drv._slc_trace_cfg(ctx), [t for r in slc_runs for _, t in drv.split_slc_trace(r["trace"])] + [r["trace"] for r in at_runs]),
        }
        for kind, (spec, cfg, traces) in families.items():
            v0, _ = drv._validate(pool, spec, cfg, traces, "c20st")
            good = [t for i, t in enumerate(traces) if v0[i][0] == "ACCEPT"]
            if kind == "mux" and not good:
                # on a tree where the passive end of a close stays open every close is refused: damage the prefix up to the first close
                good = []
                for t in traces:
                    k = next((i for i, e in enumerate(t) if e["e"] == "ctl" and e["kind"] == "DISC"), len(t))
                    good.append(t[:k])
                v1, _ = drv._validate(pool, spec, cfg, good, "c20st")
                good = [t for i, t in enumerate(good) if v1[i][0] == "ACCEPT"]
            if not good:
                raise tlc.TlcError(f"self-test: no accepted {kind} trace to damage")
            damaged = [(n, d) for t in good for n, d in _damage(kind, t, rng)]
            if len({n for n, _ in damaged}) < 4:
                raise tlc.TlcError(f"self-test: too few kinds of damage applicable to the {kind} traces: {sorted({n for n, _ in damaged})}")
            v, _ = drv._validate(pool, spec, cfg, [d for _, d in damaged], "c20st")
            missed = sorted({damaged[i][0] for i in range(len(damaged)) if v[i][0] == "ACCEPT"})
            results[f"damaged-{kind}"] = f"{len(damaged) - sum(1 for i in range(len(damaged)) if v[i][0] == 'ACCEPT')}/{len(damaged)} rejected; kinds {sorted({n for n, _ in damaged})}"
            if missed:
                rep.violation(f"selftest:damaged-{kind}-accepted", f"damaged {kind} traces accepted: {missed}")
    print("selftest:", json.dumps(results, indent=1))
