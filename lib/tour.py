"""Transition tours over a TLC state graph (lib.tlc.Graph): paths from an initial state
that together take every edge at least once."""
from __future__ import annotations

from collections import deque


def shortest_paths(g, root):
    """BFS tree: node -> list of edge indices from root."""
    prev = {root: None}
    dq = deque([root])
    while dq:
        n = dq.popleft()
        for ei in g.out(n):
            d = g.edges[ei][1]
            if d not in prev:
                prev[d] = ei
                dq.append(d)
    def path(n):
        p = []
        while prev[n] is not None:
            ei = prev[n]
            p.append(ei)
            n = g.edges[ei][0]
        p.reverse()
        return p
    return prev, path


def edge_paths(g):
    """One path per edge: shortest path from init to the edge's source, then the edge."""
    root = g.init[0]
    prev, path = shortest_paths(g, root)
    for ei, (s, d, a, args) in enumerate(g.edges):
        if s in prev:
            yield path(s) + [ei]


def greedy_tours(g, max_len=40):
    """Few long paths covering every edge reachable from init."""
    root = g.init[0]
    prev, _ = shortest_paths(g, root)
    uncovered = {ei for ei, e in enumerate(g.edges) if e[0] in prev}
    tours = []
    while uncovered:
        cur = root
        path = []
        while len(path) < max_len:
            nxt = [ei for ei in g.out(cur) if ei in uncovered]
            if nxt:
                ei = nxt[0]
            else:
                # BFS to the nearest node with an uncovered out-edge
                seen = {cur: None}
                dq = deque([cur])
                target = None
                while dq:
                    n = dq.popleft()
                    if any(e in uncovered for e in g.out(n)):
                        target = n
                        break
                    for e in g.out(n):
                        d = g.edges[e][1]
                        if d not in seen:
                            seen[d] = e
                            dq.append(d)
                if target is None or target == cur:
                    break
                hop = []
                n = target
                while seen[n] is not None:
                    hop.append(seen[n])
                    n = g.edges[seen[n]][0]
                hop.reverse()
                if len(path) + len(hop) + 1 > max_len and path:
                    break
                path.extend(hop)
                cur = target
                continue
            path.append(ei)
            uncovered.discard(ei)
            cur = g.edges[ei][1]
        if not path:
            break
        tours.append(path)
    return tours
