"""C13 scenario runner: a history of LE pairings between two real Devices (lib.rig.Net) with scripted
PairingDelegates, recorded at public boundaries.  Per life: one pairing attempt, then reconnections in
the same and in swapped roles that encrypt from the key stores, optionally the bond deleted on a device;
the next life pairs AGAIN (same or swapped roles, another configuration) while the devices still hold
whatever the earlier lives left in their key stores.  Returns the event trace that
specs/Smp/SmpTrace.tla validates.

Observation points
* SMP PDUs sent: host->controller HCI tap, ACL fragments reassembled here (Core Vol 3 Part A 7.2),
  L2CAP CID 6.  SMP PDUs received: Host 'l2cap_pdu' event.
* user interface: the PairingDelegate methods called by the stack (who displays, inputs, compares).
* encryption start: the virtual controller reports success without asking the peripheral's host for
  a key, so the tap plays the link layer's part: it holds the Encryption Change events, sends the
  peripheral's host the LE Long Term Key Request a real controller would send, records the key the
  host replies with (Host -> Device.get_long_term_key, the long-term-key provider) next to the key
  in the central's LE Enable Encryption command, and then releases the events.
* pair() result, 'pairing' / 'pairing_failure' events with PairingKeys, is_encrypted, key stores.
Key bytes are mapped to small identifiers by first occurrence (0 = no key / empty key).
"""
from __future__ import annotations

import asyncio
import random
import struct

from lib import rig

IO_NAMES = ["DisplayOnly", "DisplayYesNo", "KeyboardOnly", "NoInputNoOutput", "KeyboardDisplay"]
KD_BITS = {"ENC": 1, "ID": 2, "SIGN": 4, "LINK": 8}
SMP_CODES = {1: "req", 2: "rsp", 3: "cfm", 4: "rnd", 5: "fail", 6: "encinfo", 7: "mid", 8: "idinfo", 9: "idaddr",
             10: "sign", 11: "secreq", 12: "pub", 13: "dhk", 14: "keypress"}
SIDES = ("i", "r")
Other13 = {"i": "r", "r": "i"}

EV_DEFAULTS = {"e": "", "s": "", "t": "", "k": 0, "k2": 0, "b": False, "v": 0, "ik": [], "rk": [],
               "hang": False, "has_i": False, "has_r": False, "sauth_i": False, "sauth_r": False,
               "enc_i": False, "enc_r": False, "undisplayed": False, "sid_i": 0, "sid_r": 0, "swap": False}


def kd_mask(names):
    m = 0
    for n in names:
        m |= KD_BITS[n]
    return m


def kd_names(mask):
    return [n for n, b in KD_BITS.items() if mask & b]


def io_enum(name):
    from bumble.pairing import PairingDelegate

    return {
        "DisplayOnly": PairingDelegate.IoCapability.DISPLAY_OUTPUT_ONLY,
        "DisplayYesNo": PairingDelegate.IoCapability.DISPLAY_OUTPUT_AND_YES_NO_INPUT,
        "KeyboardOnly": PairingDelegate.IoCapability.KEYBOARD_INPUT_ONLY,
        "NoInputNoOutput": PairingDelegate.IoCapability.NO_OUTPUT_NO_INPUT,
        "KeyboardDisplay": PairingDelegate.IoCapability.DISPLAY_OUTPUT_AND_KEYBOARD_INPUT,
    }[name]


class Stack13(rig.Stack):
    """lib.rig.Stack with one difference: a 'l2cap_pdu' listener is registered on the Host BEFORE the
    Device registers its own, so that a received SMP PDU is logged before the stack reacts to it."""

    def __init__(self, name, link, public_address, rng=None, max_delay=0.0):
        from bumble.controller import Controller
        from bumble.device import Device
        from bumble.hci import Address
        from bumble.host import Host

        self.name = name
        self.controller = Controller(name, link=link, public_address=public_address)
        self.host = Host()
        self.rx_cb = None
        self.host.on("l2cap_pdu", lambda handle, cid, pdu: self.rx_cb and self.rx_cb(handle, cid, pdu))
        self.tap = rig.HciTap(self.host, self.controller, rng=rng, max_delay=max_delay)
        self.device = Device(name=name, address=Address(public_address), host=self.host)


class Net13(rig.Net):
    def __init__(self, n, seed=0, max_delay=0.0):
        from bumble.link import LocalLink

        self.rng = random.Random(seed)
        self.link = LocalLink()
        self.stacks = [Stack13(f"D{i}", self.link, rig.addr(i), rng=self.rng, max_delay=max_delay) for i in range(n)]


class Recorder:
    def __init__(self):
        self.events = []
        self.keyids = {}
        self.notes = []

    def ev(self, e, **kw):
        d = dict(EV_DEFAULTS)
        d["ik"] = []
        d["rk"] = []
        d["e"] = e
        d.update(kw)
        self.events.append(d)
        return d

    def kid(self, key):
        if not key:
            return 0
        key = bytes(key)
        if key not in self.keyids:
            self.keyids[key] = len(self.keyids) + 1
        return self.keyids[key]


def make_delegate(side, cfg, script, passkey, wrong_passkey, rec, state, delegate_wrap=None):
    from bumble.pairing import PairingDelegate

    async def think():
        # the user takes script["wait"] (virtual) seconds to answer a prompt: each side's answers are ordered
        # independently of the peer's PDUs (an answer may come after the peer's next PDU has arrived).  The "ui"
        # event is the ANSWER (logged when the delegate returns it to the stack), not the prompt.
        w = script.get("wait", 0)
        if w:
            await asyncio.sleep(w)

    class Scripted(PairingDelegate):
        async def accept(self):
            await think()
            rec.ev("ui", s=side, t="accept", b=bool(script["accept"]))
            return bool(script["accept"])

        async def confirm(self, auto=False):
            await think()
            b = script["cfm"] != "no"
            rec.ev("ui", s=side, t="confirm", b=b)
            return b

        async def compare_numbers(self, number, digits):
            state["compared"][side] = number
            await think()
            rec.ev("ui", s=side, t="compare", b=bool(script["cmp"]))
            return bool(script["cmp"])

        async def get_number(self):
            await think()
            v = script["pkin"]
            rec.ev("ui", s=side, t="input", v=v)
            if v == 0:
                return None
            return passkey if v == 1 else wrong_passkey

        async def generate_passkey(self):
            # the passkey comes into existence on the displaying side here
            state["generated"][side] = passkey
            rec.ev("ui", s=side, t="display")
            return passkey

        async def display_number(self, number, digits):
            state["shown"][side] = number

    d = Scripted(io_enum(cfg["io"]), kd_mask(cfg["ikd"]), kd_mask(cfg["rkd"]))
    return delegate_wrap(side, d) if delegate_wrap else d


class LinkShim:
    """Plays the link layer's part of the LE encryption start between two HciTaps."""

    def __init__(self, rec, rng):
        self.rec = rec
        self.rng = rng
        self.pending = None  # dict(central, periph, key, rand, ediv, held)
        self.exchanges = []  # (central index, central key id, peripheral key id or 0, replied)
        self.on_exchange = None

    def attach(self, stacks):
        self.stacks = stacks
        for idx, st in enumerate(stacks):
            st.tap.filter_h2c = lambda p, idx=idx: self.h2c(idx, p)
            st.tap.filter_c2h = lambda p, idx=idx: self.c2h(idx, p)

    def h2c(self, idx, p):
        if p[0] != 0x01:
            return False
        opcode = p[1] | (p[2] << 8)
        if opcode == 0x2019 and len(p) >= 4 + 28:  # LE Enable Encryption
            rand, ediv, key = p[6:14], struct.unpack_from("<H", p, 14)[0], p[16:32]
            self.pending = {"central": idx, "periph": 1 - idx, "key": key, "rand": rand, "ediv": ediv, "held": {}, "asked": False}
            if self.on_exchange:
                self.on_exchange("req", idx, key)
            return False
        if opcode in (0x201A, 0x201B) and self.pending and idx == self.pending["periph"]:
            handle = p[4:6]
            key = p[6:22] if opcode == 0x201A else b""
            # Command Complete for the reply (the virtual controller does not implement it)
            self.stacks[idx].tap.inject_to_host(bytes([0x04, 0x0E, 6, 1, p[1], p[2], 0]) + handle)
            pend = self.pending
            self.pending = None
            if self.on_exchange:
                self.on_exchange("rep", idx, key)
            order = [pend["central"], pend["periph"]]
            if self.rng.random() < 0.5:
                order.reverse()
            for j in order:
                if j in pend["held"]:
                    self.stacks[j].tap.line_c2h.push(pend["held"][j])
            return True
        return False

    def c2h(self, idx, p):
        if p[0] == 0x04 and p[1] == 0x08 and self.pending is not None and idx in (self.pending["central"], self.pending["periph"]):
            pend = self.pending
            if idx in pend["held"]:
                return False
            pend["held"][idx] = p
            if idx == pend["periph"] and not pend["asked"]:
                pend["asked"] = True
                handle = p[4:6]
                self.stacks[idx].tap.inject_to_host(
                    bytes([0x04, 0x3E, 13, 0x05]) + handle + pend["rand"] + struct.pack("<H", pend["ediv"]))
            return True
        return False


class AclReassembler:
    """host->controller ACL fragments -> L2CAP PDUs (cid, payload)."""

    def __init__(self, sink):
        self.sink = sink
        self.buf = {}

    def feed(self, p):
        if p[0] != 0x02:
            return
        hf, ln = struct.unpack_from("<HH", p, 1)
        handle, pb = hf & 0x0FFF, (hf >> 12) & 3
        data = p[5 : 5 + ln]
        if pb in (0, 2):
            self.buf[handle] = bytearray(data)
        else:
            if handle not in self.buf:
                return
            self.buf[handle] += data
        b = self.buf[handle]
        if len(b) >= 4:
            l2len, cid = struct.unpack_from("<HH", b, 0)
            if len(b) >= 4 + l2len:
                self.sink(cid, bytes(b[4 : 4 + l2len]))
                del self.buf[handle]


def _has_auth(keys):
    flags = []
    for f in ("ltk", "ltk_central", "ltk_peripheral", "irk", "csrk", "link_key"):
        k = getattr(keys, f, None)
        if k is not None:
            flags.append(bool(getattr(k, "authenticated", False)))
    return any(flags)


def life_list(sc):
    """A scenario is a history: the first life is the scenario dict itself, further lives are in sc["lives"].
    A life = {central (device index, default 0), ci, cr, ai, ar, tamper, badround, passkey,
              after: steps once the pairing is over, default ["i", "r"]:
                     "i" / "r" = reconnect with this life's initiator / responder as the central and encrypt()
                     from the key stores; "Fi" / "Fr" = the user deletes the bond on that device,
              keep: pair on the connection the previous life's last reconnection left open (and encrypted
                    under the earlier bond) instead of a new one}"""
    return [sc] + list(sc.get("lives", []))


def _store_digest(entries):
    import hashlib
    import json

    if not entries:
        return b""
    blob = json.dumps(sorted((str(a), k.to_dict()) for a, k in entries), sort_keys=True, default=str)
    return hashlib.sha256(blob.encode()).digest()


async def scenario(sc, delegate_wrap=None, device_patch=None, trace_hook=None):
    """Run one history of pairings.  Returns (events, info).  sc["keystore"] = path prefix: the two devices
    keep their bonds in JSON key-store files <prefix>-<device>.json (removed afterwards) instead of in memory."""
    import os

    files = [f"{sc['keystore']}-{idx}.json" for idx in (0, 1)] if sc.get("keystore") else []
    try:
        return await _scenario(sc, files, delegate_wrap, device_patch, trace_hook)
    finally:
        for f in files:
            for g in (f, f + ".tmp"):
                if os.path.exists(g):
                    os.remove(g)


async def _scenario(sc, files, delegate_wrap, device_patch, trace_hook):
    import os

    from bumble.pairing import PairingConfig
    from bumble.smp import OobContext, OobLegacyContext

    rng = random.Random(sc["seed"])
    rec = Recorder()
    net = Net13(2, seed=sc["seed"], max_delay=sc.get("delay", 0.0))
    await net.power_on()
    for idx, f in enumerate(files):
        from bumble.keys import JsonKeyStore

        os.makedirs(os.path.dirname(f), exist_ok=True)
        if os.path.exists(f):
            os.remove(f)
        net[idx].keystore = JsonKeyStore(None, f)
    if device_patch:
        device_patch(net)
    lives = life_list(sc)

    # --- taps (installed once; which device is "i" / "r" changes from life to life)
    side_of = {0: "i", 1: "r"}
    shim = LinkShim(rec, rng)
    shim.attach(net.stacks)
    phase = {"name": "idle"}
    rebond_log = []
    cur = {"tamper": False, "central": 0, "tampered": False}

    def on_exchange(kind, idx, key):
        if phase["name"] == "pairing":
            rec.ev("encreq" if kind == "req" else "ltkreply", s=side_of[idx], k=rec.kid(key))
        else:
            rebond_log.append((kind, idx, rec.kid(key)))

    shim.on_exchange = on_exchange

    def smp_tx(idx, cid, pdu):
        if cid != 6 or not pdu or phase["name"] != "pairing":
            return
        t = SMP_CODES.get(pdu[0], f"code{pdu[0]}")
        kw = {}
        if t == "rsp" and len(pdu) >= 7:
            kw = {"ik": kd_names(pdu[5]), "rk": kd_names(pdu[6])}
        if t == "encinfo":
            kw = {"k": rec.kid(pdu[1:17])}
        rec.ev("tx", s=side_of[idx], t=t, **kw)

    for idx, st in enumerate(net.stacks):
        reasm = AclReassembler(lambda cid, pdu, idx=idx: smp_tx(idx, cid, pdu))
        st.tap.record = lambda d, p, reasm=reasm: d == "h2c" and reasm.feed(p)

        def rx(handle, cid, pdu, idx=idx):
            if cid == 6 and pdu and phase["name"] == "pairing":
                rec.ev("rx", s=side_of[idx], t=SMP_CODES.get(pdu[0], f"code{pdu[0]}"))

        st.rx_cb = rx

        # the pairing request is altered in flight: the keypress bit of AuthReq (ignored by both
        # ends, but covered by c1 and f6) is flipped, so the two ends hold different requests
        def tamper_filter(p, idx=idx, st=st, inner=st.tap.filter_h2c):
            if (cur["tamper"] and idx == cur["central"] and not cur["tampered"] and p[0] == 0x02 and len(p) >= 16
                    and p[7:9] == b"\x06\x00" and p[9] == 0x01):
                cur["tampered"] = True
                q = bytearray(p)
                q[12] ^= 0x10
                st.tap.line_h2c.push(bytes(q))
                return True
            return inner(p)

        st.tap.filter_h2c = tamper_filter

    async def stores():
        return {side_of[idx]: await net[idx].keystore.get_all() for idx in (0, 1)}

    info = {"lives": []}
    open_conn = None  # (central device index, central's connection, peripheral's connection) left open by a reconnection
    for n, lf in enumerate(lives):
        central = lf.get("central", 0)
        prev_central = cur["central"]
        side_of = {central: "i", 1 - central: "r"}
        cfgs = {"i": lf["ci"], "r": lf["cr"]}
        scripts = {"i": lf["ai"], "r": lf["ar"]}
        passkey = lf["passkey"]
        wrong = passkey ^ (1 << (lf["badround"] - 1))
        assert 0 <= wrong <= 999999 and wrong != passkey
        state = {"generated": {}, "shown": {}, "compared": {}}
        head = {"ci": lf["ci"], "cr": lf["cr"], "ai": lf["ai"], "ar": lf["ar"], "tamper": bool(lf["tamper"]), "badround": lf["badround"]}
        if n == 0:
            assert central == 0, "the first life's central is device 0"
            rec.events.append(dict(head, e="cfg"))
        else:
            rec.ev("life", swap=central != prev_central, **head)
        cur.update(tamper=bool(lf["tamper"]), central=central, tampered=False)

        # --- pairing configuration (identity = the static random address the connection uses, so that the
        # key store entry made under the identity address is the one looked up on the next connection)
        oobctx = {s: OobContext() for s in SIDES}
        legacy_tk = OobLegacyContext()
        for idx in (0, 1):
            s = side_of[idx]
            cfg = cfgs[s]
            delegate = make_delegate(s, cfg, scripts[s], passkey, wrong, rec, state, delegate_wrap)
            oob = None
            if cfgs["i"]["oob"] or cfgs["r"]["oob"]:
                peer = Other13[s]
                oob = PairingConfig.OobConfig(
                    oobctx[s], oobctx[peer].share() if cfg["oob"] else None, legacy_tk if cfg["oob"] else None)
            pc = PairingConfig(sc=cfg["sc"], mitm=cfg["mitm"], bonding=cfg["bond"], delegate=delegate,
                               identity_address_type=PairingConfig.AddressType.RANDOM, oob=oob)
            net[idx].pairing_config_factory = lambda connection, pc=pc: pc

        if lf.get("keep") and open_conn is not None and open_conn[0] == central:
            cc, pc_ = open_conn[1], open_conn[2]
        else:
            if open_conn is not None:
                await open_conn[1].disconnect()
                await asyncio.sleep(1.0)
            cc, pc_ = await net.connect_le(central, 1 - central)
        open_conn = None
        for s, c in (("i", cc), ("r", pc_)):
            c.on("pairing", lambda keys, s=s: phase["name"] == "pairing" and rec.ev(
                "report", s=s, t="keys", b=_has_auth(keys), k=rec.kid(keys.ltk.value) if keys.ltk is not None else 0))
            c.on("pairing_failure", lambda reason, s=s: phase["name"] == "pairing" and rec.ev("report", s=s, t="fail"))
            c.on("connection_encryption_change", lambda s=s, c=c: phase["name"] == "pairing" and c.is_encrypted and rec.ev("enc", s=s))

        # --- pair
        phase["name"] = "pairing"
        first = len(rec.events)
        task = asyncio.ensure_future(net[central].pair(cc))
        done, _ = await asyncio.wait({task}, timeout=120.0)
        hang = not done
        pair_ok = False
        if hang:
            task.cancel()
            try:
                await task
            except BaseException:
                pass
        else:
            exc = task.exception()
            pair_ok = exc is None
            rec.ev("report", s="i", t="ok" if pair_ok else "fail")
            if exc is not None:
                rec.notes.append(f"life {n + 1}: pair() raised {type(exc).__name__}: {exc}")
        await asyncio.sleep(5.0)  # let the responder finish

        st = await stores()
        undisplayed = any(state["shown"].get(s) != v for s, v in state["generated"].items())
        rec.ev("quiesce", hang=hang,
               has_i=len(st["i"]) > 0, has_r=len(st["r"]) > 0,
               sid_i=rec.kid(_store_digest(st["i"])), sid_r=rec.kid(_store_digest(st["r"])),
               sauth_i=any(_has_auth(k) for _, k in st["i"]), sauth_r=any(_has_auth(k) for _, k in st["r"]),
               enc_i=bool(cc.is_encrypted), enc_r=bool(pc_.is_encrypted), undisplayed=undisplayed)
        phase["name"] = "rebond"
        if trace_hook and n == 0:
            trace_hook(rec.events)
        linfo = {"pair_ok": pair_ok, "hang": hang, "central": central, "state": {k: dict(v) for k, v in state.items()},
                 "stores": {s: [(a, str(k)) for a, k in st[s]] for s in SIDES}}
        info["lives"].append(linfo)

        try:
            await cc.disconnect()
        except Exception as e:  # noqa: BLE001
            rec.notes.append(f"disconnect raised {e!r}")
        await asyncio.sleep(1.0)

        # --- afterwards: reconnections that encrypt from the stores, bonds deleted by the user
        r_ok = any(e["e"] == "report" and e["s"] == "r" and e["t"] == "keys" for e in rec.events[first:])
        steps = list(lf.get("after", ["i", "r"]))
        nxt = lives[n + 1] if n + 1 < len(lives) else None
        for j, step in enumerate(steps):
            dev = central if step[-1] == "i" else 1 - central
            if step[0] == "F":
                for name, _ in await net[dev].keystore.get_all():
                    await net[dev].keystore.delete(name)
                rec.ev("forget", s=step[-1])
                continue
            if not (pair_ok and r_ok):
                continue
            del rebond_log[:]
            c2, p2 = await net.connect_le(dev, 1 - dev)
            t = asyncio.ensure_future(net[dev].encrypt(c2))
            d2, _ = await asyncio.wait({t}, timeout=30.0)
            err = None
            if not d2:
                t.cancel()
                err = "hang"
            elif t.exception() is not None:
                err = repr(t.exception())
            await asyncio.sleep(1.0)
            req = [k for (kind, idx, k) in rebond_log if kind == "req"]
            repl = [k for (kind, idx, k) in rebond_log if kind == "rep"]
            # no encryption request at all (no key found): nothing to compare
            rec.ev("rebond", s=step, k=req[0] if req else 0, k2=repl[0] if repl else 0)
            linfo.setdefault("rebond", []).append({"central": step, "sent": req, "replied": repl, "encrypt_error": err})
            if (nxt is not None and nxt.get("keep") and j == len(steps) - 1 and nxt.get("central", 0) == dev
                    and err is None and req):
                open_conn = (dev, c2, p2)  # the next life pairs on this (encrypted) link
            else:
                await c2.disconnect()
                await asyncio.sleep(1.0)
    first_life = info["lives"][0]
    info.update(pair_ok=first_life["pair_ok"], hang=first_life["hang"], notes=rec.notes, state=first_life["state"],
                stores=first_life["stores"], all_ok=all(x["pair_ok"] for x in info["lives"]))
    if "rebond" in first_life:
        info["rebond"] = first_life["rebond"]
    return rec.events, info


def run_scenario(sc, **kw):
    from lib import vt

    return vt.run(scenario(sc, **kw))
