"""C05 binding self-test: documented mis-behaving shims around the real objects (nothing in /repo is
touched) and corrupted recorded traces; each must be flagged by the same machinery that run() uses."""
from __future__ import annotations

import copy

from lib import c05_scen as scen
from lib import c05_wire as w
from lib import tlc


def _fresh(rep):
    return type(rep)(rep.prop, rep.level)


def run(ctx, rep):
    import drivers.c05_aclfrag as d
    from bumble import hci

    results = {}

    # ---------------------------------------------------------------- (A) assembler shims
    Real = hci.HCI_AclDataPacketAssembler

    class GeAssembler(Real):  # delivers a PDU that got more data than announced
        def feed_packet(self, packet):
            if packet.pb_flag == 1 and self.current_data is not None and len(self.current_data) + len(packet.data) > self.l2cap_pdu_length + 4:
                data = self.current_data + packet.data
                self.current_data = None
                self.l2cap_pdu_length = 0
                self.callback(data)
                return
            return super().feed_packet(packet)

    class StickyAssembler(Real):  # a START while a PDU is in progress is appended instead of starting over
        def feed_packet(self, packet):
            if packet.pb_flag in (0, 2) and self.current_data is not None:
                packet = hci.HCI_AclDataPacket(packet.connection_handle, 1, 0, len(packet.data), packet.data)
            return super().feed_packet(packet)

    class OrphanAssembler(Real):  # a continuation without start is taken for a start
        def feed_packet(self, packet):
            if packet.pb_flag == 1 and self.current_data is None and len(packet.data) >= 2:
                packet = hci.HCI_AclDataPacket(packet.connection_handle, 2, 0, len(packet.data), packet.data)
            return super().feed_packet(packet)

    class NoResetAssembler(Real):  # keeps what it holds after data beyond the announced length
        def feed_packet(self, packet):
            before = self.current_data
            want = self.l2cap_pdu_length
            super().feed_packet(packet)
            if packet.pb_flag == 1 and before is not None and len(before) + len(packet.data) > want + 4:
                self.current_data = before + packet.data
                self.l2cap_pdu_length = want

    res, consts, g = d.mc_acl(ctx, 4, 9, 2, 1, [0, 5], True)
    for name, fac in (("asm_ge", GeAssembler), ("asm_sticky_start", StickyAssembler), ("asm_orphan_cont", OrphanAssembler),
                      ("asm_no_reset_after_excess", NoResetAssembler)):
        r2 = _fresh(rep)
        d.replay_graph(ctx, r2, g, 4, asm_factory=fac, targets=("asm",))
        results[name] = sorted(v.sig for v in r2.violations)

    def twice(hr):
        real = hr.host.on_l2cap_pdu

        def on_l2cap_pdu(connection, cid, pdu):
            real(connection, cid, pdu)
            real(connection, cid, pdu)

        hr.host.on_l2cap_pdu = on_l2cap_pdu

    r2 = _fresh(rep)
    d.replay_graph(ctx, r2, g, 4, targets=("host",), host_patch=twice, limit=2000)
    results["host_delivers_twice"] = sorted(v.sig for v in r2.violations)
    r2 = _fresh(rep)
    d.replay_graph(ctx, r2, g, 4, limit=3000)
    results["control_unmodified(no violation expected)"] = sorted(v.sig for v in r2.violations)

    # ---------------------------------------------------------------- (B) two-device shims
    sc = {"transport": "le", "seed": 5, "central": 0,
          "cfg": [d.geometry("le", 27, 2, 64), d.geometry("le", 251, 64, 27)], "f": [27, 251],
          "lens": [scen.pdu_lengths(27, big=[65535]), scen.pdu_lengths(251, big=[])], "pace": "burst", "max_delay": 0.002}

    def oversize(net):
        q = net.stacks[0].host.le_acl_packet_queue
        q.max_packet_size += 1

    def drop_third(net):
        host = net.stacks[1].host
        real = host.on_l2cap_pdu
        n = [0]

        def on_l2cap_pdu(connection, cid, pdu):
            n[0] += 1
            if n[0] % 3:
                real(connection, cid, pdu)

        host.on_l2cap_pdu = on_l2cap_pdu

    def swap_pairs(net):
        host = net.stacks[1].host
        real = host.on_l2cap_pdu
        held = []

        def on_l2cap_pdu(connection, cid, pdu):
            held.append((connection, cid, pdu))
            if len(held) == 2:
                real(*held[1])
                real(*held[0])
                held.clear()

        host.on_l2cap_pdu = on_l2cap_pdu

    def corrupt_c2h(net):
        tap = net.stacks[1].tap
        n = [0]

        def filt(packet):
            p = w.acl_parse(packet)
            if p is None or len(p["data"]) < 9:
                return False
            n[0] += 1
            if n[0] % 5:
                return False
            bad = bytearray(packet)
            bad[-1] ^= 0x01
            tap.line_c2h.push(bytes(bad))
            return True

        tap.filter_c2h = filt

    spec_t, cfg_t = ctx.spec("Hci", "AclFragTrace.tla"), ctx.spec("Hci", "AclFragTrace.cfg")
    good = None
    for name, patch in (("link_oversize_fragments", oversize), ("link_receiver_drops_pdus", drop_third), ("link_receiver_swaps_pdus", swap_pairs),
                        ("link_corrupted_towards_host", corrupt_c2h), ("control_link_unmodified(no violation expected)", None)):
        items, problems = d.run_links(ctx, [sc], patch)
        r2 = _fresh(rep)
        out = tlc.trace_batch(spec_t, cfg_t, [x[0] for x in items])
        d.judge_acl(r2, "link", items, out)
        results[name] = sorted(v.sig for v in r2.violations)
        if patch is None:
            good = items

    # corrupted recorded traces
    tx, rx = copy.deepcopy(good[0][0]), copy.deepcopy(good[1][0])
    muts = {}
    t = copy.deepcopy(tx)
    k = next(i for i, e in enumerate(t) if e["e"] == "frag" and e["pb"] == 0)
    t[k]["n"] += 1
    t[k]["ln"] += 1
    muts["trace_frag_longer"] = t
    t = copy.deepcopy(tx)
    k = next(i for i, e in enumerate(t) if e["e"] == "frag" and e["pb"] == 1)
    t[k]["pb"] = 0
    muts["trace_cont_marked_start"] = t
    t = copy.deepcopy(rx)
    k = next(i for i, e in enumerate(t) if e["e"] == "pdu_in")
    del t[k]
    muts["trace_pdu_in_dropped"] = t
    t = copy.deepcopy(rx)
    ks = [i for i, e in enumerate(t) if e["e"] == "pdu_in"]
    t[ks[-1]]["id"], t[ks[-2]]["id"] = t[ks[-2]]["id"], t[ks[-1]]["id"]
    t[ks[-1]]["L"], t[ks[-2]]["L"] = t[ks[-2]]["L"], t[ks[-1]]["L"]
    muts["trace_pdu_in_swapped"] = t
    t = copy.deepcopy(rx)
    k = next(i for i, e in enumerate(t) if e["e"] == "cfrag" and e["pb"] == 1)
    t[k]["ok"] = False
    muts["trace_c2h_bytes_differ"] = t
    t = copy.deepcopy(rx)
    k = next(i for i, e in enumerate(t) if e["e"] == "cfrag")
    t[k]["ln"] += 1
    muts["trace_c2h_length_field"] = t
    names = list(muts)
    out = tlc.trace_batch(spec_t, cfg_t, [muts[n] for n in names])
    for i, n in enumerate(names, start=1):
        v = out["verdicts"][i]
        results[n] = [f"rejected at {v[1]}"] if v[0] == "REJECT" else []

    # ---------------------------------------------------------------- fed Host
    def drop_host(hr):
        real = hr.host.on_l2cap_pdu
        n = [0]

        def on_l2cap_pdu(connection, cid, pdu):
            n[0] += 1
            if n[0] % 4:
                real(connection, cid, pdu)

        hr.host.on_l2cap_pdu = on_l2cap_pdu

    for name, patch in (("hosttrace_drops_pdus", drop_host), ("control_hosttrace_unmodified(no violation expected)", None)):
        items = d.run_host_traces(ctx, 40, patch=patch)
        r2 = _fresh(rep)
        d.judge_acl(r2, "hosttrace", items, tlc.trace_batch(spec_t, cfg_t, [x[0] for x in items]))
        results[name] = sorted(v.sig for v in r2.violations)

    # ---------------------------------------------------------------- ISO
    ispec, icfg = ctx.spec("Hci", "IsoFragTrace.tla"), ctx.spec("Hci", "IsoFragTrace.cfg")
    isc = {"fi": 27, "link": "cis", "count": 2, "sdus": [1, 22, 23, 24, 49, 50, 51, 77, 78, 300], "seed": 3, "psn0": 65533}

    def iso_oversize(host):
        host.iso_packet_queue.max_packet_size += 1

    def iso_seq_stuck(host):
        real = host.send_iso_sdu

        def send_iso_sdu(handle, sdu):
            link = host.cis_links[handle]
            before = link.packet_sequence_number
            real(handle, sdu)
            if len(sdu) % 2:
                link.packet_sequence_number = before

        host.send_iso_sdu = send_iso_sdu

    igood = None
    for name, patch in (("iso_oversize", iso_oversize), ("iso_sequence_number_not_advanced", iso_seq_stuck), ("control_iso_unmodified(no violation expected)", None)):
        items = d.run_iso(ctx, [isc], patch)
        r2 = _fresh(rep)
        d.judge_iso(r2, items, tlc.trace_batch(ispec, icfg, [x[0] for x in items]))
        results[name] = sorted(v.sig for v in r2.violations)
        if patch is None:
            igood = items[0][0]
    muts = {}
    t = copy.deepcopy(igood)
    k = next(i for i, e in enumerate(t) if e["e"] == "iso" and e["pb"] == 0)
    t[k]["pb"] = 2
    muts["iso_trace_first_marked_complete"] = t
    t = copy.deepcopy(igood)
    k = [i for i, e in enumerate(t) if e["e"] == "iso" and e["pb"] in (0, 2)][3]
    t[k]["sdulen"] += 1
    muts["iso_trace_sdu_length"] = t
    t = copy.deepcopy(igood)
    k = [i for i, e in enumerate(t) if e["e"] == "iso" and e["pb"] in (0, 2)][4]
    t[k]["psn"] = (t[k]["psn"] + 1) % 65536
    muts["iso_trace_sequence_number"] = t
    t = copy.deepcopy(igood)
    k = next(i for i, e in enumerate(t) if e["e"] == "iso" and e["pb"] == 3)
    del t[k]
    muts["iso_trace_last_dropped"] = t
    names = list(muts)
    out = tlc.trace_batch(ispec, icfg, [muts[n] for n in names])
    for i, n in enumerate(names, start=1):
        v = out["verdicts"][i]
        results[n] = [f"rejected at {v[1]}"] if v[0] == "REJECT" else []

    for k, v in results.items():
        print(f"selftest {k}: {v}")
        if k.startswith("control_"):
            if v:
                rep.violation(f"selftest:{k.split('(')[0]}", f"binding self-test: the unmodified control run was flagged: {v}")
        elif not v:
            rep.violation(f"selftest:{k}", f"binding self-test: shim / corruption {k} was not detected")
