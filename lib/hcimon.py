"""Passive HCI-boundary monitor: records, for every Host and every Controller instance,
one event per HCI packet crossing the host<->controller boundary (decoded by this module's
own small decoder, written from the Core specification, not by bumble's classes).
Used as a pytest plugin (`-p lib.hcimon`) to trace the repository's own tests, and
directly by drivers.  Traces are validated by specs/Stack/HciMonitor.tla.

Installed by monkey-patching, in the harness process only:
  Host.send_hci_packet (h2c as the host emits it), Host.on_hci_packet (c2h as the host accepts it,
  whether it came through on_packet or was handed over directly by a test),
  Controller.on_packet (h2c as the controller gets it), Controller.send_hci_packet (c2h).
"""
from __future__ import annotations

import json
import os
import struct

OP_RESET = 0x0C03
OP_READ_BUFFER_SIZE = 0x1005
OP_LE_READ_BUFFER_SIZE = 0x2002
OP_LE_READ_BUFFER_SIZE_V2 = 0x2060

_traces = []  # list of dict(role, id, test, events)
_current_test = ["(none)"]
_by_obj = {}


def _trace_for(obj, role):
    key = (id(obj), _current_test[0])
    t = _by_obj.get(key)
    if t is None or t["obj"] is not obj:
        t = {"role": role, "test": _current_test[0], "events": [], "obj": obj, "real": _real_peer(obj, role)}
        _by_obj[key] = t
        _traces.append(t)
    return t


def _real_peer(obj, role):
    """Is the other side of this HCI boundary bumble's own virtual Controller (resp. any sink)?
    Command flow-control clauses are only meaningful against the real virtual controller:
    tests with hand-made controllers deliberately time out or answer with other opcodes."""
    if role != "host":
        return True
    try:
        from bumble.controller import Controller

        sink = getattr(obj, "hci_sink", None)
        for _ in range(4):
            if isinstance(sink, Controller):
                return True
            nxt = getattr(sink, "sink", None) or getattr(sink, "controller", None)
            if nxt is None:
                return False
            sink = nxt
    except Exception:
        pass
    return False


def _ev(e, **kw):
    d = {"e": e, "op": 0, "h": 0, "pb": 0, "n": 0, "ln": 0, "l2": 0, "kind": "", "st": 0}
    d.update(kw)
    return d


def decode_h2c(data):
    """host -> controller packet -> list of events"""
    t = data[0]
    if t == 0x01 and len(data) >= 4:
        (op,) = struct.unpack_from("<H", data, 1)
        return [_ev("cmd", op=op)]
    if t == 0x02 and len(data) >= 5:
        hf, ln = struct.unpack_from("<HH", data, 1)
        h, pb = hf & 0x0FFF, (hf >> 12) & 3
        l2 = 0
        if pb in (0, 2) and ln >= 2:
            (l2,) = struct.unpack_from("<H", data, 5)
        return [_ev("acl", h=h, pb=pb, ln=ln, l2=l2, n=len(data) - 5)]
    return []


def decode_c2h(data):
    """controller -> host packet -> list of events"""
    if data[0] != 0x04 or len(data) < 3:
        return []
    code, plen = data[1], data[2]
    p = data[3 : 3 + plen]
    out = []
    if code == 0x0E and len(p) >= 3:  # Command Complete
        ncmd = p[0]
        (op,) = struct.unpack_from("<H", p, 1)
        rp = p[3:]
        st = rp[0] if rp else 0
        out.append(_ev("cc", op=op, n=ncmd, st=st))
        if st == 0 and op == OP_READ_BUFFER_SIZE and len(rp) >= 8:
            ln, _sco, num, _nsco = struct.unpack_from("<HBHH", rp, 1)
            out.append(_ev("buf", kind="acl", ln=ln, n=num))
        if st == 0 and op in (OP_LE_READ_BUFFER_SIZE, OP_LE_READ_BUFFER_SIZE_V2) and len(rp) >= 4:
            ln, num = struct.unpack_from("<HB", rp, 1)
            out.append(_ev("buf", kind="le", ln=ln, n=num))
    elif code == 0x0F and len(p) >= 4:  # Command Status
        (op,) = struct.unpack_from("<H", p, 2)
        out.append(_ev("cs", op=op, n=p[1], st=p[0]))
    elif code == 0x13 and len(p) >= 1:  # Number Of Completed Packets
        k = p[0]
        for i in range(k):
            if 1 + 4 * i + 4 <= len(p):
                h, n = struct.unpack_from("<HH", p, 1 + 4 * i)
                out.append(_ev("ncp", h=h & 0x0FFF, n=n))
    elif code == 0x03 and len(p) >= 11:  # Connection Complete
        st = p[0]
        (h,) = struct.unpack_from("<H", p, 1)
        link_type = p[9]
        if st == 0 and link_type == 1:
            out.append(_ev("conn", h=h & 0x0FFF, kind="acl"))
    elif code == 0x05 and len(p) >= 4:  # Disconnection Complete
        (h,) = struct.unpack_from("<H", p, 1)
        if p[0] == 0:
            out.append(_ev("disc", h=h & 0x0FFF))
    elif code == 0x3E and len(p) >= 4:  # LE Meta
        sub = p[0]
        if sub in (0x01, 0x0A, 0x29):  # (Enhanced) Connection Complete (v1, v2)
            st = p[1]
            (h,) = struct.unpack_from("<H", p, 2)
            if st == 0:
                out.append(_ev("conn", h=h & 0x0FFF, kind="le"))
    return out


_installed = []


def install():
    if _installed:
        return
    from bumble.controller import Controller
    from bumble.host import Host

    o_send, o_on = Host.send_hci_packet, Host.on_hci_packet
    c_on, c_send = Controller.on_packet, Controller.send_hci_packet

    def h_send(self, packet):
        try:
            _trace_for(self, "host")["events"].extend(decode_h2c(bytes(packet)))
        except Exception:  # tracing must never disturb the run
            pass
        return o_send(self, packet)

    def h_on(self, packet):
        try:
            if True:
                _trace_for(self, "host")["events"].extend(decode_c2h(bytes(packet)))
        except Exception:
            pass
        return o_on(self, packet)

    def k_on(self, packet):
        try:
            _trace_for(self, "ctrl")["events"].extend(decode_h2c(bytes(packet)))
        except Exception:
            pass
        return c_on(self, packet)

    def k_send(self, packet):
        try:
            _trace_for(self, "ctrl")["events"].extend(decode_c2h(bytes(packet)))
        except Exception:
            pass
        return c_send(self, packet)

    Host.send_hci_packet, Host.on_hci_packet = h_send, h_on
    Controller.on_packet, Controller.send_hci_packet = k_on, k_send
    _installed.append((Host, o_send, o_on, Controller, c_on, c_send))


def uninstall():
    while _installed:
        Host, o_send, o_on, Controller, c_on, c_send = _installed.pop()
        Host.send_hci_packet, Host.on_hci_packet = o_send, o_on
        Controller.on_packet, Controller.send_hci_packet = c_on, c_send


def take():
    out = [{"role": t["role"], "test": t["test"], "real": bool(t["real"]), "events": t["events"]} for t in _traces if t["events"]]
    _traces.clear()
    _by_obj.clear()
    return out


# ----------------------------------------------------------------------------- pytest plugin
def pytest_configure(config):
    install()


def pytest_runtest_setup(item):
    _current_test[0] = item.nodeid


def pytest_sessionfinish(session, exitstatus):
    path = os.environ.get("HCIMON_OUT")
    if path:
        with open(path, "w") as f:
            json.dump(take(), f)
