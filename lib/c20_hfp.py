"""C20 Hands-Free Profile scenarios on two real devices (classic link, bumble's real RFCOMM underneath):

  run_slc(sc)   real HfProtocol.initiate_slc() against a real AgProtocol (sc["ag"] = "real") or against the harness' own
                reference AG (sc["ag"] = "puppet": answers from the configuration, may report any enabled flags, may cut
                its answers into several writes or batch them into one);
  run_at(sc)    a puppet HF writes raw command lines to a real AgProtocol: after every command the loop settles, then a
                probe (AT+CIND?) checks that the AG still answers.

Every AT line is logged where it is written to the data link (the link itself is checked by the RFCOMM part) with the
harness' own AT line parser (not bumble.at), and the final state of each real endpoint is read from its public attributes.
The traces are in the vocabulary of specs/Hfp/SlcTrace.tla.
"""
from __future__ import annotations

import asyncio
import re

from lib import rig, vt

FINALS = ("OK", "ERROR", "+CME ERROR", "NO CARRIER", "BUSY", "NO ANSWER", "DELAYED", "BLACKLISTED")
FIELDS = {"e": "", "dir": "", "cls": "", "code": "", "side": "", "done": False, "bits": [], "peer": [], "ints": [], "strs": [], "sup": [],
          "codecs": [], "holds": [], "hfinds": [], "hfen": [], "text": "", "mode": "", "hfFeat": [], "agFeat": [], "hfInds": [],
          "hfCodecs": [], "agInds": [], "agSup": [], "agVals": [], "agHfInds": [], "agHolds": []}
AG_NAMES = ["service", "call", "callsetup", "callheld", "signal", "roam", "battchg"]
HOLD_OPS = ["0", "1", "1x", "2", "2x", "3", "4"]


def ev(e, **kw):
    d = {k: (list(v) if isinstance(v, list) else v) for k, v in FIELDS.items()}
    d["e"] = e
    d.update(kw)
    return d


def bits(n):
    return [i for i in range(31) if (int(n) >> i) & 1]


def canon_values(vals):
    try:
        return ",".join(str(v) for v in sorted(int(x) for x in vals))
    except Exception:
        return "?" + repr(vals)[:40]


# ----------------------------------------------------------------------------- own AT line parser
def split_params(text):
    """'1,(0-3),"a,b",,2' -> ['1', ['0-3'], 'a,b', '', '2']: parentheses nest, quotes protect commas, blanks are ignored"""
    pos = 0
    n = len(text)

    def blanks():
        nonlocal pos
        while pos < n and text[pos] == " ":
            pos += 1

    def items(nested):
        nonlocal pos
        out = []
        while True:
            blanks()
            if pos < n and text[pos] == "(":
                pos += 1
                item = items(True)
                if item == [""]:
                    item = []
                if pos < n and text[pos] == ")":
                    pos += 1
            elif pos < n and text[pos] == '"':
                j = text.find('"', pos + 1)
                j = n if j < 0 else j
                item = text[pos + 1 : j]
                pos = j + 1
            else:
                j = pos
                while j < n and text[j] not in ",()":
                    j += 1
                item = text[pos:j].strip()
                pos = j
            out.append(item)
            blanks()
            if pos < n and text[pos] == ",":
                pos += 1
                continue
            if pos < n and not nested and text[pos] in "()":
                pos += 1  # stray parenthesis at top level: skip it
                continue
            return out

    return items(False)


def _ints(params):
    out = []
    for p in params:
        if isinstance(p, list):
            return []
        p = p.strip()
        if p == "":
            out.append(0)
        elif re.fullmatch(r"\d{1,9}", p):
            out.append(int(p))
        else:
            return []
    return out


def _expand(rng):
    """['0-3'] / ['0','1'] -> canonical '0,1,2,3'"""
    vals = []
    for p in rng:
        if isinstance(p, list):
            return "?"
        m = re.fullmatch(r"(\d+)-(\d+)", p)
        if m:
            vals += list(range(int(m.group(1)), int(m.group(2)) + 1))
        elif re.fullmatch(r"\d+", p):
            vals.append(int(p))
        else:
            return "?" + p
    return canon_values(vals)


def parse_hf_line(line, probe=False):
    """a command line of the HF (without its <cr>) -> event"""
    text = line.decode("utf-8", "replace")
    m = re.fullmatch(r"AT\+([A-Z]+)(=\?|=|\?)?(.*)", text)
    cls = "probe" if probe else "cmd"
    if m:
        code = m.group(1) + (m.group(2) or "")
        params = split_params(m.group(3)) if m.group(3) else []
        e = ev("at", dir="hf", cls=cls, code=code, text=text, ints=_ints(params), strs=[p for p in params if isinstance(p, str)])
        if code == "BRSF=" and len(e["ints"]) == 1:
            e["bits"] = bits(e["ints"][0])
        return e
    if text.startswith("ATA"):
        return ev("at", dir="hf", cls=cls, code="A", text=text)
    if text.startswith("ATD"):
        return ev("at", dir="hf", cls=cls, code="D", text=text, strs=[text[3:]])
    return ev("at", dir="hf", cls="junk", code="", text=text)


def parse_ag_line(line, outstanding=""):
    """a result line of the AG (between <cr><lf> pairs) -> event"""
    text = line.decode("utf-8", "replace")
    code, _, rest = text.partition(":")
    code = code.strip()
    cls = "final" if code in FINALS else "result"
    e = ev("at", dir="ag", cls=cls, code=code, text=text)
    params = split_params(rest.strip()) if rest.strip() else []
    if code == "+BRSF":
        i = _ints(params)
        if len(i) == 1:
            e["bits"] = bits(i[0])
    elif code == "+CIND":
        if params and all(isinstance(p, list) for p in params):  # test form: ("name",(range)),...
            e["strs"] = [p[0] if p and isinstance(p[0], str) else "?" for p in params]
            e["sup"] = [_expand(p[1]) if len(p) > 1 and isinstance(p[1], list) else "?" for p in params]
        else:
            e["ints"] = _ints(params)
    elif code == "+CHLD":
        e["strs"] = [x for x in params[0] if isinstance(x, str)] if params and isinstance(params[0], list) else []
    elif code == "+BIND":
        e["ints"] = _ints(params[0]) if params and isinstance(params[0], list) else _ints(params)
    else:
        e["ints"] = _ints(params)
    return e


class LineLog:
    """collects the AT lines written by both ends of the data link, in order"""

    def __init__(self):
        self.events = []
        self.buf = {"hf": b"", "ag": b""}
        self.probe_next = False
        self.harness_errors = []  # observer code runs inside bumble's call stacks: what it raises is remembered and raised after the run

    def wrap(self, dlc, who):
        orig = dlc.write

        def write(data):
            if isinstance(data, str):
                data = data.encode("utf-8")
            try:
                self.feed(who, bytes(data))
            except Exception as e:
                self.harness_errors.append(f"{type(e).__name__}: {e}")
                raise
            return orig(data)

        dlc.write = write

    def feed(self, who, data):
        self.buf[who] += data
        if who == "hf":
            while b"\r" in self.buf["hf"]:
                line, _, self.buf["hf"] = self.buf["hf"].partition(b"\r")
                if line.strip():
                    self.events.append(parse_hf_line(line.strip(), self.probe_next))
                    self.probe_next = False
        else:
            while b"\r\n" in self.buf["ag"]:
                line, _, self.buf["ag"] = self.buf["ag"].partition(b"\r\n")
                if line.strip():
                    self.events.append(parse_ag_line(line.strip()))


# ----------------------------------------------------------------------------- configurations
def make_configs(sc):
    from bumble import hfp

    hf_cfg = hfp.HfConfiguration(
        supported_hf_features=[hfp.HfFeature(1 << b) for b in sc["hf_bits"]],
        supported_hf_indicators=[hfp.HfIndicator(i) for i in sc["hf_inds"]],
        supported_audio_codecs=[hfp.AudioCodec(c) for c in sc["hf_codecs"]])
    ag_cfg = hfp.AgConfiguration(
        supported_ag_features=[hfp.AgFeature(1 << b) for b in sc["ag_bits"]],
        supported_ag_indicators=[hfp.AgIndicatorState(indicator=hfp.AgIndicator(n), supported_values=set(vals), current_status=cur)
                                 for n, vals, cur in sc["ag_inds"]],
        supported_hf_indicators=[hfp.HfIndicator(i) for i in sc["ag_hfinds"]],
        supported_ag_call_hold_operations=[hfp.CallHoldOperation(o) for o in sc["ag_holds"]],
        supported_audio_codecs=[hfp.AudioCodec(c) for c in sc.get("ag_codecs", [1, 2])])
    return hf_cfg, ag_cfg


def header(sc, mode):
    return ev("cfg", mode=mode, hfFeat=sorted(sc["hf_bits"]), agFeat=sorted(sc["ag_bits"]), hfInds=list(sc["hf_inds"]),
              hfCodecs=list(sc["hf_codecs"]), agInds=[n for n, _, _ in sc["ag_inds"]], agSup=[canon_values(v) for _, v, _ in sc["ag_inds"]],
              agVals=[c for _, _, c in sc["ag_inds"]], agHfInds=list(sc["ag_hfinds"]), agHolds=list(sc["ag_holds"]))


def hold_hf(hf, done):
    return ev("slc", side="hf", done=bool(done), bits=bits(hf.supported_hf_features), peer=bits(hf.supported_ag_features),
              strs=[getattr(i.indicator, "value", str(i.indicator)) for i in hf.ag_indicators],
              sup=[canon_values(i.supported_values) if isinstance(i.supported_values, (set, frozenset, list, tuple)) else "?" + repr(i.supported_values)[:30]
                   for i in hf.ag_indicators],
              ints=[int(i.current_status) if isinstance(i.current_status, int) else -1 for i in hf.ag_indicators],
              codecs=[int(c) for c in hf.supported_audio_codecs],
              holds=[getattr(o, "value", str(o)) for o in hf.supported_ag_call_hold_operations],
              hfinds=sorted(int(k) for k, v in hf.hf_indicators.items() if v.supported),
              hfen=sorted(int(k) for k, v in hf.hf_indicators.items() if v.enabled))


def hold_ag(ag, done):
    return ev("slc", side="ag", done=bool(done), bits=bits(ag.supported_ag_features), peer=bits(ag.supported_hf_features),
              strs=[getattr(i.indicator, "value", str(i.indicator)) for i in ag.ag_indicators],
              sup=[canon_values(i.supported_values) for i in ag.ag_indicators],
              ints=[int(i.current_status) for i in ag.ag_indicators],
              codecs=[int(c) for c in ag.supported_audio_codecs],
              holds=[getattr(o, "value", str(o)) for o in ag.supported_ag_call_hold_operations],
              hfinds=sorted(int(k) for k in ag.hf_indicators),
              hfen=sorted(int(k) for k, v in ag.hf_indicators.items() if v.enabled))


# ----------------------------------------------------------------------------- the link under both
async def data_link(sc):
    """two real devices, classic connection, one RFCOMM data link -> (dlc of the RFCOMM client, dlc of the server)"""
    from bumble import rfcomm

    net = rig.Net(2, seed=sc["seed"], max_delay=sc.get("hci_delay", 0.0))
    rig.enable_classic(net)
    got = asyncio.get_running_loop().create_future()
    server = rfcomm.Server(net[1])
    channel = server.listen(lambda dlc: got.done() or got.set_result(dlc), max_frame_size=sc.get("mfs", 1000), initial_credits=sc.get("credits", 7))
    await net.power_on()
    conns = await net.connect_classic(0, 1)
    client = rfcomm.Client(conns[0])
    mux = await asyncio.wait_for(client.start(), 30)
    cdlc = await asyncio.wait_for(mux.open_dlc(channel, max_frame_size=sc.get("mfs", 1000), initial_credits=sc.get("credits", 7)), 30)
    sdlc = await asyncio.wait_for(got, 30)
    return cdlc, sdlc


# ----------------------------------------------------------------------------- reference AG (the harness' own)
class PuppetAg:
    """answers the HF's service level connection commands from the configuration (HFP 1.8 4.2.1 / 4.34)"""

    def __init__(self, dlc, sc, log):
        self.dlc, self.sc, self.log = dlc, sc, log
        self.buf = b""
        self.hf_inds = []
        dlc.sink = self.feed

    def feed(self, data):
        try:
            self.buf += bytes(data)
            while b"\r" in self.buf:
                line, _, self.buf = self.buf.partition(b"\r")
                if line.strip():
                    self.answer(line.strip().decode("utf-8", "replace"))
        except Exception as e:
            self.log.harness_errors.append(f"reference AG: {type(e).__name__}: {e}")
            raise

    def answer(self, text):
        sc = self.sc
        lines = []
        if text.startswith("AT+BRSF="):
            lines = [f"+BRSF: {sum(1 << b for b in sc['ag_bits'])}", "OK"]
        elif text.startswith("AT+BAC=") or text.startswith("AT+CMER="):
            lines = ["OK"]
        elif text == "AT+CIND=?":
            items = []
            for k, (name, vals, _cur) in enumerate(sc["ag_inds"]):
                vals = sorted(vals)
                contiguous = vals == list(range(vals[0], vals[-1] + 1))
                rng = f"({vals[0]}-{vals[-1]})" if contiguous and (len(vals) > 2 or k % 2 == 0) else "(" + ",".join(map(str, vals)) + ")"
                items.append(f'("{name}",{rng})')
            lines = ["+CIND: " + ",".join(items), "OK"]
        elif text == "AT+CIND?":
            lines = ["+CIND: " + ",".join(str(c) for _, _, c in sc["ag_inds"]), "OK"]
        elif text == "AT+CHLD=?":
            lines = ["+CHLD: (" + ",".join(sc["ag_holds"]) + ")", "OK"]
        elif text == "AT+BIND=?":
            lines = ["+BIND: (" + ",".join(str(i) for i in sc["ag_hfinds"]) + ")", "OK"]
        elif text == "AT+BIND?":
            en = sc.get("enabled", {})
            lines = [f"+BIND: {i},{int(en.get(str(i), 1))}" for i in sc["ag_hfinds"] if i in self.hf_inds] + ["OK"]
        elif text.startswith("AT+BIND="):
            self.hf_inds = [int(x) for x in text[8:].split(",") if x.strip()]
            lines = ["OK"]
        else:
            lines = ["ERROR"]
        style = sc.get("write_style", "each")
        if style == "batch":
            self.dlc.write(b"".join(b"\r\n" + l.encode() + b"\r\n" for l in lines))
        elif style == "split":
            raw = b"".join(b"\r\n" + l.encode() + b"\r\n" for l in lines)
            cut = max(1, len(raw) // 2)
            self.dlc.write(raw[:cut])
            self.dlc.write(raw[cut:])
        else:
            for l in lines:
                self.dlc.write(b"\r\n" + l.encode() + b"\r\n")


# ----------------------------------------------------------------------------- scenarios
async def _slc(sc, out, patch=None):
    from bumble import hfp

    cdlc, sdlc = await data_link(sc)
    hf_dlc, ag_dlc = (cdlc, sdlc) if sc.get("hf_is_client", True) else (sdlc, cdlc)
    hf_cfg, ag_cfg = make_configs(sc)
    log = LineLog()
    log.wrap(hf_dlc, "hf")
    log.wrap(ag_dlc, "ag")
    hf = hfp.HfProtocol(hf_dlc, hf_cfg)
    ag = None
    complete = []
    if sc["ag"] == "real":
        ag = hfp.AgProtocol(ag_dlc, ag_cfg)
        ag.on(ag.EVENT_SLC_COMPLETE, lambda: complete.append(len(log.events)))
    else:
        PuppetAg(ag_dlc, sc, log)
    if patch:
        patch("before", hf, ag)
    done, what = True, ""
    try:
        await asyncio.wait_for(hf.initiate_slc(), 120)
    except Exception as e:
        done, what = False, f"{type(e).__name__}: {e}"
    await asyncio.sleep(5.0)
    if patch:
        patch("after", hf, ag)
    tr = [header(sc, "slc")] + log.events
    e = hold_hf(hf, done)
    e["text"] = what
    tr.append(e)
    if ag is not None:
        tr.append(hold_ag(ag, bool(complete)))
    tr.append(ev("quiesce"))
    out["harness_errors"] = log.harness_errors
    out["trace"] = tr
    out["info"] = {"done": done, "what": what, "slc_complete_events": len(complete), "lines": len(log.events)}


SLC_BY_HAND = ["AT+BRSF={hf}", "AT+BAC=1,2", "AT+CIND=?", "AT+CIND?", "AT+CMER=3,0,0,1", "AT+CHLD=?", "AT+BIND=1,2", "AT+BIND=?", "AT+BIND?"]


async def _at(sc, out, patch=None):
    """sc["lines"]: the raw command lines (text, without <cr>) the puppet HF sends after a service level connection by hand"""
    from bumble import hfp

    cdlc, sdlc = await data_link(sc)
    _hf_cfg, ag_cfg = make_configs(sc)
    log = LineLog()
    log.wrap(cdlc, "hf")
    log.wrap(sdlc, "ag")
    rx = []
    cdlc.sink = lambda data: rx.append(bytes(data))
    ag = hfp.AgProtocol(sdlc, ag_cfg)
    for c in sc.get("calls", []):
        ag.calls.append(hfp.CallInfo(index=c, direction=hfp.CallInfoDirection.MOBILE_TERMINATED_CALL, status=hfp.CallInfoStatus.ACTIVE,
                                     mode=hfp.CallInfoMode.VOICE, multi_party=hfp.CallInfoMultiParty.NOT_IN_CONFERENCE))
    if patch:
        patch("before", None, ag)
    raised = []
    inner = sdlc.sink

    def sink(data):  # the AG's reader, observed: what it raises goes on to where it would have gone
        try:
            inner(data)
        except Exception as e:
            raised.append(f"{type(e).__name__}: {e}")
            raise

    sdlc.sink = sink
    hfn = sum(1 << b for b in sc["hf_bits"])
    if sc.get("slc_first", True):
        for line in SLC_BY_HAND:
            cdlc.write(line.format(hf=hfn).encode() + b"\r")
            await asyncio.sleep(1.0)
    for line in sc["lines"]:
        cdlc.write(line.encode() + b"\r")
        await asyncio.sleep(2.0)
        log.probe_next = True
        cdlc.write(b"AT+CIND?\r")
        await asyncio.sleep(2.0)
    await asyncio.sleep(5.0)
    out["harness_errors"] = log.harness_errors
    out["trace"] = [header(sc, "at")] + log.events + [ev("quiesce")]
    out["info"] = {"raised": raised, "lines": len(log.events)}


def _run(coro_fn, sc, patch=None):
    out = {}
    loop = vt.new_loop()
    errors = []
    loop.set_exception_handler(lambda loop, ctx: errors.append(str(ctx.get("exception") or ctx.get("message"))))
    try:
        vt.run(coro_fn(sc, out, patch), loop=loop)
    finally:
        vt.close_loop(loop)
    out["info"]["loop_errors"] = errors[:5]
    if out.get("harness_errors"):
        raise RuntimeError(f"harness: observer code raised inside the stack: {out['harness_errors'][:3]}")
    return out


def run_slc(sc, patch=None):
    return _run(_slc, sc, patch)


def run_at(sc, patch=None):
    return _run(_at, sc, patch)
